package main

import (
	"encoding/json"
	"fmt"
	"math/rand"
	"os"
	"path/filepath"
	"runtime"
	"runtime/pprof"
	"sort"
	"strconv"
	"strings"
	"sync"
	"sync/atomic"
	"time"

	protoMetricsV1 "github.com/lindb/common/proto/gen/v1/linmetrics"

	"github.com/lindb/lindb/index"
	"github.com/lindb/lindb/models"
	"github.com/lindb/lindb/series/field"
	"github.com/lindb/lindb/series/metric"
	"github.com/lindb/lindb/series/tag"
	"github.com/lindb/lindb/sql/stmt"
	"github.com/lindb/lindb/verif/internal/core"
	"github.com/lindb/lindb/verif/internal/seam"
)

// ---- databases ----

type dbset struct {
	dir  string
	meta index.MetricMetaDatabase
	idx  []index.MetricIndexDatabase
}

func openDBs(dir string, shards int) (*dbset, error) {
	meta, err := index.NewMetricMetaDatabase("db", filepath.Join(dir, "meta"))
	if err != nil {
		return nil, fmt.Errorf("open meta database: %w", err)
	}
	d := &dbset{dir: dir, meta: meta}
	for i := 0; i < shards; i++ {
		sdir := filepath.Join(dir, "shard"+strconv.Itoa(i), "index")
		if err := os.MkdirAll(filepath.Dir(sdir), 0o755); err != nil {
			return nil, err
		}
		idb, err := index.NewMetricIndexDatabase(sdir, meta)
		if err != nil {
			return nil, fmt.Errorf("open index database %d: %w", i, err)
		}
		d.idx = append(d.idx, idb)
	}
	return d, nil
}

func (d *dbset) close() error {
	var first error
	for _, i := range d.idx {
		if err := i.Close(); err != nil && first == nil {
			first = err
		}
	}
	if err := d.meta.Close(); err != nil && first == nil {
		first = err
	}
	return first
}

// ---- rows ----

type fieldSpec struct {
	Name string
	Type field.Type
}

type rowSpec struct {
	NS     string
	Metric string
	Tags   [][2]string
	Fields []fieldSpec
}

func (r rowSpec) tagString() string {
	var sb strings.Builder
	for _, kv := range r.Tags {
		sb.WriteString(kv[0] + "=" + kv[1] + ",")
	}
	return sb.String()
}

var converterMu sync.Mutex
var converter = metric.NewProtoConverter(models.NewDefaultLimits())

func (r rowSpec) bytes() ([]byte, error) {
	m := &protoMetricsV1.Metric{Namespace: r.NS, Name: r.Metric, Timestamp: 1_700_000_000_000}
	for _, kv := range r.Tags {
		m.Tags = append(m.Tags, &protoMetricsV1.KeyValue{Key: kv[0], Value: kv[1]})
	}
	for _, f := range r.Fields {
		t := protoMetricsV1.SimpleFieldType_DELTA_SUM
		switch f.Type {
		case field.MinField:
			t = protoMetricsV1.SimpleFieldType_Min
		case field.MaxField:
			t = protoMetricsV1.SimpleFieldType_Max
		case field.LastField:
			t = protoMetricsV1.SimpleFieldType_LAST
		}
		m.SimpleFields = append(m.SimpleFields, &protoMetricsV1.SimpleField{Name: f.Name, Type: t, Value: 1})
	}
	converterMu.Lock()
	defer converterMu.Unlock()
	b, err := converter.MarshalProtoMetricV1(m)
	if err != nil {
		return nil, err
	}
	// the block is size-prefixed (uint32 length + flat metric); StorageRow.Unmarshal wants the metric
	return append([]byte(nil), b[4:]...), nil
}

// ---- observations ----

type obsKey struct{ kind, scope, name string }
type invKey struct {
	kind, scope string
	id          uint32
}

type obsVal struct {
	id          uint32
	firstReturn int64
	firstG      int
	overlapped  bool
	phase       string
}

type observations struct {
	mu         sync.Mutex
	clock      int64
	byName     map[obsKey]*obsVal
	byID       map[invKey]string
	res        *caseResult
	phase      atomic.Value // string
	flushing   int32        // >0 while a PrepareFlush..Flush window is open
	overlapped int
}

func newObs(res *caseResult) *observations {
	o := &observations{byName: map[obsKey]*obsVal{}, byID: map[invKey]string{}, res: res}
	o.phase.Store("live")
	return o
}

func (o *observations) tick() int64 { return atomic.AddInt64(&o.clock, 1) }

func (o *observations) violate(class, format string, args ...interface{}) {
	// caller holds o.mu
	o.res.Counters["violations."+class]++
	for _, v := range o.res.Violations {
		if v.Class == class {
			return
		}
	}
	o.res.Violations = append(o.res.Violations, core.Violation{Class: class, Message: fmt.Sprintf(format, args...)})
}

func (o *observations) fail(class, format string, args ...interface{}) {
	o.mu.Lock()
	defer o.mu.Unlock()
	o.violate(class, format, args...)
}

func (o *observations) count(name string, n int) {
	o.mu.Lock()
	o.res.Counters[name] += n
	o.mu.Unlock()
}

// observe records that (kind, scope, name) was answered with id by goroutine g in [call, ret].
func (o *observations) observe(g int, kind, scope, name string, id uint32, call, ret int64) {
	phase := o.phase.Load().(string)
	o.mu.Lock()
	defer o.mu.Unlock()
	o.res.Counters["answers."+kind]++
	k := obsKey{kind, scope, name}
	if old, ok := o.byName[k]; ok {
		if old.id != id && kind == "series" && phase != old.phase {
			// Series ids can only be asked for through get-or-create, so after a reopen a different id can mean
			// "the dictionary entry was lost and the series was created again" (not a C09 violation by the letter)
			// as well as "the recovered dictionary says something else". Recorded as an observation; the new id
			// is still checked against every id handed out before (id -> name map), which is where a reuse shows.
			o.res.Counters["series_ids_changed_after_"+phase]++
			old.id, old.phase = id, phase
		} else if old.id != id {
			situation := "concurrent-creators"
			switch {
			case phase != old.phase:
				situation = "after-" + phase
			case call > old.firstReturn:
				situation = "later-call-in-same-run"
			}
			o.violate("C09/"+kind+"/same-name-two-ids/"+situation,
				"%s %q (scope %s) was answered with id %d (goroutine %d, returned at %d) and with id %d (goroutine %d, call %d return %d, phase %s)",
				kind, name, scope, old.id, old.firstG, old.firstReturn, id, g, call, ret, phase)
		}
		if call < old.firstReturn && g != old.firstG && !old.overlapped {
			old.overlapped = true
			o.overlapped++
		}
	} else {
		o.byName[k] = &obsVal{id: id, firstReturn: ret, firstG: g, phase: phase}
	}
	ik := invKey{kind, scope, id}
	if other, ok := o.byID[ik]; ok {
		if other != name {
			situation := "same-run"
			if phase != "live" {
				situation = "after-" + phase
			}
			o.violate("C09/"+kind+"/two-names-share-id/"+situation, "%s id %d (scope %s) was given to %q and to %q (phase %s)", kind, id, scope, other, name, phase)
		}
	} else {
		o.byID[ik] = name
	}
}

// forget drops the name->id record of a name that is not in the recovered dictionaries (id->name is kept).
func (o *observations) forget(k obsKey) {
	o.mu.Lock()
	delete(o.byName, k)
	o.mu.Unlock()
}

// ---- the production call sequences ----

// lend hands a name to lindb the way the write path does: as bytes of a buffer the caller owns and reuses. The
// returned function overwrites the buffer once the call has returned (row blocks and batches are recycled in
// production), so a dictionary that kept the caller's bytes instead of its own copy changes its names under the ids.
func lend(name string) (buf []byte, reuse func()) {
	buf = []byte(name)
	return buf, func() {
		for i := range buf {
			buf[i] = '#'
		}
	}
}

// metaWorkerRow is what memdb.metadataDatabase.handleRow does for one row.
func metaWorkerRow(o *observations, g int, d *dbset, r rowSpec) {
	call := o.tick()
	nsBuf, reuseNS := lend(r.NS)
	nameBuf, reuseName := lend(r.Metric)
	mid, err := d.meta.GenMetricID(nsBuf, nameBuf)
	reuseNS()
	reuseName()
	ret := o.tick()
	if err != nil {
		o.fail("C09/gen-fails", "GenMetricID(%s,%s): %v", r.NS, r.Metric, err)
		return
	}
	o.observe(g, "metric", r.NS, r.Metric, uint32(mid), call, ret)
	for _, f := range r.Fields {
		call = o.tick()
		fid, err := d.meta.GenFieldID(mid, field.Meta{Name: field.Name(f.Name), Type: f.Type})
		ret = o.tick()
		if err != nil {
			o.fail("C09/gen-fails", "GenFieldID(%d,%s): %v", mid, f.Name, err)
			continue
		}
		o.observe(g, "field", fmt.Sprintf("metric=%d", mid), f.Name, uint32(fid), call, ret)
	}
}

// indexWorkerRow is what memdb.indexDatabase.handleRow does for one row of shard s.
func indexWorkerRow(o *observations, g int, d *dbset, s int, r rowSpec) {
	data, err := r.bytes()
	if err != nil {
		o.fail("C09/harness-row", "%v", err)
		return
	}
	row := &metric.StorageRow{}
	row.Unmarshal(data)
	call := o.tick()
	mid, err := d.meta.GenMetricID(row.NameSpace(), row.Name())
	ret := o.tick()
	if err != nil {
		o.fail("C09/gen-fails", "GenMetricID: %v", err)
		return
	}
	o.observe(g, "metric", r.NS, r.Metric, uint32(mid), call, ret)
	call = o.tick()
	sid, err := d.idx[s].GenSeriesID(mid, row)
	ret = o.tick()
	if err != nil {
		o.fail("C09/gen-fails", "GenSeriesID: %v", err)
		return
	}
	o.observe(g, "series", fmt.Sprintf("shard=%d,metric=%d", s, mid), r.tagString(), sid, call, ret)
	// the row block is recycled for the next batch
	for i := range data {
		data[i] = '#'
	}
	tagIDs(o, g, d, mid, r)
}

// tagIDs asks for the ids of the row's tag keys and values (get-or-create, as buildInvertIndex does).
func tagIDs(o *observations, g int, d *dbset, mid metric.ID, r rowSpec) {
	for _, kv := range r.Tags {
		call := o.tick()
		keyBuf, reuseKey := lend(kv[0])
		kid, err := d.meta.GenTagKeyID(mid, keyBuf)
		reuseKey()
		ret := o.tick()
		if err != nil {
			o.fail("C09/gen-fails", "GenTagKeyID(%d,%s): %v", mid, kv[0], err)
			continue
		}
		o.observe(g, "tagkey", fmt.Sprintf("metric=%d", mid), kv[0], uint32(kid), call, ret)
		call = o.tick()
		valBuf, reuseVal := lend(kv[1])
		vid, err := d.meta.GenTagValueID(kid, valBuf)
		reuseVal()
		ret = o.tick()
		if err != nil {
			o.fail("C09/gen-fails", "GenTagValueID(%d,%s): %v", kid, kv[1], err)
			continue
		}
		o.observe(g, "tagvalue", fmt.Sprintf("tagkey=%d", kid), kv[1], vid, call, ret)
	}
}

var fieldTypes = []field.Type{field.SumField, field.MinField, field.MaxField, field.LastField}

func genRows(r *rand.Rand, round, n int) []rowSpec {
	var rows []rowSpec
	nss := []string{"ns-a", "ns-b", "default-ns", "n" + strconv.Itoa(round%3)}
	for i := 0; i < n; i++ {
		spec := rowSpec{NS: nss[r.Intn(len(nss))]}
		if r.Intn(4) == 0 && round > 0 {
			spec.Metric = fmt.Sprintf("m-%d-%d", r.Intn(round), r.Intn(3)) // an older metric
		} else {
			spec.Metric = fmt.Sprintf("m-%d-%d", round, r.Intn(3))
		}
		nt := r.Intn(4)
		keys := []string{"host", "dc", "k" + strconv.Itoa(round%4), "zone"}
		r.Shuffle(len(keys), func(a, b int) { keys[a], keys[b] = keys[b], keys[a] })
		keys = keys[:nt]
		sort.Strings(keys)
		for _, k := range keys {
			spec.Tags = append(spec.Tags, [2]string{k, fmt.Sprintf("v-%d-%d", round/2, r.Intn(4))})
		}
		nf := 1 + r.Intn(3)
		for f := 0; f < nf; f++ {
			fi := r.Intn(5)
			spec.Fields = append(spec.Fields, fieldSpec{Name: fmt.Sprintf("f%d", fi), Type: fieldTypes[fi%len(fieldTypes)]})
		}
		// field names must be unique within a row
		seen := map[string]bool{}
		var fs []fieldSpec
		for _, f := range spec.Fields {
			if !seen[f.Name] {
				seen[f.Name] = true
				fs = append(fs, f)
			}
		}
		spec.Fields = fs
		rows = append(rows, spec)
	}
	return rows
}

func runCase() {
	kind := os.Args[2]
	idx, _ := strconv.Atoi(os.Args[3])
	dir := os.Args[4]
	tier := os.Args[5]
	seed, _ := strconv.ParseInt(os.Getenv("VERIF_SEED"), 10, 64)
	res := &caseResult{Kind: kind, Index: idx, Counters: map[string]int{}}
	if pf := os.Getenv("VERIF_CPUPROFILE"); pf != "" {
		f, _ := os.Create(pf)
		_ = pprof.StartCPUProfile(f)
		defer pprof.StopCPUProfile()
	}
	switch kind {
	case "conc":
		caseConc(res, idx, dir, seed, tier)
	case "crash":
		caseCrash(res, idx, dir, seed, tier)
	case "fault":
		caseFault(res, idx, dir, seed, tier)
	case "limits":
		caseLimits(res, idx, dir, seed, tier)
	case "memdb":
		caseMemdb(res, idx, dir, seed, tier)
	case "schemacache":
		caseSchemaCache(res, idx, dir, seed, tier)
	case "flushpark":
		caseFlushPark(res, idx, dir, seed, tier)
	}
	seam.Restore()
	data, _ := json.Marshal(res)
	if err := os.WriteFile(filepath.Join(dir, "result.json"), data, 0o644); err != nil {
		fmt.Println(err)
		os.Exit(3)
	}
}

func caseConc(res *caseResult, idx int, dir string, seed int64, tier string) {
	r := rand.New(rand.NewSource(seed*7793 + int64(idx)*97 + 11))
	shards := 2 + r.Intn(2)
	extra := r.Intn(12) // extra goroutines hammering the shared meta database directly
	rounds := 12
	if tier == "thorough" {
		rounds = 30
	}
	rowsPerRound := 6 + r.Intn(10)
	flushEvery := 2 + r.Intn(3)
	hammer := idx%4 != 3
	res.Config = fmt.Sprintf("shards=%d extraGoroutines=%d rounds=%d rowsPerRound=%d flushEvery=%d hammer=%v", shards, extra, rounds, rowsPerRound, flushEvery, hammer)
	o := newObs(res)
	d, err := openDBs(filepath.Join(dir, "db"), shards)
	if err != nil {
		o.fail("C09/open-fails", "%v", err)
		return
	}
	var bg sync.WaitGroup // background flushes
	var metaFlushing, idxFlushing int32
	idxFlush := make([]int32, shards)
	_ = idxFlushing
	var allRows []rowSpec
	for round := 0; round < rounds; round++ {
		rows := genRows(r, round, rowsPerRound)
		allRows = append(allRows, rows...)
		before := o.overlapped
		var wg sync.WaitGroup
		start := make(chan struct{})
		// the database's metadata worker
		wg.Add(1)
		go func() {
			defer wg.Done()
			<-start
			for i, row := range rows {
				metaWorkerRow(o, 0, d, row)
				if round%flushEvery == 0 && i == len(rows)/2 && atomic.CompareAndSwapInt32(&metaFlushing, 0, 1) {
					// what handle() does on a FlushEvent: PrepareFlush in the worker, Flush in the background
					d.meta.PrepareFlush()
					o.count("meta_prepare_flush", 1)
					bg.Add(1)
					go func() {
						defer bg.Done()
						if err := d.meta.Flush(); err != nil {
							o.fail("C09/flush-fails", "meta flush: %v", err)
						}
						atomic.StoreInt32(&metaFlushing, 0)
						o.count("meta_flush", 1)
					}()
				}
			}
		}()
		// one index worker per shard
		for s := 0; s < shards; s++ {
			wg.Add(1)
			go func(s int) {
				defer wg.Done()
				rr := rand.New(rand.NewSource(seed + int64(idx)*1000 + int64(round)*10 + int64(s)))
				order := rr.Perm(len(rows))
				<-start
				for i, ri := range order {
					indexWorkerRow(o, 1+s, d, s, rows[ri])
					if (round+s)%flushEvery == 1 && i == len(order)/2 && atomic.CompareAndSwapInt32(&idxFlush[s], 0, 1) {
						d.idx[s].PrepareFlush()
						o.count("index_prepare_flush", 1)
						bg.Add(1)
						go func() {
							defer bg.Done()
							if err := d.idx[s].Flush(); err != nil {
								o.fail("C09/flush-fails", "index flush: %v", err)
							}
							atomic.StoreInt32(&idxFlush[s], 0)
							o.count("index_flush", 1)
						}()
					}
				}
			}(s)
		}
		// extra callers of the shared dictionaries (other shards' workers resolving the same names)
		for e := 0; e < extra; e++ {
			wg.Add(1)
			go func(e int) {
				defer wg.Done()
				rr := rand.New(rand.NewSource(seed + int64(idx)*1000 + int64(round)*10 + 500 + int64(e)))
				order := rr.Perm(len(rows))
				<-start
				for _, ri := range order {
					row := rows[ri]
					call := o.tick()
					mid, err := d.meta.GenMetricID([]byte(row.NS), []byte(row.Metric))
					ret := o.tick()
					if err != nil {
						o.fail("C09/gen-fails", "GenMetricID: %v", err)
						continue
					}
					o.observe(10+e, "metric", row.NS, row.Metric, uint32(mid), call, ret)
					if e%2 == 0 {
						tagIDs(o, 10+e, d, mid, row)
					} else {
						for _, f := range row.Fields {
							call = o.tick()
							fid, err := d.meta.GenFieldID(mid, field.Meta{Name: field.Name(f.Name), Type: f.Type})
							ret = o.tick()
							if err == nil {
								o.observe(10+e, "field", fmt.Sprintf("metric=%d", mid), f.Name, uint32(fid), call, ret)
							}
						}
					}
				}
			}(e)
		}
		// In "hammer" cases the metadata store is switched (PrepareFlush) and flushed in a tight loop while the
		// creators run, so that a switch lands between a creator's unlocked lookup and its locked create.
		var hammerStop atomic.Bool
		var hwg sync.WaitGroup
		if hammer {
			hwg.Add(1)
			go func() {
				defer hwg.Done()
				<-start
				for !hammerStop.Load() {
					if atomic.CompareAndSwapInt32(&metaFlushing, 0, 1) {
						d.meta.PrepareFlush()
						o.count("meta_prepare_flush", 1)
						if err := d.meta.Flush(); err != nil {
							o.fail("C09/flush-fails", "meta flush: %v", err)
						}
						atomic.StoreInt32(&metaFlushing, 0)
						o.count("meta_flush", 1)
					}
					runtime.Gosched()
				}
			}()
		}
		// While stores are switched and flushed: (a) read-only lookups of names that do not exist (they miss the memory
		// stores and load the bucket from the table files - what a query for an unknown name does), and (b) repeated
		// get-or-create calls for the names of the two previous rounds, whose entries are the ones the running flushes
		// move from the memory stores into table files.
		if round > 0 {
			prev := allRows[:len(allRows)-len(rows)]
			if len(prev) > 2*rowsPerRound {
				prev = prev[len(prev)-2*rowsPerRound:]
			}
			hwg.Add(2)
			go func() {
				defer hwg.Done()
				<-start
				for n := 0; !hammerStop.Load(); n++ {
					row := prev[n%len(prev)]
					_, _ = d.meta.GetMetricID(row.NS, fmt.Sprintf("absent-%d", n))
					if mid, err := d.meta.GetMetricID(row.NS, row.Metric); err == nil && len(row.Tags) > 0 {
						// the tag key id comes from the observation map: reading the live schema object here would race
						// with Flush marking its entries persisted (lindb hands out the shared object; DESIGN §6 #12)
						o.mu.Lock()
						kv, ok := o.byName[obsKey{"tagkey", fmt.Sprintf("metric=%d", mid), row.Tags[0][0]}]
						o.mu.Unlock()
						if ok {
							_, _ = d.meta.FindTagValueDsByExpr(tag.KeyID(kv.id), &stmt.EqualsExpr{Key: row.Tags[0][0], Value: fmt.Sprintf("absent-%d", n)})
						}
					}
					o.count("absent_name_lookups_during_flushes", 1)
					runtime.Gosched()
				}
			}()
			go func() {
				defer hwg.Done()
				<-start
				for n := 0; !hammerStop.Load(); n++ {
					row := prev[n%len(prev)]
					metaWorkerRow(o, 30, d, row)
					if mid, err := d.meta.GetMetricID(row.NS, row.Metric); err == nil {
						tagIDs(o, 30, d, mid, row)
					}
					o.count("old_names_requested_again_during_flushes", 1)
					runtime.Gosched()
				}
			}()
		}
		close(start)
		wg.Wait()
		hammerStop.Store(true)
		hwg.Wait()
		res.Evals++
		o.mu.Lock()
		if o.overlapped > before {
			res.Nontrivial = append(res.Nontrivial, fmt.Sprintf("conc%d/round%d", idx, round))
		}
		o.mu.Unlock()
	}
	bg.Wait()
	o.count("names_requested_by_overlapping_creators", o.overlapped)
	// everything durable: the production order (metadata first, then each shard's index)
	d.meta.PrepareFlush()
	if err := d.meta.Flush(); err != nil {
		o.fail("C09/flush-fails", "final meta flush: %v", err)
	}
	for s := range d.idx {
		d.idx[s].PrepareFlush()
		if err := d.idx[s].Flush(); err != nil {
			o.fail("C09/flush-fails", "final index flush: %v", err)
		}
	}
	if err := d.close(); err != nil {
		o.fail("C09/close-fails", "%v", err)
		return
	}
	// reopen: every name keeps its id, fresh names get unused ids
	d2, err := openDBs(filepath.Join(dir, "db"), shards)
	if err != nil {
		o.fail("C09/reopen-fails", "%v", err)
		return
	}
	o.phase.Store("reopen")
	relookup(o, d2)
	for _, row := range allRows { // series ids (and everything else again) through the get-or-create path
		for s := range d2.idx {
			indexWorkerRow(o, 1+s, d2, s, row)
		}
	}
	fresh := genRows(r, rounds+5, 12)
	for _, row := range fresh {
		metaWorkerRow(o, 0, d2, row)
		for s := range d2.idx {
			indexWorkerRow(o, 1+s, d2, s, row)
		}
	}
	// fresh fields, tag keys, tag values and series on OLD metrics: ids derived from the recovered state
	for i, row := range allRows {
		if i%3 != 0 {
			continue
		}
		nr := rowSpec{NS: row.NS, Metric: row.Metric,
			Tags:   [][2]string{{"fresh-key", "fresh-val-" + strconv.Itoa(i)}, {"host", "fresh-host-" + strconv.Itoa(i)}},
			Fields: []fieldSpec{{Name: "fresh-field-" + strconv.Itoa(i%5), Type: field.SumField}}}
		metaWorkerRow(o, 0, d2, nr)
		indexWorkerRow(o, 1+i%len(d2.idx), d2, i%len(d2.idx), nr)
	}
	_ = d2.close()
	o.mu.Lock()
	names := len(o.byName)
	o.mu.Unlock()
	o.count("distinct_names_observed", names)
	res.Sample = map[string]interface{}{"kind": "conc", "config": res.Config, "names": names, "overlapping_creations": o.overlapped,
		"example_row": genRows(rand.New(rand.NewSource(1)), 1, 1)[0]}
}

// relookup asks again for every name observed so far (by the public lookup and get-or-create calls).
func relookup(o *observations, d *dbset) {
	o.mu.Lock()
	type item struct {
		k obsKey
		v uint32
	}
	var items []item
	for k, v := range o.byName {
		items = append(items, item{k, v.id})
	}
	o.mu.Unlock()
	sort.Slice(items, func(i, j int) bool {
		a, b := items[i].k, items[j].k
		if a.kind != b.kind {
			return a.kind < b.kind
		}
		if a.scope != b.scope {
			return a.scope < b.scope
		}
		return a.name < b.name
	})
	for _, it := range items {
		k := it.k
		if k.kind == "series" {
			continue // series are looked up through the get-or-create path of their index database
		}
		call := o.tick()
		id, ok, err := lookup(d, ledgerName{k: k, id: it.v})
		if err != nil {
			o.fail("C09/lookup-fails-after-reopen", "%s %q (scope %s): %v", k.kind, k.name, k.scope, err)
			continue
		}
		if !ok {
			// Not a C09 violation by the letter of the property (it speaks about names FOUND in the recovered
			// dictionaries); recorded as an observation. The name may now be created again with another id,
			// but its old id stays reserved in the inverse map: nobody else may get it.
			o.forget(k)
			o.count("names_not_recovered_after_reopen."+k.kind, 1)
			continue
		}
		o.observe(99, k.kind, k.scope, k.name, id, call, o.tick())
	}
	o.count("names_looked_up_after_reopen", len(items))
}

var _ = time.Now
