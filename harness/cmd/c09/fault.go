package main

import (
	"errors"
	"fmt"
	"math/rand"
	"path/filepath"
	"sort"
	"strings"
	"sync"

	"github.com/lindb/lindb/constants"
	"github.com/lindb/lindb/models"
	"github.com/lindb/lindb/series/metric"
	"github.com/lindb/lindb/verif/internal/seam"
)

// faultIC is a seam interceptor that makes the n-th intercepted file-system operation after arm() fail
// (the operation is not executed, as with EIO/ENOSPC) and lets everything else through.
type faultIC struct {
	mu        sync.Mutex
	countdown int
	fired     string
	ops       int
	root      string
	trace     []string // operation kinds of the cycle being recorded
	recording bool
}

func (f *faultIC) arm(n int) {
	f.mu.Lock()
	f.countdown, f.fired = n, ""
	f.mu.Unlock()
}

// record starts/stops recording the operation kinds of a cycle; stop returns them.
func (f *faultIC) record(on bool) []string {
	f.mu.Lock()
	defer f.mu.Unlock()
	t := f.trace
	f.trace, f.recording = nil, on
	return t
}

// pick chooses the position of the next fault from the trace of the last complete cycle: first an operation kind
// (uniformly over the kinds seen), then one of that kind's positions - so that every store and every kind of
// operation (create, write, close, sync, rename, manifest) gets its share, not just the first store of the cycle.
func pickFault(r *rand.Rand, trace []string) int {
	if len(trace) == 0 {
		return 1 + r.Intn(40)
	}
	pos := map[string][]int{}
	var kinds []string
	for i, k := range trace {
		if _, ok := pos[k]; !ok {
			kinds = append(kinds, k)
		}
		pos[k] = append(pos[k], i+1)
	}
	sort.Strings(kinds)
	ps := pos[kinds[r.Intn(len(kinds))]]
	return ps[r.Intn(len(ps))]
}

func (f *faultIC) disarm() (fired string) {
	f.mu.Lock()
	defer f.mu.Unlock()
	f.countdown = 0
	return f.fired
}

func (f *faultIC) Do(label string, op func() error) error {
	f.mu.Lock()
	f.ops++
	if f.recording {
		f.trace = append(f.trace, opKind(f.root, label))
	}
	if f.countdown > 0 {
		f.countdown--
		if f.countdown == 0 {
			f.fired = label
			f.mu.Unlock()
			return fmt.Errorf("verif: injected I/O error at %q", label)
		}
	}
	f.mu.Unlock()
	return op()
}

// opKind turns a seam label ("write /path/file") into its operation and store ("write meta/tv").
func opKind(root, label string) string {
	parts := strings.SplitN(label, " ", 2)
	if len(parts) < 2 {
		return label
	}
	rel := strings.TrimPrefix(parts[1], root+"/")
	dirs := strings.Split(rel, "/")
	if len(dirs) > 3 {
		dirs = dirs[:3]
	}
	if n := len(dirs); n > 0 && strings.Contains(dirs[n-1], ".") || strings.HasPrefix(dirs[len(dirs)-1], "MANIFEST") || dirs[len(dirs)-1] == "CURRENT" {
		dirs = dirs[:len(dirs)-1]
	}
	return parts[0] + " " + strings.Join(dirs, "/")
}

// caseFault: the node survives a failed flush. One file-system operation of a metadata/index flush cycle fails
// (the process keeps running); every name handed out so far must keep its id for all later callers - right after
// the failed flush, after the retried flush (which may purge the caches) and after a clean close + reopen - and
// names created afterwards must get unused ids.
func caseFault(res *caseResult, idx int, dir string, seed int64, tier string) {
	r := rand.New(rand.NewSource(seed*7331 + int64(idx)*131 + 5))
	shards := 1 + r.Intn(2)
	rounds := 4 + r.Intn(3)
	res.Config = fmt.Sprintf("shards=%d rounds=%d", shards, rounds)
	root := filepath.Join(dir, "db")
	ic := &faultIC{root: root}
	seam.NoFsync = true
	seam.InstallKV(ic, nil)
	seam.InstallIndexSequence(ic)
	o := newObs(res)
	d, err := openDBs(root, shards)
	if err != nil {
		o.fail("C09/open-fails", "%v", err)
		return
	}
	var allRows []rowSpec
	rowShard := map[int]int{}
	arrive := func(step, n int) {
		for _, row := range genRows(r, step, n) {
			s := r.Intn(shards)
			rowShard[len(allRows)] = s
			allRows = append(allRows, row)
			metaWorkerRow(o, 0, d, row)
			indexWorkerRow(o, 1+s, d, s, row)
		}
	}
	// the production flush order; returns the errors of the steps
	cycle := func(between func()) (errs []string) {
		d.meta.PrepareFlush()
		if between != nil {
			between()
		}
		if err := d.meta.Flush(); err != nil {
			errs = append(errs, "meta: "+err.Error())
		}
		for s := range d.idx {
			d.idx[s].PrepareFlush()
			if err := d.idx[s].Flush(); err != nil {
				errs = append(errs, fmt.Sprintf("shard%d: %v", s, err))
			}
		}
		return errs
	}
	// every name observed so far is asked again on the running node
	live := func(stage string) {
		relookupLive(o, d, stage)
		for i, row := range allRows {
			metaWorkerRow(o, 0, d, row)
			indexWorkerRow(o, 1+rowShard[i], d, rowShard[i], row)
		}
	}
	fired := 0
	// a first complete cycle shows which operations a cycle consists of
	arrive(-1, 2+r.Intn(3))
	ic.record(true)
	if errs := cycle(nil); len(errs) > 0 {
		o.fail("C09/flush-fails", "first flush cycle without any fault: %v", errs)
	}
	trace := ic.record(false)
	for round := 0; round < rounds; round++ {
		o.phase.Store(fmt.Sprintf("fault-round-%d", round))
		arrive(round*10, 2+r.Intn(3))
		k := pickFault(r, trace)
		ic.arm(k)
		errs := cycle(func() {
			if r.Intn(2) == 0 {
				arrive(round*10+1, 1) // a row between PrepareFlush and Flush
			}
		})
		label := ic.disarm()
		if label == "" {
			o.count("fault.cycles_with_fewer_operations_than_the_fault_position", 1)
		} else {
			fired++
			o.count("fault.fired", 1)
			o.count("fault.at."+opKind(root, label), 1)
			if len(errs) == 0 {
				o.count("fault.flush_cycle_reported_no_error_although_an_operation_failed", 1)
			}
			res.Nontrivial = append(res.Nontrivial, fmt.Sprintf("fault%d/round%d/%s#%d", idx, round, opKind(root, label), k))
		}
		live("after-failed-flush")
		// the retry (what the next tick of the flush checker does); a second retry if the first still fails
		for try := 0; try < 2; try++ {
			ic.record(true)
			errs = cycle(nil)
			if t := ic.record(false); len(errs) == 0 {
				trace = t
				break
			}
		}
		if len(errs) > 0 {
			o.count("fault.retry_still_fails", 1)
		} else {
			o.count("fault.retry_succeeded", 1)
		}
		live("after-retried-flush")
		// names created after the failed flush: unused ids (checked by the observation map)
		arrive(round*10+5, 1+r.Intn(2))
		// new fields / tag keys / tag values on OLD metrics: their ids derive from the schema as the node sees it now
		for i := 0; i < len(allRows) && i < 6; i++ {
			row := allRows[r.Intn(len(allRows))]
			nr := rowSpec{NS: row.NS, Metric: row.Metric,
				Tags:   [][2]string{{fmt.Sprintf("fk%d", round), fmt.Sprintf("fv%d-%d", round, i)}},
				Fields: []fieldSpec{{Name: fmt.Sprintf("ff%d-%d", round, i%3), Type: row.Fields[0].Type}}}
			s := r.Intn(shards)
			rowShard[len(allRows)] = s
			allRows = append(allRows, nr)
			metaWorkerRow(o, 0, d, nr)
			indexWorkerRow(o, 1+s, d, s, nr)
		}
	}
	if fired == 0 {
		o.count("fault.cases_without_any_fault", 1)
	}
	if errs := cycle(nil); len(errs) > 0 {
		o.count("fault.final_flush_fails", 1)
	}
	live("before-close")
	if err := d.close(); err != nil {
		o.count("fault.close_fails", 1)
	}
	d2, err := openDBs(root, shards)
	if err != nil {
		o.fail("C09/reopen-fails", "after a failed and retried flush: %v", err)
		return
	}
	o.phase.Store("reopen")
	relookup(o, d2)
	for i, row := range allRows {
		metaWorkerRow(o, 0, d2, row)
		indexWorkerRow(o, 1+rowShard[i], d2, rowShard[i], row)
	}
	for _, row := range genRows(r, 999, 6) {
		metaWorkerRow(o, 0, d2, row)
		for s := range d2.idx {
			indexWorkerRow(o, 1+s, d2, s, row)
		}
	}
	_ = d2.close()
	o.mu.Lock()
	names := len(o.byName)
	o.mu.Unlock()
	o.count("distinct_names_observed", names)
	res.Evals = res.Counters["names_looked_up_on_the_running_node"] + res.Counters["names_looked_up_after_reopen"]
	res.Sample = map[string]interface{}{"kind": "fault", "config": res.Config, "names": names, "faults_fired": fired}
}

// relookupLive asks the running node again for every name observed so far through the read-only lookups: on a node
// that keeps running a name that was handed out must still be found, with the same id.
func relookupLive(o *observations, d *dbset, stage string) {
	o.mu.Lock()
	type item struct {
		k obsKey
		v uint32
	}
	var items []item
	for k, v := range o.byName {
		items = append(items, item{k, v.id})
	}
	o.mu.Unlock()
	sort.Slice(items, func(i, j int) bool {
		a, b := items[i].k, items[j].k
		if a.kind != b.kind {
			return a.kind < b.kind
		}
		if a.scope != b.scope {
			return a.scope < b.scope
		}
		return a.name < b.name
	})
	for _, it := range items {
		k := it.k
		if k.kind == "series" {
			continue
		}
		call := o.tick()
		id, ok, err := lookup(d, ledgerName{k: k, id: it.v})
		if err != nil {
			o.fail("C09/lookup-fails-on-running-node/"+stage, "%s %q (scope %s): %v", k.kind, k.name, k.scope, err)
			continue
		}
		if !ok {
			o.fail("C09/"+k.kind+"/name-lost-on-running-node/"+stage, "%s %q (scope %s) had id %d, the running node no longer finds it", k.kind, k.name, k.scope, it.v)
			continue
		}
		o.observe(96, k.kind, k.scope, k.name, id, call, o.tick())
	}
	o.count("names_looked_up_on_the_running_node", len(items))
}

// caseLimits: series ids under a small series limit. A request over the limit is refused (ErrTooManySeries), which is
// not an id; every id that IS returned must still be a stable injective function of the tag set - also for tag sets
// that were refused before, asked again, interleaved with accepted ones, across flush and reopen.
func caseLimits(res *caseResult, idx int, dir string, seed int64, tier string) {
	r := rand.New(rand.NewSource(seed*911 + int64(idx)*37 + 3))
	limit := uint32(2 + r.Intn(4))
	res.Config = fmt.Sprintf("series-limit=%d", limit)
	lim := models.NewDefaultLimits()
	lim.MaxSeriesPerMetric = limit
	models.SetDatabaseLimits("db", lim)
	defer models.SetDatabaseLimits("db", models.NewDefaultLimits())
	root := filepath.Join(dir, "db")
	o := newObs(res)
	d, err := openDBs(root, 1)
	if err != nil {
		o.fail("C09/open-fails", "%v", err)
		return
	}
	mkRow := func(m, i int) rowSpec {
		return rowSpec{NS: "ns", Metric: fmt.Sprintf("lim-m%d", m), Tags: [][2]string{{"host", fmt.Sprintf("h%d", i)}},
			Fields: []fieldSpec{{Name: "f", Type: fieldTypes[0]}}}
	}
	ask := func(db *dbset, row rowSpec) {
		data, err := row.bytes()
		if err != nil {
			return
		}
		sr := &metric.StorageRow{}
		sr.Unmarshal(data)
		mid, err := db.meta.GenMetricID(sr.NameSpace(), sr.Name())
		if err != nil {
			o.fail("C09/gen-fails", "GenMetricID: %v", err)
			return
		}
		call := o.tick()
		sid, err := db.idx[0].GenSeriesID(mid, sr)
		ret := o.tick()
		if errors.Is(err, constants.ErrTooManySeries) {
			o.count("limits.requests_refused", 1)
			return
		}
		if err != nil {
			o.fail("C09/gen-fails", "GenSeriesID: %v", err)
			return
		}
		o.count("limits.ids_returned", 1)
		o.observe(1, "series", fmt.Sprintf("shard=0,metric=%d", mid), row.tagString(), sid, call, ret)
	}
	metrics := 2 + r.Intn(2)
	total := int(limit) + 4
	for step := 0; step < 60; step++ {
		ask(d, mkRow(r.Intn(metrics), r.Intn(total)))
		if step%20 == 19 {
			d.meta.PrepareFlush()
			_ = d.meta.Flush()
			d.idx[0].PrepareFlush()
			_ = d.idx[0].Flush()
		}
	}
	_ = d.close()
	d2, err := openDBs(root, 1)
	if err != nil {
		o.fail("C09/reopen-fails", "%v", err)
		return
	}
	o.phase.Store("reopen")
	for step := 0; step < 40; step++ {
		ask(d2, mkRow(r.Intn(metrics), r.Intn(total)))
	}
	_ = d2.close()
	if res.Counters["limits.requests_refused"] > 0 {
		res.Nontrivial = append(res.Nontrivial, fmt.Sprintf("limits%d", idx))
	}
	res.Evals = res.Counters["limits.ids_returned"] + res.Counters["limits.requests_refused"]
	res.Sample = map[string]interface{}{"kind": "limits", "config": res.Config}
}
