package main

import (
	"fmt"
	"math/rand"
	"path/filepath"
	"runtime"
	"sort"
	"strings"
	"sync"
	"sync/atomic"
	"time"

	"github.com/lindb/lindb/kv"
	"github.com/lindb/lindb/kv/table"
	"github.com/lindb/lindb/series/field"
	"github.com/lindb/lindb/series/metric"
	"github.com/lindb/lindb/series/tag"
	"github.com/lindb/lindb/verif/internal/seam"
)

// caseFlushPark is a directed schedule on the real metric meta database: a running metadata flush is parked at one
// step of the way a dictionary store hands its blocks to the kv flusher - after a block was prepared, after a write
// into it, after the block was committed, before and after the kv commit (table close + manifest) - and while it is
// parked other goroutines (what the metadata worker and the shards' index workers do) create NEW names in the scopes
// that are part of that flush: new fields and tag keys of the metrics whose schema blocks are being written (first of
// all of the metric whose block the flush is parked at), new metrics of the namespaces, new namespaces, new values of
// the tag keys. Then the flush goes on, two more complete flush cycles run (the entries leave the memory stores and
// the caches are purged), and every name handed out so far is looked up, fresh names are created in every scope and
// every old name is requested again through get-or-create - on the running node and after a clean close + reopen.
// Every id goes through the observation map: one name one id, one id one name.
//
// Nothing fails and nothing crashes in these cases; the park only waits. It is done from outside lindb: the
// process-wide kv store manager is wrapped (kv.InitStoreManager is lindb's own injection point) so that the flushers
// of the metadata families report each step to a gate. A creator that has to wait for a lock the parked flush holds
// is seen in the goroutine dump; then the flush is released (lindb's choice of order, counted, never judged).
const (
	stepPrepared     = "block-prepared"
	stepWrite        = "block-write"
	stepCommitted    = "block-committed"
	stepBeforeCommit = "before-kv-commit"
	stepAfterCommit  = "after-kv-commit"
)

var parkSteps = []string{stepPrepared, stepWrite, stepCommitted, stepBeforeCommit, stepAfterCommit}
var parkFamilies = []string{"schema", "ns", "metric", "tv"}

type parkHit struct {
	fam, step string
	key       uint32
}

type flushGate struct {
	mu     sync.Mutex
	armed  bool
	fam    string
	step   string
	n      int
	seen   map[string]int
	parked chan parkHit
	resume chan struct{}
}

func (g *flushGate) arm(fam, step string, n int) chan parkHit {
	g.mu.Lock()
	defer g.mu.Unlock()
	g.armed, g.fam, g.step, g.n = true, fam, step, n
	g.seen = map[string]int{}
	g.parked = make(chan parkHit, 1)
	g.resume = nil
	return g.parked
}

// release lets a parked flush go on and disarms the gate.
func (g *flushGate) release() {
	g.mu.Lock()
	g.armed = false
	if g.resume != nil {
		close(g.resume)
		g.resume = nil
	}
	g.mu.Unlock()
}

func (g *flushGate) stepsSeen() map[string]int {
	g.mu.Lock()
	defer g.mu.Unlock()
	m := map[string]int{}
	for k, v := range g.seen {
		m[k] = v
	}
	return m
}

// at is called by the wrapped flusher after (or, for before-kv-commit, before) the step was done.
func (g *flushGate) at(fam, step string, key uint32) {
	g.mu.Lock()
	if g.seen == nil {
		g.seen = map[string]int{}
	}
	k := fam + "/" + step
	n := g.seen[k]
	g.seen[k]++
	if !g.armed || g.fam != fam || g.step != step || g.n != n {
		g.mu.Unlock()
		return
	}
	g.armed = false
	resume := make(chan struct{})
	g.resume = resume
	parked := g.parked
	g.mu.Unlock()
	parked <- parkHit{fam, step, key}
	<-resume
}

type parkStoreManager struct {
	kv.StoreManager
	gate *flushGate
}

func (m *parkStoreManager) CreateStore(name string, option kv.StoreOption) (kv.Store, error) {
	s, err := m.StoreManager.CreateStore(name, option)
	if err != nil || !strings.HasSuffix(name, "/meta/kv") {
		return s, err
	}
	return &parkStore{Store: s, gate: m.gate}, nil
}

type parkStore struct {
	kv.Store
	gate *flushGate
}

func (s *parkStore) CreateFamily(name string, option kv.FamilyOption) (kv.Family, error) {
	f, err := s.Store.CreateFamily(name, option)
	if err != nil {
		return f, err
	}
	return &parkFamily{Family: f, name: name, gate: s.gate}, nil
}

type parkFamily struct {
	kv.Family
	name string
	gate *flushGate
}

func (f *parkFamily) NewFlusher() kv.Flusher {
	return &parkFlusher{Flusher: f.Family.NewFlusher(), fam: f.name, gate: f.gate}
}

type parkFlusher struct {
	kv.Flusher
	fam  string
	gate *flushGate
}

func (f *parkFlusher) StreamWriter() (table.StreamWriter, error) {
	w, err := f.Flusher.StreamWriter()
	if err != nil {
		return nil, err
	}
	return &parkStream{StreamWriter: w, fam: f.fam, gate: f.gate}, nil
}

func (f *parkFlusher) Commit() error {
	f.gate.at(f.fam, stepBeforeCommit, 0)
	err := f.Flusher.Commit()
	if err == nil {
		f.gate.at(f.fam, stepAfterCommit, 0)
	}
	return err
}

type parkStream struct {
	table.StreamWriter
	fam  string
	gate *flushGate
	key  uint32
}

func (s *parkStream) Prepare(key uint32) {
	s.StreamWriter.Prepare(key)
	s.key = key
	s.gate.at(s.fam, stepPrepared, key)
}

func (s *parkStream) Write(p []byte) (int, error) {
	n, err := s.StreamWriter.Write(p)
	if err == nil {
		s.gate.at(s.fam, stepWrite, s.key)
	}
	return n, err
}

func (s *parkStream) Commit() error {
	err := s.StreamWriter.Commit()
	if err == nil {
		s.gate.at(s.fam, stepCommitted, s.key)
	}
	return err
}

// blockedOnIndexLock reports whether some goroutine waits for a lock inside lindb's index package.
func blockedOnIndexLock() bool {
	buf := make([]byte, 1<<20)
	buf = buf[:runtime.Stack(buf, true)]
	for _, g := range strings.Split(string(buf), "\n\n") {
		if (strings.Contains(g, "sync.(*RWMutex).Lock") || strings.Contains(g, "sync.(*RWMutex).RLock") || strings.Contains(g, "sync.(*Mutex).Lock")) &&
			strings.Contains(g, "lindb/index.(*") && (strings.Contains(g, "[sync.") || strings.Contains(g, "[semacquire")) {
			return true
		}
	}
	return false
}

type parkMetric struct {
	ns, name string
	id       metric.ID
}

type parkTagKey struct {
	mid metric.ID
	key string
	id  tag.KeyID
}

// parkWorld is the names a flushpark case works with and the production calls that create them.
type parkWorld struct {
	o       *observations
	d       *dbset
	mu      sync.Mutex
	nsNames []string     // every namespace used so far
	metrics []parkMetric // every metric created so far; the first caseMetrics of them get new fields / tag keys
	tagKeys []parkTagKey // the tag keys whose values are extended (fixed after setup)
	seq     int64        // name counter
}

const caseMetrics = 4

func (w *parkWorld) next() int64 { return atomic.AddInt64(&w.seq, 1) }

func (w *parkWorld) genMetric(g int, ns, name string) (metric.ID, bool) {
	call := w.o.tick()
	nsBuf, reuseNS := lend(ns)
	nameBuf, reuseName := lend(name)
	mid, err := w.d.meta.GenMetricID(nsBuf, nameBuf)
	reuseNS()
	reuseName()
	ret := w.o.tick()
	if err != nil {
		w.o.fail("C09/gen-fails", "GenMetricID(%s,%s): %v", ns, name, err)
		return 0, false
	}
	w.o.observe(g, "metric", ns, name, uint32(mid), call, ret)
	return mid, true
}

func (w *parkWorld) genField(g int, mid metric.ID, name string) bool {
	call := w.o.tick()
	fid, err := w.d.meta.GenFieldID(mid, field.Meta{Name: field.Name(name), Type: field.SumField})
	ret := w.o.tick()
	if err != nil {
		w.o.fail("C09/gen-fails", "GenFieldID(%d,%s): %v", mid, name, err)
		return false
	}
	w.o.observe(g, "field", fmt.Sprintf("metric=%d", mid), name, uint32(fid), call, ret)
	return true
}

func (w *parkWorld) genTagKey(g int, mid metric.ID, key string) (tag.KeyID, bool) {
	call := w.o.tick()
	buf, reuse := lend(key)
	kid, err := w.d.meta.GenTagKeyID(mid, buf)
	reuse()
	ret := w.o.tick()
	if err != nil {
		w.o.fail("C09/gen-fails", "GenTagKeyID(%d,%s): %v", mid, key, err)
		return 0, false
	}
	w.o.observe(g, "tagkey", fmt.Sprintf("metric=%d", mid), key, uint32(kid), call, ret)
	return kid, true
}

func (w *parkWorld) genTagValue(g int, kid tag.KeyID, value string) bool {
	call := w.o.tick()
	buf, reuse := lend(value)
	vid, err := w.d.meta.GenTagValueID(kid, buf)
	reuse()
	ret := w.o.tick()
	if err != nil {
		w.o.fail("C09/gen-fails", "GenTagValueID(%d,%s): %v", kid, value, err)
		return false
	}
	w.o.observe(g, "tagvalue", fmt.Sprintf("tagkey=%d", kid), value, vid, call, ret)
	return true
}

func (w *parkWorld) addMetric(g int, ns, name string) {
	if mid, ok := w.genMetric(g, ns, name); ok {
		w.mu.Lock()
		w.metrics = append(w.metrics, parkMetric{ns, name, mid})
		w.mu.Unlock()
	}
}

func (w *parkWorld) addNamespace(g int, ns string) {
	w.mu.Lock()
	w.nsNames = append(w.nsNames, ns)
	w.mu.Unlock()
	w.addMetric(g, ns, "m0")
}

// work lists: new names in every scope that a metadata flush writes a block for. tag says what the names are for.
// first, if it is a case metric's id (schema family) or a tag key id (tv family), moves that scope to the front.
type parkOp struct {
	kind string
	run  func(g int)
}

func (w *parkWorld) schemaOps(tagc string, first uint32, tagKeysToo bool) []parkOp {
	w.mu.Lock()
	ms := append([]parkMetric(nil), w.metrics[:caseMetrics]...)
	w.mu.Unlock()
	sort.SliceStable(ms, func(i, j int) bool { return uint32(ms[i].id) == first && uint32(ms[j].id) != first })
	var ops []parkOp
	for _, m := range ms {
		m := m
		fname := fmt.Sprintf("f-%s-%d", tagc, w.next())
		ops = append(ops, parkOp{"field", func(g int) { w.genField(g, m.id, fname) }})
		if tagKeysToo {
			kname := fmt.Sprintf("k-%s-%d", tagc, w.next())
			ops = append(ops, parkOp{"tagkey", func(g int) { w.genTagKey(g, m.id, kname) }})
		}
	}
	return ops
}

func (w *parkWorld) metricOps(tagc string) []parkOp {
	w.mu.Lock()
	nss := append([]string(nil), w.nsNames...)
	w.mu.Unlock()
	if len(nss) > 5 {
		nss = append(nss[:3:3], nss[len(nss)-2:]...)
	}
	var ops []parkOp
	for _, ns := range nss {
		ns := ns
		mname := fmt.Sprintf("m-%s-%d", tagc, w.next())
		ops = append(ops, parkOp{"metric", func(g int) { w.addMetric(g, ns, mname) }})
	}
	return ops
}

func (w *parkWorld) nsOps(first uint32) []parkOp {
	letters := []byte{'a', 'b', 'c'}
	sort.SliceStable(letters, func(i, j int) bool { return uint32(letters[i]) == first && uint32(letters[j]) != first })
	var ops []parkOp
	for _, l := range letters {
		ns := fmt.Sprintf("%c-ns%d", l, w.next())
		ops = append(ops, parkOp{"namespace", func(g int) { w.addNamespace(g, ns) }})
	}
	return ops
}

func (w *parkWorld) tagValueOps(tagc string, first uint32) []parkOp {
	ks := append([]parkTagKey(nil), w.tagKeys...)
	sort.SliceStable(ks, func(i, j int) bool { return uint32(ks[i].id) == first && uint32(ks[j].id) != first })
	var ops []parkOp
	for _, k := range ks {
		k := k
		vname := fmt.Sprintf("v-%s-%d", tagc, w.next())
		ops = append(ops, parkOp{"tagvalue", func(g int) { w.genTagValue(g, k.id, vname) }})
	}
	return ops
}

func caseFlushPark(res *caseResult, idx int, dir string, seed int64, tier string) {
	r := rand.New(rand.NewSource(seed*6151 + int64(idx)*71 + 9))
	// every second case parks the schema family (its blocks are written from objects the creators extend in place),
	// the others rotate over the dictionary families
	fam := "schema"
	if idx%2 == 1 {
		fam = parkFamilies[1+(idx/2)%3]
	}
	steps := append([]string(nil), parkSteps...)
	r.Shuffle(len(steps), func(a, b int) { steps[a], steps[b] = steps[b], steps[a] })
	for extra := r.Intn(3); extra > 0; extra-- {
		steps = append(steps, parkSteps[r.Intn(len(parkSteps))])
	}
	res.Config = fmt.Sprintf("family=%s steps=%s", fam, strings.Join(steps, ","))

	gate := &flushGate{}
	orig := kv.GetStoreManager()
	kv.InitStoreManager(&parkStoreManager{StoreManager: orig, gate: gate})
	defer kv.InitStoreManager(orig)
	seam.NoFsync = true
	seam.InstallKV(seam.Direct{}, nil)

	o := newObs(res)
	root := filepath.Join(dir, "db")
	d, err := openDBs(root, 0)
	if err != nil {
		o.fail("C09/open-fails", "%v", err)
		return
	}
	w := &parkWorld{o: o, d: d}
	// setup: three namespaces in three buckets of the namespace dictionary, the case metrics, their first names
	for _, l := range []byte{'a', 'b', 'c'} {
		ns := fmt.Sprintf("%c-ns", l)
		w.nsNames = append(w.nsNames, ns)
		w.addMetric(0, ns, "cpu")
	}
	w.addMetric(0, w.nsNames[0], "mem")
	if len(w.metrics) < caseMetrics {
		return
	}
	for i := 0; i < caseMetrics; i++ {
		m := w.metrics[i]
		w.genField(0, m.id, "f-setup")
		if kid, ok := w.genTagKey(0, m.id, "host"); ok {
			w.tagKeys = append(w.tagKeys, parkTagKey{m.id, "host", kid})
			w.genTagValue(0, kid, "v-setup")
		}
	}
	if len(w.tagKeys) < caseMetrics {
		return
	}
	cycle := func(what string) bool {
		d.meta.PrepareFlush()
		if err := d.meta.Flush(); err != nil {
			o.fail("C09/flush-fails", "%s: %v", what, err)
			return false
		}
		o.count("flushpark.complete_flush_cycles", 1)
		return true
	}
	if !cycle("first flush") {
		return
	}
	// verify asks the running (or reopened) node for everything: read-only lookups, then fresh names in every scope
	// (a fresh name gets the id the node considers unused), then every old name again through get-or-create in a
	// shuffled order (a name the node lost is created again; the order decides which id it gets).
	verify := func(stage string, g int) {
		if stage != "reopen" {
			relookupLive(o, d, stage)
		}
		tagc := fmt.Sprintf("fresh%d", w.next())
		for _, ops := range [][]parkOp{w.schemaOps(tagc, 0, true), w.metricOps(tagc), w.tagValueOps(tagc, 0)} {
			for _, op := range ops {
				op.run(g)
				o.count("flushpark.fresh_names_after_the_flush_cycles."+op.kind, 1)
			}
		}
		o.mu.Lock()
		var keys []obsKey
		for k := range o.byName {
			keys = append(keys, k)
		}
		o.mu.Unlock()
		sort.Slice(keys, func(i, j int) bool {
			a, b := keys[i], keys[j]
			if a.kind != b.kind {
				return a.kind < b.kind
			}
			if a.scope != b.scope {
				return a.scope < b.scope
			}
			return a.name < b.name
		})
		r.Shuffle(len(keys), func(a, b int) { keys[a], keys[b] = keys[b], keys[a] })
		for _, k := range keys {
			var id uint32
			switch k.kind {
			case "metric":
				w.genMetric(g, k.scope, k.name)
			case "field":
				fmt.Sscanf(k.scope, "metric=%d", &id)
				w.genField(g, metric.ID(id), k.name)
			case "tagkey":
				fmt.Sscanf(k.scope, "metric=%d", &id)
				w.genTagKey(g, metric.ID(id), k.name)
			case "tagvalue":
				fmt.Sscanf(k.scope, "tagkey=%d", &id)
				w.genTagValue(g, tag.KeyID(id), k.name)
			}
		}
		o.count("flushpark.names_requested_again_after_the_flush_cycles", len(keys))
		res.Evals += len(keys)
	}

	for round, step := range steps {
		tagc := fmt.Sprintf("r%d", round)
		// every scope gets something new, so that the coming flush writes >= 3 blocks in every family
		for _, ops := range [][]parkOp{w.schemaOps(tagc+"pre", 0, round%2 == 0), w.metricOps(tagc + "pre"), w.nsOps(0), w.tagValueOps(tagc+"pre", 0)} {
			for _, op := range ops {
				op.run(0)
			}
		}
		o.phase.Store("live")
		d.meta.PrepareFlush()
		n := r.Intn(3)
		if step == stepBeforeCommit || step == stepAfterCommit {
			n = 0
		}
		parkedC := gate.arm(fam, step, n)
		flushDone := make(chan error, 1)
		go func() { flushDone <- d.meta.Flush() }()
		var hit *parkHit
		var flushErr error
		flushed := false
		select {
		case h := <-parkedC:
			hit = &h
		case flushErr = <-flushDone:
			flushed = true
		case <-time.After(60 * time.Second):
			o.count("flushpark.watchdog_flush_neither_parked_nor_finished", 1)
			gate.release()
			return
		}
		where := fam + "/" + step
		if hit == nil {
			gate.release()
			o.count("flushpark.parks_not_reached."+where, 1)
		} else {
			o.count("flushpark.parks_reached."+where, 1)
			// the creators: one goroutine per kind of name, the parked block's scope first
			listFams := []string{"schema", "metric", "ns", "tv"}
			lists := [][]parkOp{w.schemaOps(tagc+"park", hit.key, true), w.metricOps(tagc + "park"), w.nsOps(hit.key), w.tagValueOps(tagc+"park", hit.key)}
			var released atomic.Bool
			var progress atomic.Int64
			var cwg sync.WaitGroup
			allDone := make(chan struct{})
			for li, ops := range lists {
				cwg.Add(1)
				go func(li int, ops []parkOp) {
					defer cwg.Done()
					for i, op := range ops {
						op.run(40 + li)
						progress.Add(1)
						if !released.Load() {
							o.count("flushpark.names_created_while_the_flush_is_parked."+op.kind, 1)
							if i == 0 && listFams[li] == fam && fam != "metric" {
								o.count("flushpark.names_created_in_the_scope_of_the_parked_block_while_parked."+where, 1)
							}
						} else {
							o.count("flushpark.names_created_after_the_park."+op.kind, 1)
						}
					}
				}(li, ops)
			}
			go func() { cwg.Wait(); close(allDone) }()
			last, still := int64(-1), 0
			start := time.Now()
			for waiting := true; waiting; {
				select {
				case <-allDone:
					waiting = false
				case <-time.After(time.Millisecond):
					if p := progress.Load(); p != last {
						last, still = p, 0
					} else if still++; still >= 5 && blockedOnIndexLock() {
						// a creator waits for a lock the parked flush holds: lindb serialises them
						o.count("flushpark.creators_waited_for_the_parked_flush."+where, 1)
						waiting = false
					} else if time.Since(start) > 60*time.Second {
						o.count("flushpark.watchdog_creators_neither_finished_nor_blocked", 1)
						waiting = false
					}
				}
			}
			released.Store(true)
			gate.release()
			<-allDone
			res.Nontrivial = append(res.Nontrivial, fmt.Sprintf("flushpark%d/round%d/%s#%d", idx, round, where, n))
		}
		if !flushed {
			select {
			case flushErr = <-flushDone:
			case <-time.After(60 * time.Second):
				o.count("flushpark.watchdog_flush_did_not_finish", 1)
				return
			}
		}
		if flushErr != nil {
			o.fail("C09/flush-fails", "flush parked at %s: %v", where, flushErr)
			return
		}
		for k, v := range gate.stepsSeen() {
			if strings.HasSuffix(k, "/"+stepCommitted) {
				o.count("flushpark.blocks_written_by_parked_flushes."+strings.TrimSuffix(k, "/"+stepCommitted), v)
			}
		}
		// two complete cycles: what the parked flush and the creators left in the memory stores is written and
		// dropped, the caches are purged - from here on the node answers from what it wrote
		if !cycle("first cycle after the park") || !cycle("second cycle after the park") {
			return
		}
		stage := fmt.Sprintf("after-names-created-while-%s-flush-parked-at-%s", fam, step)
		o.phase.Store(stage[len("after-"):])
		verify(stage, 50)
		o.phase.Store("live")
		o.mu.Lock()
		broken := len(res.Violations) > 0
		o.mu.Unlock()
		if broken {
			// the node's dictionaries are damaged from here on: later rounds (and the reopen) would report the same
			// damage again under the label of their own park step
			o.count("flushpark.cases_stopped_at_the_first_violating_round", 1)
			_ = d.close()
			return
		}
	}
	if !cycle("final flush") {
		return
	}
	if err := d.close(); err != nil {
		o.fail("C09/close-fails", "%v", err)
		return
	}
	d2, err := openDBs(root, 0)
	if err != nil {
		o.fail("C09/reopen-fails", "%v", err)
		return
	}
	d, w.d = d2, d2
	o.phase.Store("reopen")
	relookup(o, d2)
	verify("reopen", 60)
	_ = d2.close()
	o.mu.Lock()
	names := len(o.byName)
	o.mu.Unlock()
	o.count("distinct_names_observed", names)
	res.Sample = map[string]interface{}{"kind": "flushpark", "config": res.Config, "names": names}
}
