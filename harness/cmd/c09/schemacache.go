package main

import (
	"fmt"
	"math/rand"
	"path/filepath"
	"runtime"
	"strings"
	"sync"
	"sync/atomic"
	"time"

	"github.com/lindb/lindb/kv"
	"github.com/lindb/lindb/kv/version"
	"github.com/lindb/lindb/series/field"
	"github.com/lindb/lindb/series/metric"
)

// caseSchemaCache is a directed schedule on the real metric meta database: a reader's GetSchema (what a query's
// metadata lookup calls) is parked after it has loaded the metric's schema from the kv snapshot and before it goes
// on (the point where the snapshot is closed), while the write path creates new fields / tag keys of that metric
// and complete flushes run. Then the reader resumes and further fields / tag keys are requested. Every id handed
// out goes through the same observation map as in the other cases: one name one id, one id one name, for as long
// as the node runs and after a reopen.
//
// The park is done from outside lindb: the process-wide kv store manager is wrapped (kv.InitStoreManager is
// lindb's own injection point) so that the snapshots of the "schema" family call a gate when they are closed. The
// gate only waits; no behaviour is changed.
func caseSchemaCache(res *caseResult, idx int, dir string, seed int64, tier string) {
	r := rand.New(rand.NewSource(seed*9151 + int64(idx)*53 + 3))
	flushesWhileParked := 1 + r.Intn(2)
	newWhileParked := 1 + r.Intn(3)
	newAfter := 1 + r.Intn(3)
	tagKeysToo := idx%2 == 0
	readersParked := 1 + r.Intn(2)
	res.Config = fmt.Sprintf("flushesWhileParked=%d newWhileParked=%d newAfter=%d tagKeys=%v readers=%d",
		flushesWhileParked, newWhileParked, newAfter, tagKeysToo, readersParked)
	gate := &snapshotGate{}
	orig := kv.GetStoreManager()
	kv.InitStoreManager(&gatedStoreManager{StoreManager: orig, gate: gate})
	defer kv.InitStoreManager(orig)

	o := newObs(res)
	root := filepath.Join(dir, "db")
	d, err := openDBs(root, 1)
	if err != nil {
		o.fail("C09/open-fails", "%v", err)
		return
	}
	fieldNo, keyNo := 0, 0
	var mid metric.ID
	create := func(n int) {
		for i := 0; i < n; i++ {
			name := fmt.Sprintf("f%d", fieldNo)
			fieldNo++
			call := o.tick()
			fid, err := d.meta.GenFieldID(mid, field.Meta{Name: field.Name(name), Type: fieldTypes[fieldNo%len(fieldTypes)]})
			ret := o.tick()
			if err != nil {
				o.fail("C09/gen-fails", "GenFieldID(%d,%s): %v", mid, name, err)
				continue
			}
			o.observe(0, "field", fmt.Sprintf("metric=%d", mid), name, uint32(fid), call, ret)
			if tagKeysToo {
				key := fmt.Sprintf("k%d", keyNo)
				keyNo++
				call = o.tick()
				keyBuf, reuse := lend(key)
				kid, err := d.meta.GenTagKeyID(mid, keyBuf)
				reuse()
				ret = o.tick()
				if err != nil {
					o.fail("C09/gen-fails", "GenTagKeyID(%d,%s): %v", mid, key, err)
					continue
				}
				o.observe(0, "tagkey", fmt.Sprintf("metric=%d", mid), key, uint32(kid), call, ret)
			}
		}
	}
	flush := func(what string) bool {
		d.meta.PrepareFlush()
		if err := d.meta.Flush(); err != nil {
			o.fail("C09/flush-fails", "%s: %v", what, err)
			return false
		}
		return true
	}
	call := o.tick()
	mid, err = d.meta.GenMetricID([]byte("ns"), []byte("cpu"))
	ret := o.tick()
	if err != nil {
		o.fail("C09/gen-fails", "GenMetricID: %v", err)
		return
	}
	o.observe(0, "metric", "ns", "cpu", uint32(mid), call, ret)
	create(1 + r.Intn(3))
	// after a complete flush the schema of the metric lives in the kv family only
	if !flush("first flush") {
		return
	}
	// readers: load the schema from the kv snapshot, parked where the snapshot is closed
	var readers sync.WaitGroup
	parked := 0
	for i := 0; i < readersParked; i++ {
		gate.arm()
		readers.Add(1)
		done := make(chan struct{})
		go func() {
			defer readers.Done()
			defer close(done)
			if _, err := d.meta.GetSchema(mid); err != nil {
				o.fail("C09/get-schema-fails", "%v", err)
			}
		}()
		if gate.parkedOr(done) {
			parked++
		} else {
			// the reader was served from memory or from the cache: nothing was loaded from the kv family
			gate.disarm()
			o.count("schemacache.reader_not_parked", 1)
		}
	}
	o.count("schemacache.readers_parked_between_kv_load_and_return", parked)
	// the write path goes on: new names of the metric, complete flushes. If lindb makes the write path wait for
	// the reader (the writer is parked on the schema store's lock, seen in the goroutine dump) the readers are
	// released: that order is lindb's choice and is counted, not judged.
	writerDone := make(chan struct{})
	writerOK := true
	go func() {
		defer close(writerDone)
		for i := 0; i < flushesWhileParked; i++ {
			create(newWhileParked)
			if !flush("flush while a reader is parked") {
				writerOK = false
				return
			}
			if !gate.released() {
				o.count("schemacache.complete_flushes_while_a_reader_is_parked", 1)
			}
		}
	}()
	for waiting := true; waiting; {
		select {
		case <-writerDone:
			waiting = false
		case <-time.After(3 * time.Millisecond):
			if parked > 0 && !gate.released() && blockedOnSchemaStoreLock() {
				o.count("schemacache.write_path_waited_for_the_parked_reader", 1)
				gate.releaseAll()
			}
		}
	}
	gate.releaseAll()
	readers.Wait()
	if !writerOK {
		return
	}
	// new names after the parked readers went on; the earlier names are requested again
	create(newAfter)
	for i := 0; i < fieldNo; i++ {
		name := fmt.Sprintf("f%d", i)
		call := o.tick()
		fid, err := d.meta.GenFieldID(mid, field.Meta{Name: field.Name(name), Type: fieldTypes[(i+1)%len(fieldTypes)]})
		ret := o.tick()
		if err != nil {
			// asking with another field type may be refused; the id of the name is what matters here
			o.count("schemacache.re-request_refused", 1)
			continue
		}
		o.observe(0, "field", fmt.Sprintf("metric=%d", mid), name, uint32(fid), call, ret)
	}
	res.Evals += fieldNo + keyNo
	res.Nontrivial = append(res.Nontrivial, fmt.Sprintf("schemacache%d/parked=%d", idx, parked))
	if !flush("final flush") {
		return
	}
	_ = d.close()
	d2, err := openDBs(root, 1)
	if err != nil {
		o.fail("C09/reopen-fails", "%v", err)
		return
	}
	o.phase.Store("reopen")
	relookup(o, d2)
	_ = d2.close()
	res.Sample = map[string]interface{}{"kind": "schemacache", "config": res.Config, "fields": fieldNo, "tag_keys": keyNo, "readers_parked": parked}
}

// ---- the gate ----

type snapshotGate struct {
	mu      sync.Mutex
	armed   bool
	parkedC chan struct{}
	waiting []chan struct{}
	hits    atomic.Int64

	wasReleased bool
}

// arm makes the next Close of a schema-family snapshot park.
func (g *snapshotGate) arm() {
	g.mu.Lock()
	g.armed = true
	g.parkedC = make(chan struct{})
	g.mu.Unlock()
}

func (g *snapshotGate) disarm() {
	g.mu.Lock()
	g.armed = false
	g.mu.Unlock()
}

// parkedOr waits until the armed gate has parked a goroutine (true) or done is closed (false).
func (g *snapshotGate) parkedOr(done chan struct{}) bool {
	g.mu.Lock()
	c := g.parkedC
	g.mu.Unlock()
	select {
	case <-c:
		return true
	case <-done:
		select {
		case <-c:
			return true
		default:
			return false
		}
	}
}

func (g *snapshotGate) released() bool {
	g.mu.Lock()
	defer g.mu.Unlock()
	return g.wasReleased
}

// blockedOnSchemaStoreLock reports whether some goroutine waits for the write lock inside lindb's schema store.
func blockedOnSchemaStoreLock() bool {
	buf := make([]byte, 1<<20)
	buf = buf[:runtime.Stack(buf, true)]
	for _, g := range strings.Split(string(buf), "\n\n") {
		if strings.Contains(g, "sync.(*RWMutex).Lock") && strings.Contains(g, "index.(*metricSchemaStore)") {
			return true
		}
	}
	return false
}

func (g *snapshotGate) releaseAll() {
	g.mu.Lock()
	g.armed = false
	g.wasReleased = true
	for _, c := range g.waiting {
		close(c)
	}
	g.waiting = nil
	g.mu.Unlock()
}

// closed is called after a snapshot of the schema family was closed.
func (g *snapshotGate) closed() {
	g.mu.Lock()
	if !g.armed {
		g.mu.Unlock()
		return
	}
	g.armed = false
	resume := make(chan struct{})
	g.waiting = append(g.waiting, resume)
	close(g.parkedC)
	g.mu.Unlock()
	g.hits.Add(1)
	<-resume
}

type gatedStoreManager struct {
	kv.StoreManager
	gate *snapshotGate
}

func (m *gatedStoreManager) CreateStore(name string, option kv.StoreOption) (kv.Store, error) {
	s, err := m.StoreManager.CreateStore(name, option)
	if err != nil {
		return nil, err
	}
	return &gatedStore{Store: s, gate: m.gate}, nil
}

type gatedStore struct {
	kv.Store
	gate *snapshotGate
}

func (s *gatedStore) CreateFamily(name string, option kv.FamilyOption) (kv.Family, error) {
	f, err := s.Store.CreateFamily(name, option)
	if err != nil || name != "schema" {
		return f, err
	}
	return &gatedFamily{Family: f, gate: s.gate}, nil
}

type gatedFamily struct {
	kv.Family
	gate *snapshotGate
}

func (f *gatedFamily) GetSnapshot() version.Snapshot {
	return &gatedSnapshot{Snapshot: f.Family.GetSnapshot(), gate: f.gate}
}

type gatedSnapshot struct {
	version.Snapshot
	gate *snapshotGate
}

func (s *gatedSnapshot) Close() {
	s.Snapshot.Close()
	s.gate.closed()
}
