// C09 — Name-to-ID assignment is a stable injective function.
//
// (a) concurrency cases: one real metric meta database shared by 2-3 real index databases; 2-16 goroutines
//
//	(what the metadata worker and the shards' index workers do) get-or-create IDs for heavily overlapping
//	fresh names while PrepareFlush/Flush run; every returned ID is recorded in a thread-safe observation map
//	(name -> id and id -> name per kind and scope); then flush, close, reopen, look everything up again and
//	create fresh names. Half of the cases run under the race detector.
//
// (b) crash cases: the same databases with every file-system operation of the meta/index stores and the
//
//	sequence file imaged; every image is recovered and compared with the ledger.
package main

import (
	"encoding/json"
	"fmt"
	"os"
	"path/filepath"
	"strconv"
	"strings"
	"time"

	"github.com/lindb/lindb/verif/internal/core"
	"github.com/lindb/lindb/verif/internal/racefilter"
)

type caseResult struct {
	Kind       string           `json:"kind"`
	Index      int              `json:"index"`
	Config     string           `json:"config"`
	Counters   map[string]int   `json:"counters"`
	Violations []core.Violation `json:"violations"`
	Nontrivial []string         `json:"nontrivial"`
	Sample     interface{}      `json:"sample"`
	Evals      int              `json:"evals"`
}

type job struct {
	kind string
	idx  int
	race bool
}

func main() {
	if len(os.Args) > 1 && os.Args[1] == "case" {
		runCase()
		return
	}
	c := core.New("C09", "exploration")
	c.SetRule("cases: (conc) one round = a batch of fresh namespaces/metrics/tag keys/tag values/fields/series requested concurrently by 2-16 goroutines " +
		"from one shared meta database and 2-3 index databases while PrepareFlush/Flush run, followed by flush+close+reopen+lookup+fresh names; " +
		"(crash) one image of the meta+index directories after a file-system operation of a flush. " +
		"Non-trivial = round in which at least two goroutines had overlapping get-or-create calls for the same fresh name (detected from call/return stamps), " +
		"or an image strictly inside a flush; distinct by (case, round) / (case, image hash).")
	c.Assume("series identity is the 64-bit hash of the sorted tag set, as in lindb; hash collisions are not generated")
	c.Assume("process-kill fault model for the crash part; the sequence file is a MAP_SHARED mapping and survives")
	raceBin := os.Getenv("VERIF_RACE_BIN")
	var jobs []job
	nConc := c.Pick(24, 480)
	for i := 0; i < nConc; i++ {
		jobs = append(jobs, job{"conc", i, raceBin != "" && i%2 == 1})
	}
	nCrash := c.Pick(2, 40)
	for i := 0; i < nCrash; i++ {
		jobs = append(jobs, job{"crash", i, false})
	}
	nFault := c.Pick(12, 240) // a file-system operation of a flush fails, the node keeps running
	for i := 0; i < nFault; i++ {
		jobs = append(jobs, job{"fault", i, false})
	}
	for i := 0; i < c.Pick(4, 40); i++ { // series ids under a small series limit
		jobs = append(jobs, job{"limits", i, false})
	}
	for i := 0; i < c.Pick(10, 200); i++ { // the real memdb metadata/index workers with flush events between the rows
		jobs = append(jobs, job{"memdb", i, false})
	}
	for i := 0; i < c.Pick(8, 80); i++ { // a reader parked between its kv load of a schema and its return, flushes in between
		jobs = append(jobs, job{"schemacache", i, false})
	}
	nPark := c.Pick(16, 160) // a metadata flush parked at a step of handing its blocks to the kv flusher, new names meanwhile
	for i := 0; i < nPark; i++ {
		jobs = append(jobs, job{"flushpark", i, false})
	}
	scratch := c.Scratch()
	results := make([]*caseResult, len(jobs))
	raceOut := make([]string, len(jobs))
	died := make([]string, len(jobs))
	core.Parallel(len(jobs), 8, func(i int) {
		j := jobs[i]
		dir := filepath.Join(scratch, fmt.Sprintf("%s%04d", j.kind, j.idx))
		_ = os.MkdirAll(dir, 0o755)
		bin := ""
		env := []string{"VERIF_SEED=" + strconv.FormatInt(c.Seed, 10)}
		if j.race {
			bin = raceBin
			env = append(env, "GORACE=halt_on_error=0 exitcode=0 log_path="+filepath.Join(dir, "race"))
		}
		res := core.RunChild(bin, []string{"case", j.kind, strconv.Itoa(j.idx), dir, c.Tier}, env, 20*time.Minute, filepath.Join(dir, "child.log"))
		r := &caseResult{Kind: j.kind, Index: j.idx}
		data, err := os.ReadFile(filepath.Join(dir, "result.json"))
		if err == nil {
			err = json.Unmarshal(data, r)
		}
		if j.race {
			raceOut[i] = racefilter.ReadLogs(filepath.Join(dir, "race"), filepath.Join(dir, "child.log"))
		}
		if res.TimedOut {
			died[i] = "watchdog"
		} else if err != nil || res.ExitCode != 0 {
			died[i] = fmt.Sprintf("exit=%d err=%v tail: %s", res.ExitCode, err, tailStr(res.Output, 4000))
		}
		results[i] = r
		_ = os.RemoveAll(dir)
	})
	total := map[string]int{}
	for i, r := range results {
		j := jobs[i]
		if died[i] == "watchdog" {
			c.Inconclusive("%s %d: watchdog fired", j.kind, j.idx)
			continue
		}
		if died[i] != "" {
			if strings.Contains(died[i], "lindb/index") || strings.Contains(died[i], "/index/") {
				c.Violation("C09/process-died-in-index", fmt.Sprintf("%s %d: %s", j.kind, j.idx, died[i]), nil)
			} else {
				c.Inconclusive("%s %d: child failed: %s", j.kind, j.idx, tailStr(died[i], 800))
			}
			continue
		}
		c.Eval(r.Evals)
		c.Count("cases."+j.kind, 1)
		for k, v := range r.Counters {
			c.Count(k, v)
			total[k] += v
		}
		for _, k := range r.Nontrivial {
			c.Nontrivial(k)
		}
		if r.Sample != nil && j.idx == 0 {
			c.Sample(r.Sample)
		}
		for _, v := range r.Violations {
			c.Violation(v.Class, fmt.Sprintf("%s %d (%s): %s", j.kind, j.idx, r.Config, v.Message), v.Witness)
		}
		if j.race {
			reports := racefilter.Parse(raceOut[i])
			c.Count("race_reports_total", len(reports))
			c.Count("runs_under_race_detector", 1)
			for _, rep := range racefilter.Attributed(reports, []string{"index/kv_store.go", "index/metric_meta_database.go",
				"index/metric_index_database.go", "index/metric_schema_store.go", "index/sequence.go"}) {
				c.Violation("C09/data-race/"+strings.Join(rep.TopFrames, "+"), fmt.Sprintf("conc %d: data race with top frames %v", j.idx, rep.TopFrames), rep.Text)
			}
		}
	}
	// the flushpark cases only speak if the schedule they are about was reached
	if nPark > 0 {
		for _, fam := range parkFamilies {
			for _, step := range parkSteps {
				if total["flushpark.parks_reached."+fam+"/"+step] == 0 {
					c.Inconclusive("flushpark: no metadata flush was parked at %s/%s", fam, step)
				}
			}
		}
		for _, kind := range []string{"field", "tagkey", "metric", "namespace", "tagvalue"} {
			if total["flushpark.names_created_while_the_flush_is_parked."+kind] == 0 {
				c.Inconclusive("flushpark: no new %s was created while a metadata flush was parked", kind)
			}
		}
		if total["flushpark.names_created_in_the_scope_of_the_parked_block_while_parked.schema/"+stepCommitted]+
			total["flushpark.creators_waited_for_the_parked_flush.schema/"+stepCommitted] == 0 {
			c.Inconclusive("flushpark: no creator of a new field / tag key ran against a schema flush parked right after a block was committed")
		}
	}
	c.Finish()
}

func tailStr(s string, n int) string {
	if len(s) > n {
		return s[len(s)-n:]
	}
	return s
}
