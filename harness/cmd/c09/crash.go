package main

import (
	"fmt"
	"math/rand"
	"os"
	"path/filepath"
	"strings"

	"github.com/lindb/roaring"

	"github.com/lindb/lindb/series/field"
	"github.com/lindb/lindb/series/metric"
	"github.com/lindb/lindb/series/tag"
	"github.com/lindb/lindb/sql/stmt"
	"github.com/lindb/lindb/verif/internal/core"
	"github.com/lindb/lindb/verif/internal/imgfs"
	"github.com/lindb/lindb/verif/internal/seam"
)

// ledger entry of one name created during the history
type ledgerName struct {
	k         obsKey
	id        uint32
	createdOp int
	row       rowSpec
	shard     int
}

type flushRec struct {
	target    string // "meta" or "shard<i>"
	prepareOp int
	doneImage int // number of images when Flush had returned
}

func caseCrash(res *caseResult, idx int, dir string, seed int64, tier string) {
	r := rand.New(rand.NewSource(seed*4099 + int64(idx)*53 + 9))
	shards := 1 + r.Intn(2)
	if tier != "thorough" {
		shards = 1
	}
	steps := 10 + r.Intn(6)
	res.Config = fmt.Sprintf("shards=%d steps=%d", shards, steps)
	root := filepath.Join(dir, "db")
	world := imgfs.NewWorld(root, filepath.Join(dir, "img"))
	seam.NoFsync = true
	seam.InstallKV(world, nil)
	seam.InstallIndexSequence(world)
	world.Enable(true)
	o := newObs(res)
	d, err := openDBs(root, shards)
	if err != nil {
		o.fail("C09/open-fails", "%v", err)
		return
	}
	world.Snapshot("opened")
	var names []ledgerName
	var flushes []flushRec
	opIdx := 0
	record := func(row rowSpec, shard int) {
		// harvest what the observation map learnt for this row
		o.mu.Lock()
		defer o.mu.Unlock()
		for k, v := range o.byName {
			found := false
			for _, n := range names {
				if n.k == k {
					found = true
					break
				}
			}
			if !found {
				names = append(names, ledgerName{k: k, id: v.id, createdOp: opIdx, row: row, shard: shard})
			}
		}
	}
	var allRows []rowSpec
	metaPrepared, idxPrepared := -1, make([]int, shards)
	for i := range idxPrepared {
		idxPrepared[i] = -1
	}
	// The flush protocol of a node (tsdb data flush checker): metadata PrepareFlush (metadata worker) -> metadata Flush
	// (background) -> per shard: index PrepareFlush (index worker) -> index Flush (background). Rows keep arriving
	// between any two of these steps, which is what the generator does.
	arrive := func(step int) {
		rows := genRows(r, step, 1+r.Intn(3))
		for _, row := range rows {
			allRows = append(allRows, row)
			metaWorkerRow(o, 0, d, row)
			s := r.Intn(shards)
			indexWorkerRow(o, 1+s, d, s, row)
			record(row, s)
		}
		res.Counters["op.rows"]++
	}
	maybeArrive := func(step int) {
		opIdx++
		if r.Intn(3) > 0 {
			arrive(step)
		}
	}
	cycles := 2 + r.Intn(2)
	if tier != "thorough" {
		cycles = 2
	}
	for cyc := 0; cyc < cycles; cyc++ {
		opIdx++
		arrive(cyc * 10)
		maybeArrive(cyc*10 + 1)
		opIdx++
		d.meta.PrepareFlush()
		metaPrepared = opIdx
		res.Counters["op.meta-prepare"]++
		maybeArrive(cyc*10 + 2)
		opIdx++
		if err := d.meta.Flush(); err != nil {
			o.fail("C09/flush-fails", "meta flush: %v", err)
		}
		flushes = append(flushes, flushRec{"meta", metaPrepared, world.Count()})
		metaPrepared = -1
		res.Counters["op.meta-flush"]++
		for s := 0; s < shards; s++ {
			maybeArrive(cyc*10 + 3 + s)
			opIdx++
			d.idx[s].PrepareFlush()
			idxPrepared[s] = opIdx
			res.Counters["op.index-prepare"]++
			maybeArrive(cyc*10 + 6 + s)
			opIdx++
			if err := d.idx[s].Flush(); err != nil {
				o.fail("C09/flush-fails", "index flush: %v", err)
			}
			flushes = append(flushes, flushRec{fmt.Sprintf("shard%d", s), idxPrepared[s], world.Count()})
			idxPrepared[s] = -1
			res.Counters["op.index-flush"]++
		}
	}
	_ = steps
	// finish with the production order: metadata, then every shard's index
	opIdx++
	if metaPrepared < 0 {
		d.meta.PrepareFlush()
		metaPrepared = opIdx
	}
	if err := d.meta.Flush(); err != nil {
		o.fail("C09/flush-fails", "meta flush: %v", err)
	}
	flushes = append(flushes, flushRec{"meta", metaPrepared, world.Count()})
	for s := 0; s < shards; s++ {
		if idxPrepared[s] < 0 {
			d.idx[s].PrepareFlush()
			idxPrepared[s] = opIdx
		}
		if err := d.idx[s].Flush(); err != nil {
			o.fail("C09/flush-fails", "index flush: %v", err)
		}
		flushes = append(flushes, flushRec{fmt.Sprintf("shard%d", s), idxPrepared[s], world.Count()})
	}
	world.Snapshot("final")
	world.Enable(false)
	_ = d.close()
	seam.Restore()
	// recovery of the images runs through pass-through seams that skip fsync(2) (irrelevant for the verdicts, and
	// every image is reopened several times)
	seam.InstallKV(seam.Direct{}, nil)

	images := world.Images()
	res.Evals = len(images)
	res.Counters["images"] = len(images)
	// images are independent directories: verify them in parallel, each into its own result, merged afterwards
	seeds := make([]int64, len(images))
	for i := range seeds {
		seeds[i] = r.Int63()
	}
	parts := make([]*caseResult, len(images))
	core.Parallel(len(images), 8, func(i int) {
		part := &caseResult{Counters: map[string]int{}}
		verifyImage(part, idx, images[i], shards, names, flushes, seeds[i])
		parts[i] = part
		_ = os.RemoveAll(images[i].Dir)
	})
	for _, part := range parts {
		for k, v := range part.Counters {
			res.Counters[k] += v
		}
		res.Nontrivial = append(res.Nontrivial, part.Nontrivial...)
		for _, v := range part.Violations {
			dup := false
			for _, old := range res.Violations {
				if old.Class == v.Class {
					dup = true
				}
			}
			if !dup {
				res.Violations = append(res.Violations, v)
			}
		}
	}
	var labels []string
	for i, img := range images {
		if i > 12 {
			break
		}
		labels = append(labels, strings.ReplaceAll(img.Label, root, "<db>"))
	}
	res.Sample = map[string]interface{}{"kind": "crash", "config": res.Config, "names": len(names), "images": len(images), "first_labels": labels}
}

func verifyImage(res *caseResult, caseIdx int, img imgfs.Image, shards int, names []ledgerName, flushes []flushRec, fseed int64) {
	k := img.Index
	o := newObs(res)
	o.phase.Store("crash-recovery")
	defer func() {
		if p := recover(); p != nil {
			o.fail("C09/recovery-panics", "image %d (after %q): %v", k, img.Label, p)
		}
	}()
	d, err := openDBs(img.Dir, shards)
	if err != nil {
		o.fail("C09/image-cannot-be-opened", "image %d (after %q): %v", k, img.Label, err)
		return
	}
	defer d.close()
	inside := false
	for _, f := range flushes {
		// images between a flush's first file-system operation and its return
		if k < f.doneImage-1 {
			// the flush had not finished at this image; was it already running? labels tell: any image after the
			// previous flush's end belongs to it or to rows in between; count images that show a partially written flush
			_ = f
		}
	}
	if strings.Contains(img.Label, "write ") || strings.Contains(img.Label, "create ") || strings.Contains(img.Label, "close ") ||
		strings.Contains(img.Label, "seqsync") || strings.Contains(img.Label, "rename ") {
		inside = true // taken after a table/manifest/sequence write of a flush, before the flush had returned
	}
	durable := func(n ledgerName) bool {
		target := "meta"
		if n.k.kind == "series" {
			target = fmt.Sprintf("shard%d", n.shard)
		}
		for _, f := range flushes {
			if f.target == target && f.prepareOp > n.createdOp && k >= f.doneImage {
				return true
			}
		}
		return false
	}
	found := 0
	for _, n := range names {
		mustHave := durable(n)
		id, ok, lerr := lookup(d, n)
		if lerr != nil {
			o.fail("C09/lookup-fails-after-recovery", "image %d (after %q): %s %q: %v", k, img.Label, n.k.kind, n.k.name, lerr)
			continue
		}
		if !ok {
			if mustHave && n.k.kind != "series" { // (series cannot be looked up without creating them)
				// observation only: the property speaks about names found in the recovered dictionaries (C07 covers loss)
				o.count("names_flushed_but_not_recovered_on_image."+n.k.kind, 1)
				// a flush cycle completed after the name was created, so flushed index entries / data files may
				// refer to its id: nobody else may get it
				o.mu.Lock()
				o.byID[invKey{n.k.kind, n.k.scope, n.id}] = n.k.name
				o.mu.Unlock()
			}
			continue
		}
		found++
		if id != n.id {
			o.fail("C09/"+n.k.kind+"/recovered-name-has-other-id", "image %d (after %q): %s %q (scope %s) had id %d, recovered dictionaries say %d",
				k, img.Label, n.k.kind, n.k.name, n.k.scope, n.id, id)
			continue
		}
		o.observe(98, n.k.kind, n.k.scope, n.k.name, id, o.tick(), o.tick())
	}
	o.count("recovered_names_compared", found)
	// why classifies a collision of a fresh id with recovered index entries: was the name that owned the id in the
	// live run created after the last metadata flush that had completed at this image began (so that its dictionary
	// entry / sequence was legitimately not durable, yet index entries mentioning its id were flushed)?
	why := func(kind string, id uint32, scope ...string) string {
		for _, n := range names {
			if n.k.kind == kind && n.id == id && (len(scope) == 0 || n.k.scope == scope[0]) {
				if !durable(n) {
					return "index-entries-flushed-for-a-name-created-after-the-last-completed-metadata-flush-began"
				}
				return "owner-name-was-durable"
			}
		}
		return "owner-unknown"
	}
	// fresh names must not get ids that recovered dictionaries or recovered index entries use
	fr := rand.New(rand.NewSource(fseed))
	seenSeries := map[string]bool{}    // fresh series already created on this image (the generator repeats metrics/tag sets)
	seriesOwner := map[string]string{} // "shard/metric id/series id" -> metric{tags} that holds it after recovery
	for _, row := range genRows(fr, 900+k, 4) {
		s := fr.Intn(shards)
		freshRow(o, d, s, row, k, img.Label, why, seenSeries, seriesOwner)
	}
	// Injectivity of the series ids after recovery: every row of the live run is requested again through the
	// get-or-create path (a series whose entry was not durable may get a new id - but never one that another tag
	// set of the same shard and metric id holds, be it a recovered one, a fresh one or another re-created one).
	requested := map[string]bool{}
	// brand-new tag sets on the metrics of the live run (their ids derive from the recovered index of that metric)
	for _, n := range names {
		if n.k.kind != "series" || n.shard >= len(d.idx) {
			continue
		}
		mk := fmt.Sprintf("new-on-old/%d/%s/%s", n.shard, n.row.NS, n.row.Metric)
		if requested[mk] {
			continue
		}
		requested[mk] = true
		if _, err := d.meta.GetMetricID(n.row.NS, n.row.Metric); err != nil {
			continue // the metric itself was not recovered
		}
		mid, err := d.meta.GenMetricID([]byte(n.row.NS), []byte(n.row.Metric))
		if err != nil {
			continue
		}
		for j := 0; j < 2; j++ {
			nr := rowSpec{NS: n.row.NS, Metric: n.row.Metric, Tags: [][2]string{{"host", fmt.Sprintf("post-crash-%d-%d", k, j)}}, Fields: n.row.Fields}
			data, err := nr.bytes()
			if err != nil {
				continue
			}
			sr := &metric.StorageRow{}
			sr.Unmarshal(data)
			sid, err := d.idx[n.shard].GenSeriesID(mid, sr)
			if err != nil {
				continue
			}
			o.count("new_series_on_recovered_metrics", 1)
			seriesOwner[fmt.Sprintf("%d/%d/%d", n.shard, mid, sid)] = nr.Metric + "{" + nr.tagString() + "}"
		}
	}
	for _, n := range names {
		if n.k.kind != "series" {
			continue
		}
		rk := fmt.Sprintf("%d/%s/%s/%s", n.shard, n.row.NS, n.row.Metric, n.row.tagString())
		if requested[rk] || n.shard >= len(d.idx) {
			continue
		}
		requested[rk] = true
		_, lookupErr := d.meta.GetMetricID(n.row.NS, n.row.Metric)
		mid, err := d.meta.GenMetricID([]byte(n.row.NS), []byte(n.row.Metric))
		if err != nil {
			continue
		}
		data, err := n.row.bytes()
		if err != nil {
			continue
		}
		sr := &metric.StorageRow{}
		sr.Unmarshal(data)
		sid, err := d.idx[n.shard].GenSeriesID(mid, sr)
		if err != nil {
			o.fail("C09/gen-fails", "image %d: GenSeriesID of a row of the live run: %v", k, err)
			continue
		}
		o.count("series_of_the_live_run_requested_again_after_recovery", 1)
		key := fmt.Sprintf("%d/%d/%d", n.shard, mid, sid)
		me := n.row.Metric + "{" + n.row.tagString() + "}"
		if prev, ok := seriesOwner[key]; ok && prev != me {
			if lookupErr != nil || seenSeries[fmt.Sprintf("fresh-metric-id/%d", mid)] {
				// the metric id itself was handed out on this image: the collision is a consequence of whoever
				// owned that metric id in the live run not being recovered
				o.fail("C09/fresh-id-already-used-by-index-entries/"+why("metric", uint32(mid))+"/series-after-recovery",
					"image %d (after %q): series id %d of shard %d metric id %d is held by %s and by %s after recovery", k, img.Label, sid, n.shard, mid, prev, me)
			} else {
				o.fail("C09/series/two-names-share-id/after-crash-recovery",
					"image %d (after %q): series id %d of shard %d metric %q (id %d, recovered) is held by %s and by %s after recovery", k, img.Label, sid, n.shard, n.row.Metric, mid, prev, me)
			}
			continue
		}
		seriesOwner[key] = me
	}
	o.count("images_recovered_and_checked", 1)
	if inside {
		o.count("images_inside_a_flush", 1)
		res.Nontrivial = append(res.Nontrivial, fmt.Sprintf("crash%d/%s", caseIdx, img.Hash[:16]))
	}
}

// lookup finds a ledger name in the recovered databases without creating it.
func lookup(d *dbset, n ledgerName) (uint32, bool, error) {
	switch n.k.kind {
	case "metric":
		id, err := d.meta.GetMetricID(n.k.scope, n.k.name)
		if err != nil {
			return 0, false, nil // not found
		}
		return uint32(id), true, nil
	case "field", "tagkey":
		var mid uint32
		fmt.Sscanf(n.k.scope, "metric=%d", &mid)
		schema, err := d.meta.GetSchema(metric.ID(mid))
		if err != nil {
			return 0, false, err
		}
		if schema == nil {
			return 0, false, nil
		}
		if n.k.kind == "field" {
			fm, ok := schema.Fields.Find(field.Name(n.k.name))
			return uint32(fm.ID), ok, nil
		}
		tm, ok := schema.TagKeys.Find(n.k.name)
		return uint32(tm.ID), ok, nil
	case "tagvalue":
		var kid uint32
		fmt.Sscanf(n.k.scope, "tagkey=%d", &kid)
		ids, err := d.meta.FindTagValueDsByExpr(tag.KeyID(kid), &stmt.EqualsExpr{Key: "k", Value: n.k.name})
		if err != nil {
			return 0, false, err
		}
		if ids == nil || ids.IsEmpty() {
			return 0, false, nil
		}
		return ids.Minimum(), true, nil
	}
	return 0, false, nil
}

// freshRow creates the names of a brand-new row on the recovered databases and checks that none of the ids it
// receives is already used by recovered dictionaries (observation map) or recovered index entries.
func freshRow(o *observations, d *dbset, s int, row rowSpec, k int, label string, why func(kind string, id uint32, scope ...string) string, seenSeries map[string]bool, seriesOwner map[string]string) {
	row.Metric = "fresh-" + row.Metric
	for i := range row.Tags {
		row.Tags[i][1] = "fresh-" + row.Tags[i][1]
	}
	_, existed := d.meta.GetMetricID(row.NS, row.Metric)
	mid, err := d.meta.GenMetricID([]byte(row.NS), []byte(row.Metric))
	if err != nil {
		o.fail("C09/gen-fails", "image %d: GenMetricID: %v", k, err)
		return
	}
	o.observe(97, "metric", row.NS, row.Metric, uint32(mid), o.tick(), o.tick())
	metricCollided := false
	if existed != nil {
		seenSeries[fmt.Sprintf("fresh-metric-id/%d", mid)] = true
	}
	if existed != nil { // brand-new metric name: no index entry may know its id
		for si := range d.idx {
			ids, err := d.idx[si].GetSeriesIDsForMetric(mid)
			if err == nil && ids != nil && !ids.IsEmpty() {
				metricCollided = true
				o.fail("C09/fresh-id-already-used-by-index-entries/"+why("metric", uint32(mid))+"/metric", "image %d (after %q): new metric %q got id %d, but shard %d's recovered index already lists series %v for that id",
					k, label, row.Metric, mid, si, ids.ToArray())
			}
		}
	}
	// tag keys and values of the brand-new row first: their fresh ids must be unknown to the recovered index
	for _, kv := range row.Tags {
		kid, err := d.meta.GenTagKeyID(mid, []byte(kv[0]))
		if err != nil {
			continue
		}
		o.observe(97, "tagkey", fmt.Sprintf("metric=%d", mid), kv[0], uint32(kid), o.tick(), o.tick())
		if existed != nil {
			for si := range d.idx {
				ids, err := d.idx[si].GetSeriesIDsForTag(kid)
				if err == nil && ids != nil && !ids.IsEmpty() {
					o.fail("C09/fresh-id-already-used-by-index-entries/"+why("tagkey", uint32(kid))+"/tagkey", "image %d (after %q): tag key %q of new metric %q got id %d, but shard %d's recovered index already lists series %v for that tag key id",
						k, label, kv[0], row.Metric, kid, si, ids.ToArray())
				}
			}
		}
		known, _ := d.meta.FindTagValueDsByExpr(kid, &stmt.EqualsExpr{Key: kv[0], Value: kv[1]})
		vid, err := d.meta.GenTagValueID(kid, []byte(kv[1]))
		if err != nil {
			continue
		}
		o.observe(97, "tagvalue", fmt.Sprintf("tagkey=%d", kid), kv[1], vid, o.tick(), o.tick())
		if known != nil && !known.IsEmpty() {
			continue // not brand-new (an earlier fresh row of this image created it and indexed a series under it)
		}
		for si := range d.idx {
			ids, err := d.idx[si].GetSeriesIDsByTagValueIDs(kid, roaring.BitmapOf(vid))
			if err == nil && ids != nil && !ids.IsEmpty() {
				o.fail("C09/fresh-id-already-used-by-index-entries/"+why("tagvalue", uint32(vid))+"/tagvalue", "image %d (after %q): new tag value %q got id %d, but shard %d's recovered index already lists series %v for that tag value id",
					k, label, kv[1], vid, si, ids.ToArray())
			}
		}
	}
	// series id of a brand-new tag set
	before, _ := d.idx[s].GetSeriesIDsForMetric(mid)
	data, err := row.bytes()
	if err != nil {
		return
	}
	sr := &metric.StorageRow{}
	sr.Unmarshal(data)
	sid, err := d.idx[s].GenSeriesID(mid, sr)
	if err != nil {
		o.fail("C09/gen-fails", "image %d: GenSeriesID: %v", k, err)
		return
	}
	// (when the fresh metric id itself collided with recovered index entries – reported above – its "new" series
	// resolve to the old metric's series: a consequence, not a second defect)
	seriesKey := fmt.Sprintf("%d/%d/%s", s, mid, row.tagString())
	brandNew := !seenSeries[seriesKey]
	seenSeries[seriesKey] = true
	if brandNew && !metricCollided && before != nil && before.Contains(sid) {
		// series ids are per (shard, metric). When the metric id itself was handed out on this image (by this or an
		// earlier fresh row), whoever owned that metric id in the live run was not recovered: the series dictionary
		// entries of that owner are the index entries that collide, and the cause is the owner metric's durability.
		cause := why("series", uint32(sid), fmt.Sprintf("shard=%d,metric=%d", s, mid))
		if seenSeries[fmt.Sprintf("fresh-metric-id/%d", mid)] {
			cause = why("metric", uint32(mid))
		}
		o.fail("C09/fresh-id-already-used-by-index-entries/"+cause+"/series", "image %d (after %q): new series %q of metric %d got id %d which the recovered index already lists", k, label, row.tagString(), mid, sid)
	}
	o.observe(97, "series", fmt.Sprintf("shard=%d,metric=%d", s, mid), row.tagString(), sid, o.tick(), o.tick())
	seenSeries[fmt.Sprintf("owner/%d/%d/%d", s, mid, sid)] = true
	seriesOwner[fmt.Sprintf("%d/%d/%d", s, mid, sid)] = row.Metric + "{" + row.tagString() + "}"
	for _, f := range row.Fields {
		fid, err := d.meta.GenFieldID(mid, field.Meta{Name: field.Name(f.Name), Type: f.Type})
		if err == nil {
			o.observe(97, "field", fmt.Sprintf("metric=%d", mid), f.Name, uint32(fid), o.tick(), o.tick())
		}
	}
}

var _ = roaring.New
