package main

import (
	"fmt"
	"math/rand"
	"path/filepath"
	"time"

	"github.com/lindb/lindb/models"
	"github.com/lindb/lindb/series/field"
	"github.com/lindb/lindb/series/metric"
	"github.com/lindb/lindb/tsdb/memdb"
)

// caseMemdb drives the real event loops of tsdb/memdb (MetadataDatabase and IndexDatabase: the metadata worker of a
// database and the index worker of a shard): rows that create new metrics/fields/series are notified while flush
// events are notified in between, as the write path and the flush jobs do. The ids the running node handed out are
// read back through the get-or-create calls; then the node "crashes" (everything is closed without another flush),
// is reopened, and every old row plus fresh rows are requested again: recovered names keep their ids, and ids stay
// injective per kind and scope.
func caseMemdb(res *caseResult, idx int, dir string, seed int64, tier string) {
	r := rand.New(rand.NewSource(seed*4271 + int64(idx)*61 + 7))
	rounds := 3 + r.Intn(3)
	rowsPerRound := 60 + r.Intn(120)
	metrics := 1 + r.Intn(3)
	res.Config = fmt.Sprintf("rounds=%d rowsPerRound=%d metrics=%d", rounds, rowsPerRound, metrics)
	root := filepath.Join(dir, "db")
	o := newObs(res)
	d, err := openDBs(root, 1)
	if err != nil {
		o.fail("C09/open-fails", "%v", err)
		return
	}
	memMeta := memdb.NewMetadataDatabase(&models.DatabaseConfig{}, d.meta)
	memIndex := memdb.NewIndexDatabase(memMeta, d.idx[0])
	mkRow := func(n int) rowSpec {
		m := n % metrics
		return rowSpec{NS: "ns", Metric: fmt.Sprintf("mm%d", m),
			Tags:   [][2]string{{"host", fmt.Sprintf("h%d", n)}, {"dc", fmt.Sprintf("dc%d", n%3)}},
			Fields: []fieldSpec{{Name: fmt.Sprintf("f%d", n%4), Type: fieldTypes[0]}}}
	}
	storageRow := func(spec rowSpec) *metric.StorageRow {
		data, err := spec.bytes()
		if err != nil {
			return nil
		}
		sr := &metric.StorageRow{}
		sr.Unmarshal(data)
		for _, f := range spec.Fields {
			sr.Fields = append(sr.Fields, field.Meta{Name: field.Name(f.Name), Type: f.Type})
		}
		return sr
	}
	var all []rowSpec
	next := 0
	waitFlush := func(ch chan error, what string) {
		select {
		case err := <-ch:
			if err != nil {
				o.fail("C09/flush-fails", "%s flush: %v", what, err)
			}
		case <-time.After(60 * time.Second):
			o.fail("C09/flush-never-completes", "%s flush event was never answered", what)
		}
	}
	for round := 0; round < rounds; round++ {
		var specs []rowSpec
		var rows []*metric.StorageRow
		for i := 0; i < rowsPerRound; i++ {
			spec := mkRow(next)
			next++
			sr := storageRow(spec)
			if sr == nil {
				continue
			}
			specs = append(specs, spec)
			rows = append(rows, sr)
		}
		all = append(all, specs...)
		// what MemoryDatabase.WriteRow does before it notifies the workers
		for _, sr := range rows {
			memIndex.GetOrCreateTimeSeriesIndex(sr)
			memMeta.GetOrCreateMetricMeta(sr)
		}
		idxFlushAt, metaFlushAt := r.Intn(len(rows)), r.Intn(len(rows))
		idxFlushed, metaFlushed := make(chan error, 1), make(chan error, 1)
		for i, sr := range rows {
			if i == metaFlushAt {
				memMeta.Notify(&memdb.FlushEvent{Callback: func(err error) { metaFlushed <- err }})
				o.count("memdb.meta_flush_events", 1)
			}
			if i == idxFlushAt {
				memIndex.Notify(&memdb.FlushEvent{Callback: func(err error) { idxFlushed <- err }})
				o.count("memdb.index_flush_events", 1)
			}
			memIndex.Notify(sr)
			memMeta.Notify(sr)
		}
		for _, sr := range rows {
			sr.Wait()
		}
		waitFlush(metaFlushed, "metadata")
		waitFlush(idxFlushed, "index")
		o.count("memdb.rows_through_the_workers", len(rows))
		res.Evals++
		res.Nontrivial = append(res.Nontrivial, fmt.Sprintf("memdb%d/round%d", idx, round))
	}
	// ids the running node handed out (get-or-create returns the assigned ones)
	for _, spec := range all {
		metaWorkerRow(o, 0, d, spec)
		indexWorkerRow(o, 1, d, 0, spec)
	}
	// the metadata of the database is flushed completely by its own job; the shard's index is NOT flushed again
	metaFlushed := make(chan error, 1)
	memMeta.Notify(&memdb.FlushEvent{Callback: func(err error) { metaFlushed <- err }})
	waitFlush(metaFlushed, "final metadata")
	// crash: whatever is still in memory is lost
	memIndex.Close()
	memMeta.Close()
	_ = d.close()
	d2, err := openDBs(root, 1)
	if err != nil {
		o.fail("C09/reopen-fails", "%v", err)
		return
	}
	// names found in the recovered dictionaries keep their ids (names that were not durable are forgotten here)
	o.phase.Store("reopen")
	relookup(o, d2)
	// injectivity after recovery: every old row and fresh rows are requested again
	o2 := newObs(res)
	o2.phase.Store("recovered")
	for _, spec := range all {
		metaWorkerRow(o2, 0, d2, spec)
		indexWorkerRow(o2, 1, d2, 0, spec)
	}
	for i := 0; i < 30; i++ {
		spec := mkRow(next)
		next++
		metaWorkerRow(o2, 0, d2, spec)
		indexWorkerRow(o2, 1, d2, 0, spec)
	}
	_ = d2.close()
	res.Evals += len(all)
	res.Sample = map[string]interface{}{"kind": "memdb", "config": res.Config, "rows": len(all)}
}
