package main

import (
	"fmt"
	"math/rand"
	"sort"
	"strings"
	"sync"

	"github.com/lindb/lindb/constants"
	"github.com/lindb/lindb/flow"
	"github.com/lindb/lindb/models"
	"github.com/lindb/lindb/verif/internal/node"
)

// layoutSpec is one physical layout of a data set for one shard count.
type layoutSpec struct {
	Name          string             `json:"name"`
	Leaves        [][]models.ShardID `json:"leaves"`
	Intermediates int                `json:"intermediates"`
	Isolated      bool               `json:"isolated"` // every leaf has its own database (own metadata)
	// ComputeCap caps the number of compute targets the chooser asks flow.BuildPhysicalPlan for (0 = what the root asks
	// for, 5 for group by). With a cap of 1 and several live brokers the plan is the one coordinator/root's
	// Choose(database, 1) gets from a broker cluster: ONE compute target picked among several live brokers - the only
	// plans with more live brokers than targets that answer on the unchanged tree.
	ComputeCap int `json:"compute_cap,omitempty"`
	// MaxQueries / MaxPerms bound the statements and delivery orders of an additional layout (0 = all).
	MaxQueries int `json:"-"`
	MaxPerms   int `json:"-"`
	// Aware: the partition was derived from where the data lives (a leaf made of the shards without series of the main metric)
	Aware string `json:"aware,omitempty"`
}

func (l layoutSpec) String() string {
	var parts []string
	for _, s := range l.Leaves {
		var ids []string
		for _, id := range s {
			ids = append(ids, fmt.Sprint(int(id)))
		}
		parts = append(parts, "{"+strings.Join(ids, ",")+"}")
	}
	iso := ""
	if l.Isolated {
		iso = " isolated-metadata"
	}
	capped := ""
	if l.ComputeCap > 0 {
		capped = fmt.Sprintf(" compute-targets<=%d", l.ComputeCap)
	}
	return fmt.Sprintf("%s: leaves %s intermediates=%d%s%s", l.Name, strings.Join(parts, " "), l.Intermediates, capped, iso)
}

// computeTargets is the number of compute targets the root's plan has in this layout (the root asks for 5 for group by).
func (l layoutSpec) computeTargets() int {
	n := l.Intermediates
	if n > rootComputeNodes {
		n = rootComputeNodes
	}
	if l.ComputeCap > 0 && n > l.ComputeCap {
		n = l.ComputeCap
	}
	return n
}

// rootComputeNodes is what query/context/root_metric_context.go MakePlan asks the chooser for when the statement groups.
const rootComputeNodes = 5

func (l layoutSpec) nodeLayout() node.Layout {
	out := node.Layout{Intermediates: l.Intermediates}
	for _, s := range l.Leaves {
		out.Leaves = append(out.Leaves, node.LeafSpec{Shards: append([]models.ShardID(nil), s...)})
	}
	return out
}

// kind names the placement for violation classes: what a result can depend on in this layout.
func (l layoutSpec) kind() string {
	k := "one-leaf"
	if len(l.Leaves) > 1 {
		k = "several-leaves"
	}
	switch n := l.computeTargets(); {
	case n == 1:
		k += "+one-compute-target"
	case n > 1:
		k += "+several-compute-targets"
	}
	if l.Intermediates > l.computeTargets() {
		k += "-of-more-live-brokers"
	}
	if l.Isolated {
		k = "isolated-metadata/" + k
	}
	return k
}

func shardRange(lo, hi int) []models.ShardID {
	var out []models.ShardID
	for i := lo; i < hi; i++ {
		out = append(out, models.ShardID(i))
	}
	return out
}

// partitions enumerates the shard partitions used for n shards. place tells where the series live (for the data aware
// partitions): a leaf made of exactly the shards that hold no series of the main metric (empty shards and shards that
// only hold other metrics), a leaf made of the shards without any series.
func partitions(n int, place []*seriesInfo, mainMetric string, rnd *rand.Rand) []layoutSpec {
	var out []layoutSpec
	add := func(name string, leaves [][]models.ShardID, aware string) {
		for _, l := range leaves {
			if len(l) == 0 {
				return
			}
		}
		key := fmt.Sprint(leaves)
		for _, o := range out {
			if fmt.Sprint(o.Leaves) == key {
				return
			}
		}
		out = append(out, layoutSpec{Name: name, Leaves: leaves, Aware: aware})
	}
	add("all-on-one-leaf", [][]models.ShardID{shardRange(0, n)}, "")
	if n >= 2 {
		add("split-in-two", [][]models.ShardID{shardRange(0, n/2), shardRange(n/2, n)}, "")
	}
	if n >= 3 {
		add("one-and-rest", [][]models.ShardID{shardRange(0, 1), shardRange(1, n)}, "")
		// a random partition into three leaves
		perm := rnd.Perm(n)
		three := make([][]models.ShardID, 3)
		for i, s := range perm {
			j := i % 3
			if i >= 3 {
				j = rnd.Intn(3)
			}
			three[j] = append(three[j], models.ShardID(s))
		}
		for _, t := range three {
			sort.Slice(t, func(a, b int) bool { return t[a] < t[b] })
		}
		add("three-leaves", three, "")
	}
	if n >= 2 {
		var each [][]models.ShardID
		for i := 0; i < n; i++ {
			each = append(each, shardRange(i, i+1))
		}
		add("one-shard-per-leaf", each, "")
	}
	if n == 8 {
		add("four-leaves", [][]models.ShardID{shardRange(0, 2), shardRange(2, 4), shardRange(4, 6), shardRange(6, 8)}, "")
	}
	// data aware partitions
	hasMain := map[int]bool{}
	hasAny := map[int]bool{}
	for _, s := range place {
		hasAny[s.Shard] = true
		if s.Metric == mainMetric {
			hasMain[s.Shard] = true
		}
	}
	var without, with, empty, nonEmpty []models.ShardID
	for i := 0; i < n; i++ {
		if hasMain[i] {
			with = append(with, models.ShardID(i))
		} else {
			without = append(without, models.ShardID(i))
		}
		if hasAny[i] {
			nonEmpty = append(nonEmpty, models.ShardID(i))
		} else {
			empty = append(empty, models.ShardID(i))
		}
	}
	add("leaf-of-shards-without-series-of-the-metric", [][]models.ShardID{without, with}, "no-series-of-metric")
	add("leaf-of-shards-without-any-data", [][]models.ShardID{empty, nonEmpty}, "no-data-at-all")
	return out
}

// ---------------------------------------------------------------------------------------------
// delivery order

func factorial(k int) int {
	f := 1
	for i := 2; i <= k; i++ {
		f *= i
	}
	return f
}

// allPerms returns every permutation of 0..k-1 (lexicographic).
func allPerms(k int) [][]int {
	var out [][]int
	cur := make([]int, 0, k)
	used := make([]bool, k)
	var rec func()
	rec = func() {
		if len(cur) == k {
			out = append(out, append([]int(nil), cur...))
			return
		}
		for i := 0; i < k; i++ {
			if !used[i] {
				used[i] = true
				cur = append(cur, i)
				rec()
				cur = cur[:len(cur)-1]
				used[i] = false
			}
		}
	}
	rec()
	return out
}

// permScheduler is the delivery policy of one query: requests and the responses of non-leaf nodes go FIFO; the
// responses of the leaves are held until nothing else can happen (so every response that will ever come is there) and
// are then released in the order given by Perm (ranks in send order). Strict releases the next response only after the
// previous one has been handled completely (exact permutation of the HANDLING order, the root's worker pool cannot
// reorder); non strict releases them back to back (handling may overlap) - used together with delivery delays.
// It also records every message it sees (the loopback's observation point for the leaf -> receiver split).
type permScheduler struct {
	Leaf   map[string]bool
	Perm   []int
	Strict bool

	mu        sync.Mutex
	armed     bool
	queue     []*node.Msg
	seen      map[int64]*node.Msg
	delivered []string // sender of the held responses in delivery order
}

func (s *permScheduler) held(m *node.Msg) bool { return m.Kind == node.Response && s.Leaf[m.From] }

// Pick implements node.Scheduler.
func (s *permScheduler) Pick(pending []*node.Msg, othersIdle bool) int {
	s.mu.Lock()
	defer s.mu.Unlock()
	if s.seen == nil {
		s.seen = map[int64]*node.Msg{}
	}
	for _, m := range pending {
		s.seen[m.Seq] = m
	}
	for i, m := range pending {
		if !s.held(m) {
			return i
		}
	}
	if len(pending) == 0 {
		return -1
	}
	if !othersIdle && (s.Strict || !s.armed) {
		return -1
	}
	if !s.armed {
		s.armed = true
		order := append([]*node.Msg(nil), pending...)
		sort.Slice(order, func(i, j int) bool { return order[i].Seq < order[j].Seq })
		used := make([]bool, len(order))
		for _, r := range s.Perm {
			if r >= 0 && r < len(order) && !used[r] {
				used[r] = true
				s.queue = append(s.queue, order[r])
			}
		}
		for r, m := range order {
			if !used[r] {
				s.queue = append(s.queue, m)
			}
		}
	}
	for len(s.queue) > 0 {
		want := s.queue[0]
		s.queue = s.queue[1:]
		for i, m := range pending {
			if m == want {
				s.delivered = append(s.delivered, m.From)
				return i
			}
		}
	}
	s.delivered = append(s.delivered, pending[0].From)
	return 0
}

func (s *permScheduler) messages() []*node.Msg {
	s.mu.Lock()
	defer s.mu.Unlock()
	out := make([]*node.Msg, 0, len(s.seen))
	for _, m := range s.seen {
		out = append(out, m)
	}
	sort.Slice(out, func(i, j int) bool { return out[i].Seq < out[j].Seq })
	return out
}

// ---------------------------------------------------------------------------------------------
// plan recording

// planRecorder is installed as Cluster.ChooseFn. It builds the plans exactly like the loopback chooser (which mirrors
// coordinator/broker stateManager.Choose: compute targets from flow.BuildPhysicalPlan over the live brokers when more
// than one node is wanted and more than one storage node holds shards, otherwise one target per storage node) and
// records what was produced, so that a verdict can be classified by the plan that was really used.
type planRecorder struct {
	// cap: see layoutSpec.ComputeCap
	cap   int
	mu    sync.Mutex
	plans []*models.PhysicalPlan
	nodes []int
}

func (r *planRecorder) choose(c *node.Cluster, database string, numOfNodes int) ([]*models.PhysicalPlan, error) {
	ch := c.Chooser()
	replicas, err := ch.GetQueryableReplicas(database)
	if err != nil {
		return nil, err
	}
	if len(replicas) == 0 {
		return nil, constants.ErrReplicaNotFound
	}
	var plan *models.PhysicalPlan
	if live := ch.GetLiveNodes(); numOfNodes > 1 && len(replicas) > 1 && len(live) > 0 {
		if r.cap > 0 && numOfNodes > r.cap {
			numOfNodes = r.cap
		}
		plan = flow.BuildPhysicalPlan(database, live, numOfNodes)
	} else {
		plan = ch.LeafPlan(database)
	}
	cp := &models.PhysicalPlan{Database: plan.Database}
	for _, t := range plan.Targets {
		tt := *t
		cp.Targets = append(cp.Targets, &tt)
	}
	r.mu.Lock()
	r.plans = append(r.plans, cp)
	r.nodes = append(r.nodes, numOfNodes)
	r.mu.Unlock()
	return []*models.PhysicalPlan{plan}, nil
}

func (r *planRecorder) reset() {
	r.mu.Lock()
	r.plans, r.nodes = nil, nil
	r.mu.Unlock()
}

// rootPlan returns the first plan built since reset (the root's).
func (r *planRecorder) rootPlan() *models.PhysicalPlan {
	r.mu.Lock()
	defer r.mu.Unlock()
	if len(r.plans) == 0 {
		return nil
	}
	return r.plans[0]
}

// planShape describes a plan: direct | one-compute-target | receive-only-compute-target (>= 1 receive only target).
func planShape(p *models.PhysicalPlan, leaf map[string]bool) (shape string, active, receiveOnly []string) {
	if p == nil {
		return "no-plan", nil, nil
	}
	compute := 0
	for _, t := range p.Targets {
		if leaf[t.Indicator] {
			continue
		}
		compute++
		if t.ReceiveOnly {
			receiveOnly = append(receiveOnly, t.Indicator)
		} else {
			active = append(active, t.Indicator)
		}
	}
	switch {
	case compute == 0:
		return "direct", nil, nil
	case len(receiveOnly) > 0:
		return "receive-only-compute-target", active, receiveOnly
	case compute == 1:
		return "one-compute-target", active, nil
	default:
		return "several-active-compute-targets", active, nil
	}
}
