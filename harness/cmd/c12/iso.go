package main

// Isolated-metadata placement: every leaf gets its OWN database (own metric/field/tag metadata, own shards) inside the
// one real tsdb.Engine of the process, like a production storage node which resolves the database name in its own
// engine. The rows are routed by the real BrokerBatchRows.NewShardGroupIterator over the logical shard count and then
// written into the database of the leaf that owns the shard. The loopback transport (internal/node) is used unchanged:
// a PreDeliver hook rewrites, for every request delivered to a leaf, the database name of the physical plan into the
// leaf's database name - the only thing the transport changes; statement, targets, receivers are the real ones.

import (
	"bytes"
	"fmt"
	"math"
	"sort"
	"sync"

	"github.com/lindb/common/pkg/encoding"
	"github.com/lindb/common/pkg/fasttime"
	protoMetricsV1 "github.com/lindb/common/proto/gen/v1/linmetrics"

	"github.com/lindb/lindb/models"
	"github.com/lindb/lindb/pkg/timeutil"
	"github.com/lindb/lindb/series/metric"
	"github.com/lindb/lindb/tsdb"
	"github.com/lindb/lindb/verif/internal/node"
)

// isoPlacement is one set of per-leaf databases holding one data set under one partition of the shards.
type isoPlacement struct {
	n        *node.Node
	name     string // prefix of the database names
	shards   int    // logical number of shards (routing modulus)
	leafSets [][]models.ShardID
	dbs      []tsdb.Database
	dbNames  []string
	owner    map[models.ShardID]int

	saved []tsdb.ExecutorPool // the databases' own query pools (restored by detach)
}

func pointProto(p *node.Point) *protoMetricsV1.Metric {
	m := &protoMetricsV1.Metric{Namespace: p.Namespace, Name: p.Metric, Timestamp: p.Timestamp}
	keys := make([]string, 0, len(p.Tags))
	for k := range p.Tags {
		keys = append(keys, k)
	}
	sort.Strings(keys)
	for _, k := range keys {
		m.Tags = append(m.Tags, &protoMetricsV1.KeyValue{Key: k, Value: p.Tags[k]})
	}
	for _, f := range p.Fields {
		var t protoMetricsV1.SimpleFieldType
		switch f.Type {
		case node.Sum:
			t = protoMetricsV1.SimpleFieldType_DELTA_SUM
		case node.Min:
			t = protoMetricsV1.SimpleFieldType_Min
		case node.Max:
			t = protoMetricsV1.SimpleFieldType_Max
		case node.Last:
			t = protoMetricsV1.SimpleFieldType_LAST
		case node.First:
			t = protoMetricsV1.SimpleFieldType_FIRST
		}
		m.SimpleFields = append(m.SimpleFields, &protoMetricsV1.SimpleField{Name: f.Name, Type: t, Value: f.Value})
	}
	if h := p.Histogram; h != nil {
		cf := &protoMetricsV1.CompoundField{Min: h.Min, Max: h.Max, Sum: h.Sum, Count: h.Count}
		cf.ExplicitBounds = append(cf.ExplicitBounds, h.Bounds...)
		cf.ExplicitBounds = append(cf.ExplicitBounds, math.Inf(1))
		cf.Values = append(cf.Values, h.Counts...)
		m.CompoundField = cf
	}
	return m
}

// newIsoPlacement creates one database per leaf with the leaf's shards.
func newIsoPlacement(n *node.Node, name string, shards int, leafSets [][]models.ShardID) (*isoPlacement, error) {
	p := &isoPlacement{n: n, name: name, shards: shards, leafSets: leafSets, owner: map[models.ShardID]int{}}
	for i, set := range leafSets {
		dbName := fmt.Sprintf("%s_leaf%d", name, i)
		if len(set) == 0 {
			return nil, fmt.Errorf("iso: leaf %d without shards", i)
		}
		if err := n.Engine.CreateShards(dbName, n.Opts.DatabaseOption(), set...); err != nil {
			return nil, fmt.Errorf("iso: create %s: %w", dbName, err)
		}
		db, ok := n.Engine.GetDatabase(dbName)
		if !ok {
			return nil, fmt.Errorf("iso: database %s missing", dbName)
		}
		p.dbs = append(p.dbs, db)
		p.dbNames = append(p.dbNames, dbName)
		for _, s := range set {
			p.owner[s] = i
		}
	}
	return p, nil
}

var isoTick struct {
	sync.Mutex
	last int64
}

// write routes the points of one ingestion call with the real shard iterator and writes every (shard, family) group into
// the database of the owning leaf, the way internal/node.Write does for the single database.
func (p *isoPlacement) write(points []node.Point) error {
	if len(points) == 0 {
		return nil
	}
	converter := metric.NewProtoConverter(models.NewDefaultLimits())
	batch := metric.NewBrokerBatchRows()
	defer batch.Release()
	for i := range points {
		m := pointProto(&points[i])
		if err := batch.TryAppend(func(row *metric.BrokerRow) error {
			row.IsOutOfTimeRange = false
			return converter.ConvertTo(m, row)
		}); err != nil {
			return fmt.Errorf("iso: convert point %d: %w", i, err)
		}
	}
	interval := timeutil.Interval(p.n.StorageIntervalMs())
	it := batch.NewShardGroupIterator(int32(p.shards))
	storageRows := metric.NewStorageBatchRows()
	for it.HasRowsForNextShard() {
		shardIdx, famIt := it.FamilyRowsForNextShard(interval)
		shardID := models.ShardID(shardIdx)
		leaf, ok := p.owner[shardID]
		if !ok {
			return fmt.Errorf("iso: shard %d has no owner", shardID)
		}
		shard, ok := p.dbs[leaf].GetShard(shardID)
		if !ok {
			return fmt.Errorf("iso: shard %d not in %s", shardID, p.dbNames[leaf])
		}
		for famIt.HasNextFamily() {
			familyTime, rows := famIt.NextFamily()
			var block bytes.Buffer
			for i := range rows {
				if _, err := rows[i].WriteTo(&block); err != nil {
					return err
				}
			}
			family, err := shard.GetOrCrateDataFamily(familyTime)
			if err != nil {
				return fmt.Errorf("iso: family %d of shard %d: %w", familyTime, shardID, err)
			}
			if !node.HasMutableMemDB(family) {
				// keep memory database creation stamps (5ms clock) distinct, as internal/node does
				isoTick.Lock()
				if isoTick.last != 0 {
					node.WaitNextTick(isoTick.last)
				}
				isoTick.Unlock()
			}
			storageRows.UnmarshalRows(block.Bytes())
			err = family.WriteRows(storageRows.Rows())
			isoTick.Lock()
			if now := fasttime.UnixNano(); now > isoTick.last {
				isoTick.last = now
			}
			isoTick.Unlock()
			if err != nil {
				return fmt.Errorf("iso: write rows: %w", err)
			}
		}
	}
	return nil
}

// flushAll flushes metadata, index and every data family of every leaf database (production order).
func (p *isoPlacement) flushAll() error {
	for i, db := range p.dbs {
		if err := db.FlushMeta(); err != nil {
			return err
		}
		db.WaitFlushMetaCompleted()
		for _, id := range p.leafSets[i] {
			shard, ok := db.GetShard(id)
			if !ok {
				continue
			}
			if err := shard.FlushIndex(); err != nil {
				return err
			}
			shard.WaitFlushIndexCompleted()
			for _, f := range tsdb.GetFamilyManager().GetFamiliesByShard(shard) {
				if err := f.Flush(); err != nil {
					return err
				}
			}
			shard.BufferManager().GarbageCollect()
		}
	}
	return nil
}

// layout returns the cluster layout of the placement.
func (p *isoPlacement) layout(intermediates int) node.Layout {
	l := node.Layout{Intermediates: intermediates}
	for _, set := range p.leafSets {
		l.Leaves = append(l.Leaves, node.LeafSpec{Shards: append([]models.ShardID(nil), set...)})
	}
	return l
}

// attach makes a cluster built with p.layout() serve every leaf from its own database: requests delivered to leaf i
// get the database name of leaf i, and the leaf databases run their query stages in the counting pools the cluster
// installed on the node's primary database (so that quiescence covers them).
func (p *isoPlacement) attach(c *node.Cluster, extra func(m *node.Msg)) {
	leafDB := map[string]string{}
	for i, id := range c.LeafIDs() {
		leafDB[id] = p.dbNames[i]
	}
	primary := p.n.DB.ExecutorPool()
	p.saved = nil
	for _, db := range p.dbs {
		ep := db.ExecutorPool()
		p.saved = append(p.saved, *ep)
		ep.Filtering, ep.Grouping, ep.Scanner = primary.Filtering, primary.Grouping, primary.Scanner
	}
	c.PreDeliver = func(m *node.Msg) {
		if m.Kind == node.Request {
			if name, ok := leafDB[m.To]; ok && m.Req != nil {
				plan := &models.PhysicalPlan{}
				if err := encoding.JSONUnmarshal(m.Req.PhysicalPlan, plan); err == nil {
					plan.Database = name
					cp := *m.Req
					cp.PhysicalPlan = encoding.JSONMarshal(plan)
					m.Req = &cp
				}
			}
		}
		if extra != nil {
			extra(m)
		}
	}
}

// detach gives the leaf databases their own pools back (call after Cluster.Close).
func (p *isoPlacement) detach() {
	for i, db := range p.dbs {
		if i < len(p.saved) {
			ep := db.ExecutorPool()
			ep.Filtering, ep.Grouping, ep.Scanner = p.saved[i].Filtering, p.saved[i].Grouping, p.saved[i].Scanner
		}
	}
	p.saved = nil
}
