package main

// Minimal reproductions of the C12 findings, one test each. They FAIL on a tree that has the defect and PASS once it is
// repaired (the expectation is the property, not current behaviour). They are skipped unless C12_REPRO=1:
//
//	cd /verif/harness && C12_REPRO=1 LOG_LEVEL=fatal TZ=UTC GOFLAGS=-mod=mod GOPROXY=off GOSUMDB=off GOTOOLCHAIN=local \
//	  go test -tags verif -count=1 -v -run 'TestRepro' ./cmd/c12/
//
// One node at a time (lindb's singletons), in temp dirs.

import (
	"context"
	"fmt"
	"os"
	"strings"
	"testing"
	"time"

	commonmodels "github.com/lindb/common/models"

	"github.com/lindb/lindb/internal/linmetric"
	"github.com/lindb/lindb/models"
	protoCommonV1 "github.com/lindb/lindb/proto/gen/v1/common"
	lquery "github.com/lindb/lindb/query"
	"github.com/lindb/lindb/sql"
	"github.com/lindb/lindb/sql/stmt"
	"github.com/lindb/lindb/verif/internal/node"
)

func reproNode(t *testing.T, shards int) (*node.Node, int64) {
	if os.Getenv("C12_REPRO") == "" {
		t.Skip("set C12_REPRO=1")
	}
	dir, err := os.MkdirTemp("", "c12repro")
	if err != nil {
		t.Fatal(err)
	}
	n, err := node.Open(node.Options{Dir: dir, ShardIDs: shardIDs(shards)})
	if err != nil {
		t.Fatal(err)
	}
	t.Cleanup(func() { n.Close(); os.RemoveAll(dir) })
	now := time.Now().UnixMilli()
	return n, now - now%hourMs - 5*hourMs
}

func pt(host string, ts int64, fields ...node.Field) node.Point {
	return node.Point{Metric: "m", Tags: map[string]string{"host": host}, Timestamp: ts, Fields: fields}
}
func sumF(name string, v float64) node.Field { return node.Field{Name: name, Type: node.Sum, Value: v} }

func rng(t0, t1 int64) string {
	return fmt.Sprintf("time >= '%s' and time <= '%s'", node.FormatTime(t0), node.FormatTime(t1))
}

// hostsOnDistinctShards returns two host names the real routing puts into different shards.
func hostsOnDistinctShards(t *testing.T, shards int) (string, string) {
	first, firstShard := "", -1
	for i := 0; i < 50; i++ {
		h := fmt.Sprintf("h%d", i)
		s, err := node.ShardOf(pt(h, 0, sumF("f", 1)), shards)
		if err != nil {
			t.Fatal(err)
		}
		if first == "" {
			first, firstShard = h, s
		} else if s != firstShard {
			return first, h
		}
	}
	t.Fatal("no two hosts on distinct shards")
	return "", ""
}

func leavesOneShardEach(n int) []node.LeafSpec {
	var out []node.LeafSpec
	for i := 0; i < n; i++ {
		out = append(out, node.LeafSpec{Shards: []models.ShardID{models.ShardID(i)}})
	}
	return out
}

// A group-by statement over 2 storage nodes with 2 live brokers never answers.
func TestReproReceiveOnlyComputeTargetNeverAnswers(t *testing.T) {
	n, t0 := reproNode(t, 2)
	a, b := hostsOnDistinctShards(t, 2)
	if _, err := n.Write([]node.Point{pt(a, t0+1000, sumF("f", 1)), pt(b, t0+11000, sumF("f", 2))}); err != nil {
		t.Fatal(err)
	}
	c := node.NewCluster(n, node.Layout{Leaves: leavesOneShardEach(2), Intermediates: 2})
	defer c.Close()
	c.Grace = 250 * time.Millisecond
	res := c.Query("select f from 'm' where " + rng(t0, t0+hourMs-1000) + " group by host")
	if res.Stuck {
		t.Fatalf("the root never completes (transport quiescent, root parked in waitResponse): %v", res.Err)
	}
	if res.Err != nil {
		t.Fatal(res.Err)
	}
	fmt.Println(node.Canonical(res.ResultSet, []string{"host"}))
}

// Groups without any point in the range take part in order by / limit.
func TestReproGroupsWithoutDataHoldResultSlots(t *testing.T) {
	n, t0 := reproNode(t, 1)
	// host a has data in hour 1; b, c, d only in hour 0 - but they live in the same shard, whose hour-1 family exists
	pts := []node.Point{pt("a", t0+hourMs+1000, sumF("f", 5)), pt("b", t0+1000, sumF("f", 1)), pt("c", t0+1000, sumF("f", 1)), pt("d", t0+1000, sumF("f", 1))}
	for _, p := range pts {
		if _, err := n.Write([]node.Point{p}); err != nil {
			t.Fatal(err)
		}
	}
	c := node.NewCluster(n, node.Layout{})
	defer c.Close()
	res := c.Query("select f from 'm' where " + rng(t0+hourMs, t0+2*hourMs-1000) + " group by host order by f limit 2")
	if res.Err != nil || res.Stuck {
		t.Fatal(res.Err, res.Stuck)
	}
	got, _ := toMap(res.ResultSet, []string{"host"})
	if len(got) != 1 || got["a"] == nil {
		t.Fatalf("one host has data in the range, limit 2 must return it; got %d series:\n%s", len(got), node.Canonical(res.ResultSet, []string{"host"}))
	}
}

// The same points give another answer with 1 shard than with 8 shards: `s2 * sum(s1)` for a host that never wrote s2.
func TestReproBinaryOperandWithoutDataDependsOnShardCount(t *testing.T) {
	if os.Getenv("C12_REPRO") == "" {
		t.Skip("set C12_REPRO=1")
	}
	a, b := hostsOnDistinctShards(t, 8)
	var canon []string
	for _, shards := range []int{1, 8} {
		func() {
			dir, _ := os.MkdirTemp("", "c12repro")
			defer os.RemoveAll(dir)
			n, err := node.Open(node.Options{Dir: dir, ShardIDs: shardIDs(shards)})
			if err != nil {
				t.Fatal(err)
			}
			defer n.Close()
			now := time.Now().UnixMilli()
			t0 := now - now%hourMs - 5*hourMs
			// a writes s1 only; b writes s1 and s2
			if _, err := n.Write([]node.Point{pt(a, t0+1000, sumF("s1", 3)), pt(b, t0+1000, sumF("s1", 4), sumF("s2", 2))}); err != nil {
				t.Fatal(err)
			}
			if err := n.FlushAll(); err != nil { // table files: a block carries the fields of all series written into it
				t.Fatal(err)
			}
			c := node.NewCluster(n, node.Layout{})
			defer c.Close()
			res := c.Query("select s2 * sum(s1) as x from 'm' where " + rng(t0, t0+hourMs-1000) + " group by host")
			if res.Err != nil || res.Stuck {
				t.Fatal(res.Err, res.Stuck)
			}
			canon = append(canon, node.Canonical(res.ResultSet, []string{"host"}))
		}()
	}
	if canon[0] != canon[1] {
		t.Fatalf("1 shard:\n%s\n8 shards:\n%s", canon[0], canon[1])
	}
}

// An intermediate node plans the statement again on the truncated range: other interval than the direct plan.
func TestReproIntermediateRecomputesInterval(t *testing.T) {
	n, t0 := reproNode(t, 2)
	a, b := hostsOnDistinctShards(t, 2)
	if _, err := n.Write([]node.Point{pt(a, t0+5000, sumF("f", 1)), pt(a, t0+15000, sumF("f", 2)), pt(b, t0+25000, sumF("f", 4))}); err != nil {
		t.Fatal(err)
	}
	// raw range 2h59m58s (< 3h: 10s interval), truncated range 3h (>= 3h: 30s interval)
	sql := "select f from 'm' where " + rng(t0-58_000, t0-60_000+3*hourMs) + " group by host"
	var canon []string
	for _, inter := range []int{0, 1} {
		c := node.NewCluster(n, node.Layout{Leaves: leavesOneShardEach(2), Intermediates: inter})
		res := c.Query(sql)
		c.Close()
		if res.Err != nil || res.Stuck {
			t.Fatal(res.Err, res.Stuck)
		}
		canon = append(canon, node.Canonical(res.ResultSet, []string{"host"}))
	}
	if canon[0] != canon[1] {
		t.Fatalf("%s\ndirect plan:\n%s\nthrough one intermediate node:\n%s", sql, canon[0], canon[1])
	}
}

type notFoundTransport struct{ taskMgr lquery.TaskManager }

func (tr *notFoundTransport) SendRequest(target string, req *protoCommonV1.TaskRequest) error {
	// the storage node does not know the metric; its answer is handled (inline pool) before SendRequest returns
	return tr.taskMgr.Receive(&protoCommonV1.TaskResponse{RequestID: req.RequestID, Completed: true, ErrMsg: "metric not found, metric: m"}, target)
}
func (tr *notFoundTransport) SendResponse(string, *protoCommonV1.TaskResponse) error { return nil }

// The only storage node answers "metric not found" before the root has finished its request pipeline: the root returns
// an empty result without error. No engine data needed: real root (MetricDataSearch, task manager), the leaf's answer is canned.
func TestReproErrorLostWhenResponseIsHandledBeforeSendCompletes(t *testing.T) {
	n, t0 := reproNode(t, 1)
	c := node.NewCluster(n, node.Layout{}) // lends the chooser (one target)
	defer c.Close()
	st, err := sql.Parse("select f from 'm' where " + rng(t0, t0+hourMs-1000))
	if err != nil {
		t.Fatal(err)
	}
	taskMgr := lquery.NewTaskManager(inlinePool{}, linmetric.BrokerRegistry)
	ctx, cancel := context.WithTimeout(context.Background(), 20*time.Second)
	defer cancel()
	rs, qerr := lquery.MetricDataSearch(ctx, &models.ExecuteParam{Database: n.Opts.Database, SQL: "x"}, st.(*stmt.Query),
		&lquery.SearchMgr{Timeout: 20 * time.Second, CurNode: models.StatelessNode{HostIP: "10.0.0.9", GRPCPort: 9000}, Choose: c.Chooser(), TaskMgr: taskMgr,
			TransportMgr: &notFoundTransport{taskMgr: taskMgr}})
	if qerr == nil {
		set, _ := rs.(*commonmodels.ResultSet)
		t.Fatalf("the only storage node answered 'metric not found'; MetricDataSearch returned no error and %d series", len(set.Series))
	}
	if !strings.Contains(qerr.Error(), "not found") {
		t.Fatal(qerr)
	}
}

// Two storage nodes with their own metadata: node 2 has never seen field f2, its f1 data is missing from `select f1, f2`.
func TestReproIsolatedLeafNotFoundDropsItsData(t *testing.T) {
	n, t0 := reproNode(t, 2)
	a, b := hostsOnDistinctShards(t, 2)
	iso, err := newIsoPlacement(n, "iso", 2, [][]models.ShardID{{0}, {1}})
	if err != nil {
		t.Fatal(err)
	}
	if err := iso.write([]node.Point{pt(a, t0+1000, sumF("f1", 1), sumF("f2", 10)), pt(b, t0+1000, sumF("f1", 2))}); err != nil {
		t.Fatal(err)
	}
	c := node.NewCluster(n, iso.layout(0))
	iso.attach(c, nil)
	defer func() { c.Close(); iso.detach() }()
	res := c.Query("select f1, f2 from 'm' where " + rng(t0, t0+hourMs-1000))
	if res.Err != nil || res.Stuck {
		t.Fatal(res.Err, res.Stuck)
	}
	got, _ := toMap(res.ResultSet, nil)
	if v := got[""]["f1"][t0]; v != 3 {
		t.Fatalf("f1 = %v, want 3 (1 on node 1 + 2 on node 2):\n%s", v, node.Canonical(res.ResultSet, nil))
	}
}

// select * over two storage nodes that know different fields: the result depends on which response arrives first.
func TestReproSelectAllFieldsFirstResponseDecides(t *testing.T) {
	n, t0 := reproNode(t, 2)
	a, b := hostsOnDistinctShards(t, 2)
	iso, err := newIsoPlacement(n, "iso", 2, [][]models.ShardID{{0}, {1}})
	if err != nil {
		t.Fatal(err)
	}
	if err := iso.write([]node.Point{pt(a, t0+1000, sumF("f1", 1)), pt(b, t0+1000, sumF("f1", 2), sumF("f2", 20))}); err != nil {
		t.Fatal(err)
	}
	var canon []string
	for _, perm := range [][]int{{0, 1}, {1, 0}} {
		c := node.NewCluster(n, iso.layout(0))
		iso.attach(c, nil)
		leaf := map[string]bool{}
		for _, id := range c.LeafIDs() {
			leaf[id] = true
		}
		c.SetScheduler(&permScheduler{Leaf: leaf, Perm: perm, Strict: true})
		res := c.Query("select * from 'm' where " + rng(t0, t0+hourMs-1000))
		c.Close()
		iso.detach()
		if res.Err != nil || res.Stuck {
			t.Fatal(res.Err, res.Stuck)
		}
		canon = append(canon, node.Canonical(res.ResultSet, nil))
	}
	if canon[0] != canon[1] || !strings.Contains(canon[0], "|f2|") {
		t.Fatalf("responses delivered in order 0,1:\n%s\nin order 1,0:\n%s", canon[0], canon[1])
	}
}

// Statistical: a range over several data families of one shard; the data load stages of the families run in parallel
// and each ends with "if PendingDataLoadTasks == 0 then reduce" (query/operator/leaf_reduce.go): two stages can both
// see 0 and reduce the shared aggregators twice - sum fields double. C12_REPRO_LOOPS (default 30000) queries.
func TestReproLeafReduceRunsTwice(t *testing.T) {
	n, t0 := reproNode(t, 1)
	var pts []node.Point
	for h := int64(0); h < 3; h++ {
		pts = append(pts, pt("a", t0+h*hourMs+1000, sumF("f", 1)))
	}
	for _, p := range pts {
		if _, err := n.Write([]node.Point{p}); err != nil {
			t.Fatal(err)
		}
	}
	c := node.NewCluster(n, node.Layout{})
	defer c.Close()
	loops := 30000
	if v := os.Getenv("C12_REPRO_LOOPS"); v != "" {
		fmt.Sscan(v, &loops)
	}
	sql := "select f from 'm' where " + rng(t0, t0+3*hourMs-1000) + " group by time(1h)"
	bad := 0
	for i := 0; i < loops; i++ {
		res := c.Query(sql)
		if res.Err != nil || res.Stuck {
			t.Fatal(res.Err, res.Stuck)
		}
		got, _ := toMap(res.ResultSet, nil)
		for ts, v := range got[""]["f"] {
			if v != 1 {
				bad++
				if bad < 4 {
					t.Errorf("query %d: f@%s = %v, want 1", i, node.FormatTime(ts), v)
				}
			}
		}
	}
	if bad > 0 {
		t.Errorf("%d wrong values in %d queries", bad, loops)
	}
}
