package main

// Directed scenario "infinitely fast transport": the root's request pipeline (plan -> one send per target, executed inline
// by the goroutine that calls MetricDataSearch) runs over a transport whose SendRequest returns only after the real leaf
// has answered and the root's task manager has handled the response. Every response is therefore handled BEFORE the
// request pipeline of the root completes - the extreme of "any arrival order of the leaf responses".

import (
	"context"
	"fmt"
	"strings"
	"sync"
	"time"

	commonmodels "github.com/lindb/common/models"
	commontimeutil "github.com/lindb/common/pkg/timeutil"
	"google.golang.org/grpc"

	"github.com/lindb/lindb/flow"
	"github.com/lindb/lindb/internal/concurrent"
	"github.com/lindb/lindb/internal/linmetric"
	"github.com/lindb/lindb/models"
	protoCommonV1 "github.com/lindb/lindb/proto/gen/v1/common"
	lquery "github.com/lindb/lindb/query"
	"github.com/lindb/lindb/sql"
	"github.com/lindb/lindb/sql/stmt"
	"github.com/lindb/lindb/tsdb"
	"github.com/lindb/lindb/verif/internal/node"
)

// inlinePool runs a submitted task in the caller's goroutine.
type inlinePool struct{}

func (inlinePool) Submit(_ context.Context, task *concurrent.Task) {
	if task != nil {
		task.Exec()
	}
}
func (inlinePool) Stopped() bool { return false }
func (inlinePool) Stop()         {}

type syncStream struct {
	grpc.ServerStream
	send func(resp *protoCommonV1.TaskResponse)
}

func (s *syncStream) Context() context.Context { return context.Background() }
func (s *syncStream) Send(resp *protoCommonV1.TaskResponse) error {
	s.send(resp)
	return nil
}
func (s *syncStream) Recv() (*protoCommonV1.TaskRequest, error) { return nil, fmt.Errorf("not used") }

type syncFactory struct{ st *syncStream }

func (f *syncFactory) GetStream(string) protoCommonV1.TaskService_HandleServer { return f.st }
func (f *syncFactory) Register(string, protoCommonV1.TaskService_HandleServer) int64 {
	return 0
}
func (f *syncFactory) Deregister(int64, string) bool { return true }
func (f *syncFactory) Nodes() []models.Node          { return nil }

// syncTransport is the rpc.TransportManager of the root in the directed scenario.
type syncTransport struct {
	engine  tsdb.Engine
	taskMgr lquery.TaskManager
	leaves  map[string]models.StatelessNode

	mu       sync.Mutex
	errs     int
	answers  int
	watchdog bool
}

func (t *syncTransport) SendRequest(target string, req *protoCommonV1.TaskRequest) error {
	leafNode, ok := t.leaves[target]
	if !ok {
		return fmt.Errorf("unknown target %s", target)
	}
	done := make(chan struct{})
	var once sync.Once
	deliver := func(resp *protoCommonV1.TaskResponse) {
		t.mu.Lock()
		t.answers++
		if resp.ErrMsg != "" {
			t.errs++
		}
		t.mu.Unlock()
		// the root's task manager handles the response right here (inline worker pool)
		_ = t.taskMgr.Receive(resp, target)
		once.Do(func() { close(done) })
	}
	st := &syncStream{send: deliver}
	n := leafNode
	leaf := lquery.NewLeafTaskProcessor(&n, t.engine, &syncFactory{st: st})
	taskCtx := flow.NewTaskContextWithTimeout(context.Background(), 60*time.Second)
	if err := leaf.Process(taskCtx, st, req); err != nil {
		// what query.TaskHandler does with a processing error
		deliver(&protoCommonV1.TaskResponse{RequestID: req.RequestID, Completed: true, ErrMsg: err.Error(), SendTime: commontimeutil.NowNano()})
	}
	select {
	case <-done:
	case <-time.After(60 * time.Second):
		t.mu.Lock()
		t.watchdog = true
		t.mu.Unlock()
	}
	return nil
}

func (t *syncTransport) SendResponse(string, *protoCommonV1.TaskResponse) error { return nil }

// runFastTransport runs every statement of the data set over the synchronous transport on the given partition of the
// shards and judges the answers against the references.
func (r *runner) runFastTransport(l layoutSpec) {
	// the loopback cluster only lends its chooser (plans, database config); nothing is sent through it
	c := node.NewCluster(r.n, l.nodeLayout())
	defer c.Close()
	leaves := map[string]models.StatelessNode{}
	for _, id := range c.LeafIDs() {
		if parsed, err := models.ParseNode(id); err == nil {
			if sn, ok := parsed.(*models.StatelessNode); ok {
				leaves[id] = *sn
			}
		}
	}
	root := models.StatelessNode{HostIP: "10.0.0.9", GRPCPort: 9000}
	r.res.count("layouts.fast-transport", 1)
	for _, q := range r.queries {
		base := r.base[q.ID]
		if base == nil || base.Skip != "" {
			continue
		}
		st, err := sql.Parse(q.SQLText)
		if err != nil {
			continue
		}
		statement, ok := st.(*stmt.Query)
		if !ok {
			continue
		}
		taskMgr := lquery.NewTaskManager(inlinePool{}, linmetric.BrokerRegistry)
		tr := &syncTransport{engine: r.n.Engine, taskMgr: taskMgr, leaves: leaves}
		ctx, cancel := context.WithTimeout(context.Background(), 90*time.Second)
		rs, qerr := lquery.MetricDataSearch(ctx, &models.ExecuteParam{Database: r.n.Opts.Database, SQL: q.SQLText}, statement,
			&lquery.SearchMgr{Timeout: 90 * time.Second, CurNode: root, Choose: c.Chooser(), TaskMgr: taskMgr, TransportMgr: tr})
		cancel()
		r.res.Evals++
		r.res.count("runs", 1)
		r.res.count("runs.fast_transport_every_response_handled_before_the_request_pipeline_completes", 1)
		if tr.watchdog || ctx.Err() == context.DeadlineExceeded {
			r.res.Notes = append(r.res.Notes, "watchdog: fast transport: "+q.SQLText)
			continue
		}
		res := &node.QueryResult{SQL: q.SQLText, Statement: statement, Err: qerr}
		if set, ok := rs.(*commonmodels.ResultSet); ok {
			res.ResultSet = set
		}
		out := &outcome{Shape: "direct"}
		r.judge(out, l, q, res, "direct", tr.errs, len(leaves))
		if out.Class == "" {
			continue
		}
		switch {
		case strings.HasPrefix(out.Class, "C12/order-by-limit/groups-without-data"), strings.HasPrefix(out.Class, "C12/no-data/"):
			// understood mechanisms that do not depend on the transport
		case out.Class == "C12/error-lost/every-leaf-answered-not-found-but-the-root-answers-empty":
			out.Class = "C12/error-lost/response-handled-before-the-request-pipeline-completed"
			out.Problem += "; every leaf answered with a not-found error and each answer was handled before the root finished sending: baseTaskContext.Complete(nil) then wiped the error"
		default:
			out.Class += "/fast-transport"
		}
		msg := fmt.Sprintf("data set %d, %d shards, %s, transport that hands every response to the root before SendRequest returns; %s\n%s", r.ds.Index, r.shards, l, q.SQLText, out.Problem)
		r.res.violation(out.Class, msg, r.witness(l, q, []*outcome{out}))
	}
}
