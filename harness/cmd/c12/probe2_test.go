package main

import (
	"fmt"
	"os"
	"testing"

	"github.com/lindb/lindb/models"
	"github.com/lindb/lindb/verif/internal/node"
)

func TestProbeOrder(t *testing.T) {
	dir, _ := os.MkdirTemp("", "c12probe")
	defer os.RemoveAll(dir)
	n, err := node.Open(node.Options{Dir: dir, ShardIDs: []models.ShardID{0}})
	if err != nil {
		t.Fatal(err)
	}
	defer n.Close()
	t0 := probeBase()
	var pts []node.Point
	for i := 0; i < 6; i++ {
		for k := 0; k < 3; k++ {
			pts = append(pts, node.Point{Metric: "m", Tags: map[string]string{"host": fmt.Sprintf("h%d", i)}, Timestamp: t0 + int64(k)*10_000,
				Fields: []node.Field{{Name: "s1", Type: node.Sum, Value: float64(i + k)}, {Name: "s2", Type: node.Sum, Value: float64(10 - i)}}})
		}
	}
	if _, err := n.Write(pts); err != nil {
		t.Fatal(err)
	}
	rng := fmt.Sprintf("time >= '%s' and time <= '%s'", node.FormatTime(t0), node.FormatTime(t0+3600_000-1000))
	c := node.NewCluster(n, node.Layout{})
	defer c.Close()
	for _, sql := range []string{
		"select s1 from 'm' where " + rng + " group by host order by last(s1) limit 4",
		"select s1 from 'm' where " + rng + " group by host order by last(s1) desc limit 4",
		"select s1,s2 from 'm' where " + rng + " group by host order by last(s1) limit 4",
		"select s1, s2*2 as a from 'm' where " + rng + " group by host order by last(s1) limit 4",
		"select s1, s2*2 as a from 'm' where " + rng + " group by host order by max(s1) limit 4",
		"select s1, s2*2 as a from 'm' where " + rng + " group by host order by s1 limit 8",
		"select s1, (max(s2) - s1)*2 as a from 'm' where " + rng + " group by host order by last(s1) limit 8",
		"select s1, (max(s2) - s1)*2 as a from 'm' where " + rng + " group by host order by first(s1) limit 8",
		"select s1, (max(s2) - s1)*2 as a from 'm' where " + rng + " group by host order by sum(s1) limit 8",
	} {
		res := c.Query(sql)
		fmt.Printf("%s\n   err=%v stuck=%v\n   %s\n", sql, res.Err, res.Stuck, indent(node.Canonical(res.ResultSet, []string{"host"})))
	}
}
