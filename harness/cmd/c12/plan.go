package main

import (
	"fmt"
	"sort"
	"strings"

	"github.com/lindb/common/pkg/encoding"
	"github.com/lindb/lindb/flow"
	"github.com/lindb/lindb/models"
	"github.com/lindb/lindb/verif/internal/core"
)

// The compute-target plan ("with/without intermediate nodes"): whether a group-by query is answered at all depends on the
// plan flow.BuildPhysicalPlan hands to the root. query/intermediate_processor.go Process runs the statement only on the
// target that is not ReceiveOnly - that target asks the leaves, every other target only receives - so a plan is usable
// only when, whatever the number of live brokers and whatever the internal (time seeded) shuffle draws,
//   - it names min(live, requested) distinct targets, all of them live brokers,
//   - exactly one of them executes (ReceiveOnly=false) whenever there is a target at all,
//   - it still says so after the JSON round trip it makes to the targets,
//   - it carries the database it was asked for and passes PhysicalPlan.Validate once the root added itself as receiver,
//   - the caller's list of live nodes still holds exactly the nodes that were passed (BuildPhysicalPlan shuffles it in place;
//     the state manager hands out a copy, the list may be re-ordered but not corrupted).
//
// checkPlans calls the real function for every (live, requested) of planLive x planRequested, `draws` times each (the
// shuffle inside is seeded from the clock: the draws are lindb's, not the harness's - the oracle is structural and holds
// for every draw). Layouts with more live brokers than requested targets (a broker cluster of > 5 nodes for group by, any
// cluster of > 1 nodes for coordinator/root's Choose(database, 1)) are the ones where a target is left out.

const (
	planMaxLive      = 10
	planMaxRequested = 6
)

type planStats struct {
	executing map[string]bool // live node -> seen as the executing target
	tuples    map[string]bool // distinct ordered target lists
	leftOut   map[string]bool // live node -> seen left out of a plan
}

// planProblem is one structural defect of a plan: class suffix + message.
type planProblem struct{ class, msg string }

// judgePlan applies the structural oracle to one plan built for (database, live nodes as passed, requested).
func judgePlan(plan *models.PhysicalPlan, database string, passed, after []models.StatelessNode, requested int) (problems []planProblem, executing []string) {
	bad := func(class, format string, args ...interface{}) {
		problems = append(problems, planProblem{class, fmt.Sprintf(format, args...)})
	}
	if plan == nil {
		bad("no-plan", "BuildPhysicalPlan returned nil")
		return problems, nil
	}
	if plan.Database != database {
		bad("database-name-changed", "plan carries database %q, asked for %q", plan.Database, database)
	}
	want := len(passed)
	if requested < want {
		want = requested
	}
	if len(plan.Targets) != want {
		bad("number-of-targets", "plan has %d targets, want min(live=%d, requested=%d)=%d", len(plan.Targets), len(passed), requested, want)
	}
	live := map[string]bool{}
	for _, n := range passed {
		live[n.Indicator()] = true
	}
	seen := map[string]bool{}
	for _, t := range plan.Targets {
		if t == nil {
			bad("nil-target", "plan holds a nil target")
			continue
		}
		if !live[t.Indicator] {
			bad("target-is-not-a-live-node", "target %q is not one of the live nodes %v", t.Indicator, indicators(passed))
		}
		if seen[t.Indicator] {
			bad("target-chosen-twice", "target %q appears twice in the plan %s", t.Indicator, planString(plan))
		}
		seen[t.Indicator] = true
		if !t.ReceiveOnly {
			executing = append(executing, t.Indicator)
		}
		if len(t.ShardIDs) != 0 {
			bad("compute-target-with-shards", "compute target %q carries shard ids %v", t.Indicator, t.ShardIDs)
		}
	}
	if len(plan.Targets) > 0 {
		switch {
		case len(executing) == 0:
			bad("no-executing-target", "every one of the %d targets is ReceiveOnly: no target runs the statement, no leaf is asked, the root never gets an answer; plan %s",
				len(plan.Targets), planString(plan))
		case len(executing) > 1:
			bad("several-executing-targets", "%d targets execute the statement (%v): every leaf is asked %d times and the root merges every group %d times; plan %s",
				len(executing), executing, len(executing), len(executing), planString(plan))
		}
	}
	// the caller's list: same nodes as passed (any order)
	if a, b := sortedIndicators(passed), sortedIndicators(after); strings.Join(a, ",") != strings.Join(b, ",") {
		bad("live-node-list-corrupted", "the caller's list of live nodes was %v and is %v after the call", indicators(passed), indicators(after))
	}
	// what the targets receive: the plan after the JSON round trip, with the root as receiver
	if len(plan.Targets) > 0 && len(problems) == 0 {
		cp := &models.PhysicalPlan{Database: plan.Database, Targets: plan.Targets}
		cp.AddReceiver("10.0.0.1:9000")
		if err := cp.Validate(); err != nil {
			bad("plan-does-not-validate", "plan %s with a receiver does not validate: %v", planString(plan), err)
		}
		wire := &models.PhysicalPlan{}
		if err := encoding.JSONUnmarshal(encoding.JSONMarshal(cp), wire); err != nil {
			bad("plan-lost-on-the-wire", "plan %s does not survive its JSON encoding: %v", planString(plan), err)
		} else if planString(wire) != planString(cp) {
			bad("plan-lost-on-the-wire", "plan %s arrives as %s after its JSON encoding", planString(cp), planString(wire))
		}
	}
	return problems, executing
}

func indicators(nodes []models.StatelessNode) []string {
	out := make([]string, 0, len(nodes))
	for i := range nodes {
		out = append(out, nodes[i].Indicator())
	}
	return out
}

func sortedIndicators(nodes []models.StatelessNode) []string {
	out := indicators(nodes)
	sort.Strings(out)
	return out
}

func planString(p *models.PhysicalPlan) string {
	if p == nil {
		return "<nil>"
	}
	var parts []string
	for _, t := range p.Targets {
		if t == nil {
			parts = append(parts, "<nil>")
			continue
		}
		mode := "executes"
		if t.ReceiveOnly {
			mode = "receive-only"
		}
		parts = append(parts, t.Indicator+"("+mode+")")
	}
	return fmt.Sprintf("{db=%s targets=[%s] receivers=%v}", p.Database, strings.Join(parts, " "), p.Receivers)
}

// buildPlan calls the real function; a panic becomes a problem instead of killing the engine.
func buildPlan(database string, live []models.StatelessNode, requested int) (plan *models.PhysicalPlan, panicked string) {
	defer func() {
		if r := recover(); r != nil {
			panicked = fmt.Sprint(r)
		}
	}()
	return flow.BuildPhysicalPlan(database, live, requested), ""
}

// checkPlans is the plan-structure part of the engine (runs in the parent: BuildPhysicalPlan is a pure function of its
// arguments and the clock).
func checkPlans(c *core.Ctx) {
	rnd := c.Rand("compute-plans")
	draws := c.Pick(150, 1500)
	for live := 0; live <= planMaxLive; live++ {
		for requested := 1; requested <= planMaxRequested; requested++ {
			// the live brokers of this case: distinct nodes; in host order (what GetLiveNodes returns) or in random order
			nodes := make([]models.StatelessNode, 0, live)
			used := map[string]bool{}
			for len(nodes) < live {
				n := models.StatelessNode{HostIP: fmt.Sprintf("10.%d.%d.%d", rnd.Intn(4), rnd.Intn(8), 1+rnd.Intn(200)), GRPCPort: uint16(9000 + rnd.Intn(3))}
				if !used[n.Indicator()] {
					used[n.Indicator()] = true
					nodes = append(nodes, n)
				}
			}
			if rnd.Intn(2) == 0 {
				sort.Slice(nodes, func(i, j int) bool { return nodes[i].HostIP < nodes[j].HostIP })
			}
			database := fmt.Sprintf("db_%d_%d", live, requested)
			st := &planStats{executing: map[string]bool{}, tuples: map[string]bool{}, leftOut: map[string]bool{}}
			kind := "live<=requested"
			if live > requested {
				kind = "live>requested"
			}
			for d := 0; d < draws; d++ {
				passed := append([]models.StatelessNode(nil), nodes...)
				arg := append([]models.StatelessNode(nil), nodes...)
				plan, panicked := buildPlan(database, arg, requested)
				c.Eval(1)
				c.Count("compute_plans.built", 1)
				c.Count("compute_plans.built."+kind, 1)
				witness := map[string]interface{}{"live_nodes": indicators(passed), "requested": requested, "database": database, "draw": d, "plan": planString(plan),
					"call": "flow.BuildPhysicalPlan(database, liveNodes, requested)"}
				if panicked != "" {
					c.Violation("C12/compute-plan/panic", fmt.Sprintf("BuildPhysicalPlan(%q, %d live nodes, %d) panicked: %s", database, live, requested, panicked), witness)
					continue
				}
				problems, executing := judgePlan(plan, database, passed, arg, requested)
				for _, p := range problems {
					c.Violation("C12/compute-plan/"+p.class, fmt.Sprintf("BuildPhysicalPlan(%q, %d live nodes, requested %d), draw %d: %s", database, live, requested, d, p.msg), witness)
				}
				if len(problems) > 0 || plan == nil {
					continue
				}
				if len(plan.Targets) > 0 {
					c.Count("compute_plans.with_exactly_one_executing_target", 1)
				} else {
					c.Count("compute_plans.without_targets_because_no_broker_is_live", 1)
				}
				var tuple []string
				in := map[string]bool{}
				for _, t := range plan.Targets {
					tuple = append(tuple, t.Indicator)
					in[t.Indicator] = true
				}
				st.tuples[strings.Join(tuple, ",")] = true
				for _, e := range executing {
					st.executing[e] = true
				}
				for _, n := range passed {
					if !in[n.Indicator()] {
						st.leftOut[n.Indicator()] = true
					}
				}
				if fmt.Sprint(indicators(arg)) != fmt.Sprint(indicators(passed)) {
					c.Count("compute_plans.caller_list_reordered_in_place", 1)
				}
			}
			// what the draws covered: the oracle only means something for "every draw" when the draws differ
			if live >= 1 {
				c.Nontrivial(fmt.Sprintf("plan/live=%d/requested=%d/%d-orders", live, requested, len(st.tuples)))
			}
			if live >= 2 {
				c.Count("compute_plan_cases.live>=2", 1)
				if len(st.executing) == live {
					c.Count("compute_plan_cases.every_live_node_seen_as_the_executing_target", 1)
				}
			}
			if live > requested {
				c.Count("compute_plan_cases.live>requested", 1)
				if len(st.leftOut) == live {
					c.Count("compute_plan_cases.live>requested.every_live_node_seen_left_out", 1)
				}
			}
		}
	}
	// Evidence that the situation was reached (only judged when no plan was refused: a refused plan is a violation and
	// does not count as covered)
	if c.Violations() == 0 {
		if got, want := c.Counter("compute_plan_cases.every_live_node_seen_as_the_executing_target"), c.Counter("compute_plan_cases.live>=2"); got*10 < want*9 {
			c.Inconclusive("BuildPhysicalPlan's draws did not vary: every live node was the executing target in only %d of %d (live, requested) cases", got, want)
		}
		if got, want := c.Counter("compute_plan_cases.live>requested.every_live_node_seen_left_out"), c.Counter("compute_plan_cases.live>requested"); got*10 < want*9 {
			c.Inconclusive("BuildPhysicalPlan's draws did not vary: every live node was left out at least once in only %d of %d cases with more live nodes than requested", got, want)
		}
	}
}
