package main

import (
	"fmt"
	"math"
	"math/rand"
	"sort"
	"strings"

	commonmodels "github.com/lindb/common/models"

	"github.com/lindb/lindb/verif/internal/node"
)

// orderKey is one item of an order by clause. lindb's language (query/context/root_metric_context.go buildOrderBy,
// aggregation/order_by.go, topn.go): `order by f` sorts the groups by the order function of f's field type (sum, min,
// max, last, first) applied over time to the values of the select item whose result name is f; `order by fn(x)` applies
// fn over time to the select item whose result name is x (the rewritten parameter). A group without such an item sorts
// with the value 0. limit keeps the first n groups of that order; groups whose sort values are equal have no defined
// order. Without order by, limit keeps an arbitrary n groups. The kept series are returned sorted by tag values.
type orderKey struct {
	Func string `json:"func"` // "" = bare field
	Arg  string `json:"arg"`  // result name of the select item the values are taken from
	Desc bool   `json:"desc"`
	// FieldType of a bare field (decides the order function)
	FieldType string `json:"field_type,omitempty"`
}

func (k orderKey) sql() string {
	s := k.Arg
	if k.Func != "" {
		s = k.Func + "(" + k.Arg + ")"
	}
	if k.Desc {
		s += " desc"
	}
	return s
}

func (k orderKey) fn() string {
	if k.Func != "" {
		return k.Func
	}
	return k.FieldType // sum|min|max|last|first
}

// query is one generated query: the statement as sent (Q with OrderBy / Limit / AllFields) and its "full" form (no order by,
// no limit), whose result is the reference the kept groups are compared with.
type query struct {
	ID        int         `json:"id"`
	Q         *node.Query `json:"-"`
	OrderBy   []orderKey  `json:"order_by,omitempty"`
	AllFields bool        `json:"all_fields,omitempty"`
	Kind      string      `json:"kind"` // plain | grouped | topn | limit | auto-interval | error | all-fields
	SQLText   string      `json:"sql"`
	FullSQL   string      `json:"full_sql"`
	Limited   bool        `json:"limited"`
	ErrWanted string      `json:"err_wanted,omitempty"`
	full      *node.Query // Q without limit
	exp       *node.Expected
}

func (q *query) grouped() bool { return len(q.Q.GroupBy) > 0 }

func renderSQL(q *node.Query, orderBy []orderKey, allFields bool) string {
	s := q.SQL()
	if allFields {
		// replace the select list by *
		i := strings.Index(s, " from ")
		s = "select *" + s[i:]
	}
	if len(orderBy) > 0 {
		i := strings.LastIndex(s, " limit ")
		var ks []string
		for _, k := range orderBy {
			ks = append(ks, k.sql())
		}
		s = s[:i] + " order by " + strings.Join(ks, ",") + s[i:]
	}
	return s
}

type queryGen struct {
	rnd     *rand.Rand
	ds      *dataSet
	m       *node.Model
	aliasNo int
}

func typeName(t node.FieldType) string { return t.String() }

func (g *queryGen) fieldsOf(ms *metricSpec) []fieldSpec {
	written := g.m.FieldKinds("", ms.Name)
	var out []fieldSpec
	for _, f := range ms.Fields {
		if _, ok := written[f.Name]; ok {
			out = append(out, f)
		}
	}
	if len(ms.Bounds) > 0 && written["HistogramCount"] != "" {
		out = append(out, fieldSpec{"HistogramSum", node.Sum}, fieldSpec{"HistogramCount", node.Sum},
			fieldSpec{"HistogramMin", node.Min}, fieldSpec{"HistogramMax", node.Max})
	}
	return out
}

// fieldExpr reads a field with the aggregate of its own type (bare or through the matching function), or - for sum
// fields - through rate; a field is never read with two aggregate types in one query (used tracks the choice).
func (g *queryGen) fieldExpr(fs []fieldSpec, used map[string]string) node.Expr {
	f := fs[g.rnd.Intn(len(fs))]
	own := map[node.FieldType]string{node.Sum: "sum", node.Min: "min", node.Max: "max", node.Last: "last", node.First: "first"}[f.Type]
	alts := map[node.FieldType][]string{
		node.Sum:   {"sum", "min", "max"},
		node.Last:  {"last", "sum", "min", "max"},
		node.First: {"first", "sum", "min", "max"},
		node.Min:   {"min"},
		node.Max:   {"max"},
	}[f.Type]
	fn, ok := used[f.Name]
	if !ok {
		fn = own
		if g.rnd.Intn(4) == 0 {
			fn = alts[g.rnd.Intn(len(alts))]
		}
		used[f.Name] = fn
	}
	if fn == own {
		switch r := g.rnd.Intn(10); {
		case r < 5:
			return node.FieldRef{Name: f.Name}
		case r < 7 && f.Type == node.Sum:
			return node.Call{Func: "rate", Arg: node.FieldRef{Name: f.Name}}
		}
	}
	return node.Call{Func: fn, Arg: node.FieldRef{Name: f.Name}}
}

func (g *queryGen) alias() string {
	g.aliasNo++
	return fmt.Sprintf("a%d", g.aliasNo)
}

func (g *queryGen) item(ms *metricSpec, fs []fieldSpec, used map[string]string) node.SelectItem {
	hist := len(ms.Bounds) > 0
	ops := []byte{'+', '-', '*', '/'}
	switch r := g.rnd.Intn(100); {
	case hist && r < 35:
		qs := []float64{0.5, 0.9, 0.99, 0.25}
		return node.SelectItem{Expr: node.Quantile{Q: qs[g.rnd.Intn(len(qs))]}, Alias: g.alias()}
	case len(fs) == 0:
		return node.SelectItem{Expr: node.Quantile{Q: 0.9}, Alias: g.alias()}
	case r < 60:
		e := g.fieldExpr(fs, used)
		if _, ok := e.(node.FieldRef); ok {
			return node.SelectItem{Expr: e} // keyed by the field name
		}
		if g.rnd.Intn(2) == 0 {
			return node.SelectItem{Expr: e} // keyed by the rewritten call, e.g. sum(s1)
		}
		return node.SelectItem{Expr: e, Alias: g.alias()}
	case r < 85:
		var e node.Expr = node.Binary{Op: ops[g.rnd.Intn(4)], L: g.fieldExpr(fs, used), R: g.fieldExpr(fs, used)}
		if g.rnd.Intn(3) == 0 {
			e = node.Binary{Op: ops[g.rnd.Intn(4)], L: node.Paren{E: e}, R: node.Number{V: float64(1 + g.rnd.Intn(4))}}
		}
		return node.SelectItem{Expr: e, Alias: g.alias()}
	default:
		if g.rnd.Intn(2) == 0 {
			return node.SelectItem{Expr: node.Binary{Op: ops[g.rnd.Intn(4)], L: g.fieldExpr(fs, used), R: node.Number{V: float64(1 + g.rnd.Intn(9))}}, Alias: g.alias()}
		}
		return node.SelectItem{Expr: node.Binary{Op: ops[g.rnd.Intn(4)], L: node.Number{V: float64(1 + g.rnd.Intn(9))}, R: g.fieldExpr(fs, used)}, Alias: g.alias()}
	}
}

// cond builds a tag condition from tag values that were written for the metric.
func (g *queryGen) cond(ms *metricSpec) node.Cond {
	written := g.m.SeriesTags("", ms.Name)
	var tagged []map[string]string
	for _, s := range written {
		if len(s) > 0 {
			tagged = append(tagged, s)
		}
	}
	if len(tagged) == 0 {
		return nil
	}
	atom := func() node.Cond {
		s := tagged[g.rnd.Intn(len(tagged))]
		keys := make([]string, 0, len(s))
		for k := range s {
			keys = append(keys, k)
		}
		sort.Strings(keys)
		k := keys[g.rnd.Intn(len(keys))]
		v := s[k]
		switch g.rnd.Intn(8) {
		case 0:
			return node.TagCmp{Key: k, Op: "!=", Values: []string{v}}
		case 1, 2:
			o := tagged[g.rnd.Intn(len(tagged))]
			vs := []string{v}
			if ov, ok := o[k]; ok && ov != v {
				vs = append(vs, ov)
			}
			return node.TagCmp{Key: k, Op: "in", Values: vs}
		case 3:
			return node.TagCmp{Key: k, Op: "like", Values: []string{v[:1] + "*"}}
		case 4:
			return node.TagCmp{Key: k, Op: "notin", Values: []string{v}}
		default:
			return node.TagCmp{Key: k, Op: "=", Values: []string{v}}
		}
	}
	switch g.rnd.Intn(5) {
	case 0:
		return node.And{L: atom(), R: atom()}
	case 1, 2:
		return node.Or{L: atom(), R: atom()}
	default:
		return atom()
	}
}

func (g *queryGen) timeRange(q *node.Query, kind string) {
	base := g.ds.Base
	total := int64(dataHours) * hourMs
	if kind == "auto-interval" {
		// a range just below the 3h step of the automatic interval whose truncation to the storage interval reaches 3h:
		// start 1-9s after a slot boundary, end 0-8s after one, raw length in (3h-10s, 3h)
		a := int64(2+g.rnd.Intn(8)) * 1000
		b := int64(g.rnd.Intn(int(a/1000)-1)) * 1000
		q.Start = base - 60_000 + a
		q.End = base - 60_000 + 3*hourMs + b
		return
	}
	switch r := g.rnd.Intn(100); {
	case r < 30:
		q.Start, q.End = base, base+total-1000
	case r < 45:
		h := int64(g.rnd.Intn(dataHours))
		q.Start, q.End = base+h*hourMs, base+(h+1)*hourMs-1000
	case r < 65:
		h := int64(1 + g.rnd.Intn(dataHours-1))
		w := int64(1+g.rnd.Intn(25)) * 60_000
		q.Start, q.End = base+h*hourMs-w, base+h*hourMs+w
	case r < 72:
		// wider than the data, not aligned
		q.Start, q.End = base-int64(g.rnd.Intn(1800))*1000, base+total+int64(g.rnd.Intn(1800))*1000
		if q.End-q.Start >= 3*hourMs-20_000 && q.End-q.Start <= 3*hourMs+20_000 {
			q.End += 60_000 // keep the random ranges away from the step of the automatic interval (own directed kind)
		}
	default:
		pts := g.ds.allPoints()
		p := pts[g.rnd.Intn(len(pts))]
		before := int64(g.rnd.Intn(60)) * slotMs
		after := int64(g.rnd.Intn(180)) * slotMs
		q.Start = p.Timestamp - before
		q.End = p.Timestamp + after
	}
	q.Start = q.Start / 1000 * 1000
	q.End = q.End / 1000 * 1000
	if q.End <= q.Start {
		q.End = q.Start + 60_000
	}
}

func (g *queryGen) interval(q *node.Query) {
	switch r := g.rnd.Intn(100); {
	case r < 35:
	case r < 45:
		q.IntervalMs = 10_000
	case r < 58:
		q.IntervalMs = 30_000
	case r < 75:
		q.IntervalMs = 60_000
	case r < 85:
		q.IntervalMs = 300_000
	case r < 93:
		q.IntervalMs = 3600_000
	case r < 97:
		q.IntervalMs = 20_000
	default:
		q.IntervalMs = 25_000
	}
}

// groupKeys picks group by keys among the tag keys of the metric.
func (g *queryGen) groupKeys(ms *metricSpec, wantMany bool) []string {
	has := map[string]bool{}
	for _, s := range ms.Series {
		for k := range s.Tags {
			has[k] = true
		}
	}
	var pick []string
	if wantMany {
		pick = []string{"host"}
		if g.rnd.Intn(3) == 0 {
			pick = []string{"host", "dc"}
		}
	} else {
		switch g.rnd.Intn(5) {
		case 0:
			pick = []string{"dc"}
		case 1:
			pick = []string{"host", "dc"}
		case 2:
			pick = []string{"app"}
		default:
			pick = []string{"host"}
		}
	}
	// only keys some series of the metric carries (an unknown key is the "error" kind's business)
	var out []string
	for _, k := range pick {
		if has[k] {
			out = append(out, k)
		}
	}
	if len(out) == 0 {
		out = []string{"host"}
	}
	return out
}

// gen generates one query of the given kind (nil when the data set cannot carry it).
func (g *queryGen) gen(id int, kind string) *query {
	ds := g.ds
	ms := &ds.Metrics[0]
	if kind != "topn" && kind != "limit" && kind != "auto-interval" && kind != "multi-agg" && g.rnd.Intn(3) == 0 {
		ms = &ds.Metrics[g.rnd.Intn(len(ds.Metrics))]
	}
	fs := g.fieldsOf(ms)
	if len(fs) == 0 && len(ms.Bounds) == 0 {
		return nil
	}
	q := &node.Query{Metric: ms.Name}
	out := &query{ID: id, Q: q, Kind: kind}
	used := map[string]string{}
	switch kind {
	case "error":
		switch g.rnd.Intn(3) {
		case 0:
			q.Metric = "nosuchmetric"
			q.Items = []node.SelectItem{{Expr: node.FieldRef{Name: "s1"}}}
			out.ErrWanted = "metric"
		case 1:
			q.Items = []node.SelectItem{{Expr: node.FieldRef{Name: "nosuchfield"}}}
			out.ErrWanted = "field"
		default:
			q.Items = []node.SelectItem{g.item(ms, fs, used)}
			q.GroupBy = []string{"nosuchkey"}
			out.ErrWanted = "tag key"
		}
		g.timeRange(q, kind)
	case "multi-agg":
		// one field read with two or more DIFFERENT aggregate types (sum/min/max, plus last/first for such fields): the merged
		// field series then carries several primitive series on the wire (leaf -> root, leaf -> intermediate -> root); the
		// series of the data set are sparse and live in different slots on different shards
		var cand []fieldSpec
		for _, f := range fs {
			if f.Type == node.Sum || f.Type == node.Last || f.Type == node.First {
				cand = append(cand, f)
			}
		}
		if len(cand) == 0 {
			return nil
		}
		f := cand[g.rnd.Intn(len(cand))]
		fns := []string{"sum", "min", "max"}
		switch f.Type {
		case node.Last:
			fns = append(fns, "last")
		case node.First:
			fns = append(fns, "first")
		}
		g.rnd.Shuffle(len(fns), func(a, b int) { fns[a], fns[b] = fns[b], fns[a] })
		n := 2 + g.rnd.Intn(2)
		ref := func(fn string) node.Expr { return node.Call{Func: fn, Arg: node.FieldRef{Name: f.Name}} }
		keys := map[string]bool{}
		add := func(it node.SelectItem) {
			if !keys[it.Key()] {
				keys[it.Key()] = true
				q.Items = append(q.Items, it)
			}
		}
		for i := 0; i < n; i++ {
			switch g.rnd.Intn(4) {
			case 0:
				add(node.SelectItem{Expr: node.FieldRef{Name: f.Name}}) // the type's own aggregate
			case 1:
				add(node.SelectItem{Expr: ref(fns[i%len(fns)])})
			case 2:
				add(node.SelectItem{Expr: ref(fns[i%len(fns)]), Alias: g.alias()})
			default:
				ops := []byte{'-', '+', '*'}
				add(node.SelectItem{Expr: node.Binary{Op: ops[g.rnd.Intn(3)], L: ref(fns[i%len(fns)]), R: ref(fns[(i+1)%len(fns)])}, Alias: g.alias()})
			}
		}
		// make sure two different aggregate types of the field are read
		add(node.SelectItem{Expr: ref(fns[0])})
		add(node.SelectItem{Expr: ref(fns[1]), Alias: g.alias()})
		if g.rnd.Intn(3) == 0 {
			used[f.Name] = "x" // other items leave this field alone
			var others []fieldSpec
			for _, o := range fs {
				if o.Name != f.Name {
					others = append(others, o)
				}
			}
			if len(others) > 0 {
				add(g.item(ms, others, used))
			}
		}
		g.rnd.Shuffle(len(q.Items), func(a, b int) { q.Items[a], q.Items[b] = q.Items[b], q.Items[a] })
		g.timeRange(q, kind)
		g.interval(q)
		if g.rnd.Intn(4) == 0 {
			q.Cond = g.cond(ms)
		}
		if g.rnd.Intn(2) == 0 {
			q.GroupBy = g.groupKeys(ms, false)
		}
	case "all-fields":
		out.AllFields = true
		for _, f := range fs {
			q.Items = append(q.Items, node.SelectItem{Expr: node.FieldRef{Name: f.Name}})
		}
		if len(ms.Bounds) > 0 {
			for _, a := range []struct {
				n string
				v float64
			}{{"p99", 0.99}, {"p95", 0.95}, {"p90", 0.90}, {"mean", 0.50}} {
				q.Items = append(q.Items, node.SelectItem{Expr: node.Quantile{Q: a.v}, Alias: a.n})
			}
		}
		g.timeRange(q, kind)
		g.interval(q)
		if g.rnd.Intn(2) == 0 {
			q.GroupBy = g.groupKeys(ms, false)
		}
	case "topn", "limit":
		// group by host (many groups), a bare sum/min/max field to order by plus other items
		var exact []fieldSpec
		for _, f := range fs {
			if f.Type == node.Sum || f.Type == node.Min || f.Type == node.Max {
				exact = append(exact, f)
			}
		}
		if len(exact) == 0 {
			return nil
		}
		of := exact[g.rnd.Intn(len(exact))]
		own := map[node.FieldType]string{node.Sum: "sum", node.Min: "min", node.Max: "max"}[of.Type]
		used[of.Name] = own
		q.Items = append(q.Items, node.SelectItem{Expr: node.FieldRef{Name: of.Name}})
		keys := map[string]bool{of.Name: true}
		for i := 0; i < g.rnd.Intn(3); i++ {
			it := g.item(ms, fs, used)
			if !keys[it.Key()] {
				keys[it.Key()] = true
				q.Items = append(q.Items, it)
			}
		}
		g.rnd.Shuffle(len(q.Items), func(a, b int) { q.Items[a], q.Items[b] = q.Items[b], q.Items[a] })
		q.GroupBy = g.groupKeys(ms, true)
		g.timeRange(q, kind)
		g.interval(q)
		if g.rnd.Intn(4) == 0 {
			q.Cond = g.cond(ms)
		}
		if kind == "topn" {
			fns := []string{"", "", "sum", "max", "min", "count", "avg", "last", "first"}
			k := orderKey{Func: fns[g.rnd.Intn(len(fns))], Arg: of.Name, Desc: g.rnd.Intn(2) == 0, FieldType: typeName(of.Type)}
			out.OrderBy = append(out.OrderBy, k)
			if g.rnd.Intn(4) == 0 {
				// a second key; sometimes one that names no result series (every group sorts with 0 there)
				k2 := orderKey{Func: []string{"max", "min", "sum"}[g.rnd.Intn(3)], Arg: of.Name, Desc: g.rnd.Intn(2) == 0}
				out.OrderBy = append(out.OrderBy, k2)
			}
		}
		q.Limit = 1 + g.rnd.Intn(4)
		out.Limited = true
	default: // plain, grouped, auto-interval
		ni := 1
		switch r := g.rnd.Intn(10); {
		case r < 3:
		case r < 7:
			ni = 2
		case r < 9:
			ni = 3
		default:
			ni = 4
		}
		keys := map[string]bool{}
		for i := 0; i < ni; i++ {
			it := g.item(ms, fs, used)
			if keys[it.Key()] {
				continue
			}
			keys[it.Key()] = true
			q.Items = append(q.Items, it)
		}
		g.timeRange(q, kind)
		if kind != "auto-interval" {
			g.interval(q)
		} else if g.rnd.Intn(3) == 0 {
			q.IntervalMs = 60_000
		}
		if g.rnd.Intn(3) == 0 {
			q.Cond = g.cond(ms)
		}
		if kind == "grouped" || kind == "auto-interval" {
			q.GroupBy = g.groupKeys(ms, false)
		}
	}
	full := *q
	full.Limit = 0
	out.full = &full
	out.SQLText = renderSQL(q, out.OrderBy, out.AllFields)
	out.FullSQL = renderSQL(&full, nil, out.AllFields)
	out.exp = g.m.Eval(&full)
	return out
}

// genQueries generates the query list of a data set: a fixed mix of kinds.
func genQueries(seed int64, ds *dataSet, m *node.Model, tier string) []*query {
	rnd := rand.New(rand.NewSource(seed*31337 + int64(ds.Index)*7907 + 5))
	g := &queryGen{rnd: rnd, ds: ds, m: m}
	kinds := []string{"plain", "plain", "grouped", "grouped", "grouped", "topn", "topn", "limit", "error", "all-fields", "plain", "grouped"}
	if ds.Index%2 == 0 {
		kinds = append(kinds, "auto-interval")
	}
	kinds = append(kinds, "multi-agg", "multi-agg")
	if tier == "thorough" {
		kinds = append(kinds, "multi-agg", "plain", "grouped", "grouped", "topn", "limit", "grouped")
	}
	var out []*query
	for _, k := range kinds {
		for attempt := 0; attempt < 10; attempt++ {
			if q := g.gen(len(out), k); q != nil {
				out = append(out, q)
				break
			}
		}
	}
	return out
}

// ---------------------------------------------------------------------------------------------
// results as plain maps

// resultMap is group -> item -> timestamp -> value.
type resultMap map[string]map[string]map[int64]float64

type header struct {
	Start, End, Interval int64
}

func toMap(rs *commonmodels.ResultSet, groupBy []string) (resultMap, header) {
	out := resultMap{}
	if rs == nil {
		return out, header{}
	}
	for _, s := range rs.Series {
		g := node.GroupKeyOf(groupBy, s.Tags)
		for item, pts := range s.Fields {
			if len(pts) == 0 {
				continue
			}
			if out[g] == nil {
				out[g] = map[string]map[int64]float64{}
			}
			if out[g][item] == nil {
				out[g][item] = map[int64]float64{}
			}
			for ts, v := range pts {
				out[g][item][ts] = v
			}
		}
	}
	return out, header{rs.StartTime, rs.EndTime, rs.Interval}
}

func (r resultMap) empty() bool { return len(r) == 0 }

func (r resultMap) points() int {
	n := 0
	for _, items := range r {
		for _, pts := range items {
			n += len(pts)
		}
	}
	return n
}

func closeTo(a, b float64) bool {
	if a == b {
		return true
	}
	d := math.Abs(a - b)
	return d <= 1e-9*math.Max(1, math.Max(math.Abs(a), math.Abs(b)))
}

// cellDiff is one difference between a result and the reference result.
type cellDiff struct {
	Kind  string  `json:"kind"` // missing-series | unexpected-series | missing-item | unexpected-item | missing-point | unexpected-point | wrong-value
	Group string  `json:"group"`
	Item  string  `json:"item,omitempty"`
	TS    int64   `json:"ts,omitempty"`
	Got   float64 `json:"got,omitempty"`
	Want  float64 `json:"want,omitempty"`
}

func (d cellDiff) String() string {
	return fmt.Sprintf("%s group=%q item=%s ts=%s got=%v want=%v", d.Kind, d.Group, d.Item, node.FormatTime(d.TS), d.Got, d.Want)
}

// diffMaps compares got with want. onlyGroups restricts the comparison to the groups of got (used for limited queries,
// where the kept subset is checked separately). free(g,item,ts) reports cells where the language leaves the value open
// (several first/last values met): there only presence is compared.
func diffMaps(got, want resultMap, onlyGotGroups bool, free func(g, item string, ts int64) bool) []cellDiff {
	var diffs []cellDiff
	groups := map[string]bool{}
	for g := range got {
		groups[g] = true
	}
	if !onlyGotGroups {
		for g := range want {
			groups[g] = true
		}
	}
	gs := make([]string, 0, len(groups))
	for g := range groups {
		gs = append(gs, g)
	}
	sort.Strings(gs)
	for _, g := range gs {
		gi, wi := got[g], want[g]
		if wi == nil {
			diffs = append(diffs, cellDiff{Kind: "unexpected-series", Group: g})
			continue
		}
		if gi == nil {
			diffs = append(diffs, cellDiff{Kind: "missing-series", Group: g})
			continue
		}
		items := map[string]bool{}
		for it := range gi {
			items[it] = true
		}
		for it := range wi {
			items[it] = true
		}
		its := make([]string, 0, len(items))
		for it := range items {
			its = append(its, it)
		}
		sort.Strings(its)
		for _, it := range its {
			gp, wp := gi[it], wi[it]
			if wp == nil {
				diffs = append(diffs, cellDiff{Kind: "unexpected-item", Group: g, Item: it})
				continue
			}
			if gp == nil {
				diffs = append(diffs, cellDiff{Kind: "missing-item", Group: g, Item: it})
				continue
			}
			tss := map[int64]bool{}
			for ts := range gp {
				tss[ts] = true
			}
			for ts := range wp {
				tss[ts] = true
			}
			order := make([]int64, 0, len(tss))
			for ts := range tss {
				order = append(order, ts)
			}
			sort.Slice(order, func(i, j int) bool { return order[i] < order[j] })
			for _, ts := range order {
				gv, gok := gp[ts]
				wv, wok := wp[ts]
				switch {
				case gok && !wok:
					diffs = append(diffs, cellDiff{Kind: "unexpected-point", Group: g, Item: it, TS: ts, Got: gv})
				case !gok && wok:
					diffs = append(diffs, cellDiff{Kind: "missing-point", Group: g, Item: it, TS: ts, Want: wv})
				case !closeTo(gv, wv):
					if free != nil && free(g, it, ts) {
						continue
					}
					diffs = append(diffs, cellDiff{Kind: "wrong-value", Group: g, Item: it, TS: ts, Got: gv, Want: wv})
				}
			}
		}
	}
	return diffs
}

// ---------------------------------------------------------------------------------------------
// order by / limit oracle

// orderValue computes the sort value of a group from the reference (full) result.
func orderValue(k orderKey, items map[string]map[int64]float64) float64 {
	pts := items[k.Arg]
	if len(pts) == 0 {
		return 0
	}
	tss := make([]int64, 0, len(pts))
	for ts := range pts {
		tss = append(tss, ts)
	}
	sort.Slice(tss, func(i, j int) bool { return tss[i] < tss[j] })
	sum, mn, mx := 0.0, math.Inf(1), math.Inf(-1)
	for _, ts := range tss {
		v := pts[ts]
		sum += v
		mn = math.Min(mn, v)
		mx = math.Max(mx, v)
	}
	switch k.fn() {
	case "sum":
		return sum
	case "min":
		return mn
	case "max":
		return mx
	case "count":
		return float64(len(tss))
	case "avg":
		return sum / float64(len(tss))
	case "last":
		return pts[tss[len(tss)-1]]
	case "first":
		return pts[tss[0]]
	}
	return 0
}

// better reports -1 when a sorts before b, +1 after, 0 when the language leaves their order open.
func compareKeys(keys []orderKey, a, b []float64) int {
	for i, k := range keys {
		switch {
		case closeTo(a[i], b[i]):
			continue
		case (a[i] < b[i]) != k.Desc:
			return -1
		default:
			return 1
		}
	}
	return 0
}

// checkKept checks the groups a limited query kept against the reference result of the full query. emptyCandidates is the
// number of groups that exist (series of the metric matching the condition) but have no data in the range. It returns
// a description of what is wrong ("" = the kept set is one the language allows), whether ties or a missing order left a
// choice, and viaEmpty: the kept set is only explained by groups WITHOUT data taking result slots (they take part in the
// limit with the sort value 0) - which of them exist at the root depends on the layout.
func checkKept(q *query, kept []string, full resultMap, emptyCandidates int) (problem string, ties bool, viaEmpty bool) {
	all := make([]string, 0, len(full))
	for g := range full {
		all = append(all, g)
	}
	sort.Strings(all)
	limit := q.Q.Limit
	keptSet := map[string]bool{}
	for _, g := range kept {
		if _, ok := full[g]; !ok {
			return fmt.Sprintf("kept group %q is not a group of the unlimited result", g), false, false
		}
		keptSet[g] = true
	}
	vals := map[string][]float64{}
	for _, g := range all {
		for _, k := range q.OrderBy {
			vals[g] = append(vals[g], orderValue(k, full[g]))
		}
	}
	zero := make([]float64, len(q.OrderBy))
	sorted := append([]string(nil), all...)
	sort.SliceStable(sorted, func(i, j int) bool { return compareKeys(q.OrderBy, vals[sorted[i]], vals[sorted[j]]) < 0 })
	// valid reports whether keptSet is an admissible result when z groups without data hold result slots
	valid := func(z int) (string, bool) {
		n := limit - z
		if len(all)+z <= limit {
			n = len(all)
		}
		if len(keptSet) != n {
			return fmt.Sprintf("%d groups kept, limit %d over %d groups with data must keep %d", len(keptSet), limit, len(all), limit-z), false
		}
		if n == len(all) {
			return "", false
		}
		if len(q.OrderBy) == 0 {
			return "", true
		}
		tie := false
		if n > 0 {
			cut := vals[sorted[n-1]]
			for _, g := range all {
				c := compareKeys(q.OrderBy, vals[g], cut)
				switch {
				case c < 0 && !keptSet[g]:
					return fmt.Sprintf("group %q (sort values %v) sorts before the cut %v but was not kept; kept %v", g, vals[g], cut, kept), false
				case c > 0 && keptSet[g]:
					return fmt.Sprintf("group %q (sort values %v) sorts after the cut %v but was kept; kept %v", g, vals[g], cut, kept), false
				case c == 0 && !keptSet[g]:
					tie = true
				}
			}
		}
		if z > 0 {
			for _, g := range all {
				if !keptSet[g] && compareKeys(q.OrderBy, vals[g], zero) < 0 {
					return fmt.Sprintf("group %q (sort values %v) sorts before a group without data but was not kept", g, vals[g]), false
				}
			}
		}
		return "", tie
	}
	first, tie := valid(0)
	if first == "" {
		return "", tie, false
	}
	for z := 1; z <= emptyCandidates && z <= limit; z++ {
		if p, t := valid(z); p == "" {
			return "", t, true
		}
	}
	return first, false, false
}

// keptVerdict judges the kept groups of a limited statement. visibleLenient is the number of groups in the answer whose
// only values are binary expressions with an operand without data (lindb fabricates them with 0: such a group is a real
// row for lindb's limit, the open C12/no-data cause); candidates the number of groups that may exist without any data.
// kind: "" = admissible over the groups with data; "lenient" = admissible only because visible groups of the first kind
// hold result slots; "empty" = admissible only if invisible groups without data hold result slots (the repaired defect).
func keptVerdict(q *query, kept []string, solid resultMap, visibleLenient, candidates int) (problem string, ties bool, kind string) {
	problem, ties, via := checkKept(q, kept, solid, visibleLenient)
	if problem == "" {
		if via {
			return "", ties, "lenient"
		}
		return "", ties, ""
	}
	p2, t2, via2 := checkKept(q, kept, solid, candidates)
	if p2 == "" && via2 {
		return "", t2, "empty"
	}
	return problem, false, ""
}

const lenientSlotClass = "C12/no-data/limit-slot-held-by-a-group-whose-only-values-are-binary-expressions-with-an-operand-without-data"
