// C12 — Query results do not depend on sharding, node placement or response order.
//
// One data set (generated schema, points, ingestion calls, one flush placement) is written through the real routing
// (BrokerBatchRows.NewShardGroupIterator) into engines with 1, 2, 3, 4 and 8 shards - one child process per data set
// and shard count. The child with one shard establishes the reference of every generated SQL statement (one shard, one
// leaf, in-order delivery) and compares it with the naive model of internal/node. The other children put loopback
// clusters (internal/node: real NewLeafTaskProcessor / NewIntermediateTaskProcessor / MetricDataSearch, real protobuf
// messages) around their engine in many layouts - shards partitioned over leaves, with and without intermediate
// brokers, plans as the chooser / flow.BuildPhysicalPlan really builds them - deliver the leaf responses in every
// permutation (<= 4 responses) or in seeded random permutations with delays, and require the reference result.
//
// Beyond the design entry: "isolated metadata" placements give every leaf a database of its own inside the engine (own
// metric/field/tag metadata, like a production storage node), see iso.go.
//
// Beyond the design entry as well: a directed "infinitely fast transport" scenario (directed.go: every response is handled
// before the root's request pipeline completes), the observation of what the leaves send to several compute targets
// (run.go checkSplit), retries that separate non-repeating differences (a race inside one leaf, a lost error) from
// differences caused by the layout.
//
// Beyond the design entry as well (plan.go): the compute plans themselves. The real flow.BuildPhysicalPlan is called for
// 0..10 live brokers x 1..6 requested targets and every plan is judged structurally (exactly one executing target, ...);
// end to end, layouts with more live brokers than compute targets (1 of 3, 1 of 7: must equal the reference; 5 of 6, 5 of
// 8: the executing target must be seen asking every leaf once) - a run in which nobody asked the leaves has its own class.
//
// Files: dataset.go (data sets), query.go (statements, order by / limit oracle), layout.go (partitions, delivery orders,
// plan recording), plan.go (compute plan oracle), run.go (child: reference, layouts, judging, classification), iso.go, directed.go, repro_test.go
// (minimal reproductions of the findings, C12_REPRO=1), suggested-fixes.patch (validated against the engine).
//
// Debugging one case by hand:
//
//	LOG_LEVEL=fatal TZ=UTC VERIF_SEED=1 C12_BASE=<unix ms of the base hour> bin/c12 case <data set> 1 <dir> quick <dir>/base.json
//	... bin/c12 case <data set> <shards> <dir2> quick <dir>/base.json
//
// C12_ONLY_LAYOUT=<substring of the layout description>, C12_NO_ISOLATED=1, C12_VERBOSE=1 (prints the child's result);
// C12_EXTRA_SQL="sql;sql" runs statements after loading and prints leaf answers and results, on the layout
// C12_EXTRA_LAYOUT="0,1|2,3" (default: all shards on one leaf), C12_EXTRA_INTER=<n>, C12_EXTRA_PERM="1,0".
// C12_NO_EXTRA=1 leaves out the layouts with more live brokers than compute targets (timing; the parent then reports inconclusive).
// Parent: C12_DATASETS=<n>, C12_FIRST=<index of the first data set>.
package main

import (
	"encoding/json"
	"fmt"
	"os"
	"path/filepath"
	"runtime"
	"runtime/debug"
	"strconv"
	"strings"
	"time"

	"github.com/lindb/lindb/verif/internal/core"
)

var shardCounts = []int{2, 3, 4, 8}

// baseTime is the start of the first data hour: the three data hours end at least one hour before the current hour
// (far from the write window of one day and from retention).
func baseTime() int64 {
	if v := os.Getenv("C12_BASE"); v != "" {
		if b, err := strconv.ParseInt(v, 10, 64); err == nil {
			return b
		}
	}
	now := time.Now().UnixMilli()
	cur := now - now%hourMs
	return cur - int64(dataHours+2)*hourMs
}

type job struct {
	ds, shards int
}

func main() {
	if len(os.Args) > 1 && os.Args[1] == "case" {
		runCaseChild()
		return
	}
	c := core.New("C12", "exploration")
	c.SetRule("one case = one SQL statement sent through one physical layout of one data set under one delivery order of the leaf responses. " +
		"Data set: 1-3 metrics (sum/min/max/last/first fields, histograms, 4-9 series with host/dc/app tags, a series without tags, series " +
		"writing only some fields), 3 hours, points written in 1-10 point ingestion calls, nothing / everything / the first part flushed - identical in " +
		"every layout. Layouts: 1,2,3,4,8 shards routed by the real hash; all shards on one leaf, split in two, one and rest, three leaves, four " +
		"leaves, one shard per leaf, a leaf made of the shards without series of the metric, a leaf made of the shards without data; 0, 1 or 2 " +
		"intermediate brokers; every leaf on the shared database or on a database of its own (isolated metadata). Delivery: every permutation " +
		"for <= 4 leaves (each response handled completely before the next is delivered), seeded random permutations with 0-2ms delays above; " +
		"plus, for 2 shards, a transport that hands every response to the root before SendRequest returns. " +
		"More live brokers than compute targets: one target picked by flow.BuildPhysicalPlan among 3 / 7 live brokers (must equal the reference), " +
		"5 targets of 6 / 8 live brokers (observed: the plan, which target executes, how many requests every leaf got). " +
		"Compute plans: the real flow.BuildPhysicalPlan for 0..10 live brokers x 1..6 requested targets, 150 (thorough 1500) calls each (the shuffle inside is " +
		"seeded from the clock), every plan judged structurally: min(live, requested) distinct live targets, exactly one executing target, database kept, " +
		"the plan survives its JSON encoding, the caller's node list keeps its nodes. " +
		"Statements: field lists, functions, arithmetic, quantile, tag conditions, group by, order by / limit, select *, intervals, ranges " +
		"cutting families, unknown metric/field/tag key. Non-trivial = the reference result is non-empty, the layout has more than one shard " +
		"or leaf and the run equals the reference; distinct by (data set, shard count, layout, delivery order, statement).")
	c.Assume("the reference (one shard, one leaf, in-order) is tied to the naive model of internal/node for the unlimited form of every statement; " +
		"a statement whose reference VALUES differ from the model is reported under C12/reference-vs-model and the layouts are still compared with that reference; " +
		"one whose reference errs/answers against the language is reported and not used for layout comparisons")
	c.Assume("order by / limit as the code defines them: `order by f` sorts groups by the order function of f's type over time, `order by fn(x)` by fn over the " +
		"result series named x, a group without such a series sorts as 0; limit keeps the first n groups, groups with equal sort values and limit without " +
		"order by keep an arbitrary admissible subset; kept groups must carry exactly the reference values")
	c.Assume("where several values of a first/last field meet in one result cell (several series of a group, several slots of a bucket) the language " +
		"leaves the choice open: such cells (known from the model) only have to hold one of the contributed values in every layout")
	c.Assume("flush placement is identical in all layouts of a data set; no (series, slot) has values on both sides of a flush; first/last fields get at most one " +
		"value per (series, slot); every series is written in slot order - the open C11 findings cannot make two layouts differ")
	c.Assume("'never answers' is decided by internal/node: transport quiescent, every processor and pool idle, root and intermediates parked in waitResponse, observed " +
		"three times 250ms apart, and no result when cancelled; the 90s watchdog only yields inconclusive")
	c.Assume("race detector reports do not decide C12; no race variant is built")
	c.Assume("a compute plan is usable only with exactly one executing (not receive-only) target: query/intermediate_processor.go Process runs the statement on " +
		"that target alone, every other target only receives what the leaves send")

	checkPlans(c)

	base := baseTime()
	nData := c.Pick(16, 200)
	if v := os.Getenv("C12_DATASETS"); v != "" {
		nData, _ = strconv.Atoi(v)
	}
	first := 0
	if v := os.Getenv("C12_FIRST"); v != "" {
		first, _ = strconv.Atoi(v)
	}
	scratch := c.Scratch()
	workers := runtime.NumCPU()
	if workers > 16 {
		workers = 16
	}
	timeout := 5 * time.Minute
	if !c.Quick() {
		timeout = 20 * time.Minute
	}
	dsDir := func(ds int) string { return filepath.Join(scratch, fmt.Sprintf("ds%04d", ds)) }
	runJob := func(j job) (*childResult, string) {
		dir := filepath.Join(dsDir(j.ds), fmt.Sprintf("s%d", j.shards))
		_ = os.MkdirAll(dir, 0o755)
		out := filepath.Join(dir, "child.log")
		cr := core.RunChild("", []string{"case", strconv.Itoa(j.ds), strconv.Itoa(j.shards), dir, c.Tier, filepath.Join(dsDir(j.ds), "base.json")},
			[]string{"VERIF_SEED=" + strconv.FormatInt(c.Seed, 10), "TZ=UTC", "C12_BASE=" + strconv.FormatInt(base, 10)}, timeout, out)
		r := &childResult{}
		data, err := os.ReadFile(filepath.Join(dir, "result.json"))
		if err == nil {
			err = json.Unmarshal(data, r)
		}
		_ = os.RemoveAll(dir)
		switch {
		case cr.TimedOut:
			return nil, "watchdog\n" + tail(cr.Output, 3000)
		case err != nil || cr.ExitCode != 0:
			return nil, fmt.Sprintf("exit=%d err=%v\n%s", cr.ExitCode, err, tail(cr.Output, 8000))
		}
		return r, ""
	}
	// phase 1: references (one shard); phase 2: the other shard counts
	var jobs []job
	for d := first; d < first+nData; d++ {
		jobs = append(jobs, job{d, 1})
	}
	results := make([]*childResult, len(jobs))
	died := make([]string, len(jobs))
	core.Parallel(len(jobs), workers, func(i int) { results[i], died[i] = runJob(jobs[i]) })
	var jobs2 []job
	for i, j := range jobs {
		if results[i] == nil {
			continue
		}
		for _, s := range shardCounts {
			jobs2 = append(jobs2, job{j.ds, s})
		}
	}
	results2 := make([]*childResult, len(jobs2))
	died2 := make([]string, len(jobs2))
	core.Parallel(len(jobs2), workers, func(i int) { results2[i], died2[i] = runJob(jobs2[i]) })
	jobs = append(jobs, jobs2...)
	results = append(results, results2...)
	died = append(died, died2...)

	deaths := 0
	for i, r := range results {
		j := jobs[i]
		if r == nil {
			msg := died[i]
			if strings.HasPrefix(msg, "watchdog") {
				c.Inconclusive("data set %d, %d shards: child watchdog fired", j.ds, j.shards)
				continue
			}
			if frame := anchoredFrame(msg); frame != "" {
				c.Violation("C12/process-died/"+frame, fmt.Sprintf("data set %d, %d shards: child died in anchored code: %s", j.ds, j.shards, tail(msg, 1500)),
					map[string]interface{}{"data_set": j.ds, "shards": j.shards, "output": tail(msg, 6000)})
			} else {
				c.Count("children_died_outside_anchored_code", 1)
				c.Set(fmt.Sprintf("child_death_%d_%d", j.ds, j.shards), tail(msg, 1500))
				deaths++
			}
			continue
		}
		c.Eval(r.Evals)
		c.Count(fmt.Sprintf("children.shards_%d", j.shards), 1)
		for k, v := range r.Counters {
			if strings.HasPrefix(k, "violations.") {
				continue
			}
			c.Count(k, v)
		}
		for _, k := range r.Nontrivial {
			c.Nontrivial(k)
		}
		if r.Sample != nil {
			c.Sample(r.Sample)
		}
		for _, n := range r.Notes {
			switch {
			case strings.HasPrefix(n, "watchdog"):
				c.Inconclusive("data set %d, %d shards: %s", j.ds, j.shards, n)
			case strings.HasPrefix(n, "harness"):
				c.Inconclusive("data set %d, %d shards: %s", j.ds, j.shards, n)
			}
		}
		for _, v := range r.Violations {
			n := r.Counters["violations."+v.Class]
			if n < 1 {
				n = 1
			}
			for k := 0; k < n; k++ {
				c.Violation(v.Class, v.Message, v.Witness)
			}
		}
	}
	if deaths*10 > len(jobs) {
		c.Inconclusive("%d of %d children died outside the anchored code", deaths, len(jobs))
	}
	need := func(counter string, min int64) {
		if c.Counter(counter) < min {
			c.Inconclusive("only %d %s observed (need %d)", c.Counter(counter), counter, min)
		}
	}
	need("reference_results_non_empty", 20)
	need("runs.reference_non_empty", 500)
	need("runs.leaves.4", 24)
	need("runs.leaves.8", 5)
	need("runs.plan.one-compute-target", 50)
	// more live brokers than compute targets: reached end to end, answering (one target) and with the executing target seen asking every leaf
	need("runs.compute_plan.1_targets_of_3_live_brokers", 20)
	need("runs.compute_plan.1_targets_of_7_live_brokers", 20)
	need("runs.compute_plan.5_targets_of_6_live_brokers", 8)
	need("runs.compute_plan.5_targets_of_8_live_brokers", 8)
	need("compute_plans.built.live>requested", 1000)
	if c.Counter("runs.compute_plan.no_leaf_was_asked") == 0 && c.Counter("runs.compute_plan.some_leaf_not_asked_or_asked_more_than_once") == 0 {
		// (a run in which the executing target did not reach the leaves is judged where it happened, it is not missing coverage)
		need("runs.compute_plan.more_live_brokers_than_compute_targets.every_leaf_asked_exactly_once", 50)
	}
	need("runs_with_a_leaf_without_matching_data.no-data-at-all", 5)
	need("runs_with_a_leaf_without_matching_data.only-other-metrics", 5)
	need("runs_with_a_leaf_without_matching_data.no-series-matching-the-condition", 5)
	c.Finish()
}

func runCaseChild() {
	if len(os.Args) < 7 {
		fmt.Println("usage: c12 case <data set> <shards> <dir> <tier> <base file>")
		os.Exit(4)
	}
	idx, _ := strconv.Atoi(os.Args[2])
	shards, _ := strconv.Atoi(os.Args[3])
	dir := os.Args[4]
	tier := os.Args[5]
	baseFile := os.Args[6]
	seed := int64(1)
	if s := os.Getenv("VERIF_SEED"); s != "" {
		seed, _ = strconv.ParseInt(s, 10, 64)
	}
	debug.SetTraceback("all")
	fmt.Printf("case data set %d shards %d seed %d base %d\n", idx, shards, seed, baseTime())
	res := runCase(idx, shards, dir, tier, seed, baseTime(), baseFile)
	data, _ := json.Marshal(res)
	_ = os.WriteFile(filepath.Join(dir, "result.json"), data, 0o644)
	if os.Getenv("C12_VERBOSE") != "" {
		pretty, _ := json.MarshalIndent(res, "", " ")
		fmt.Println(string(pretty))
	}
}

// anchoredFiles are the files the property anchors (properties.jsonl).
var anchoredFiles = []string{
	"series/metric/row_broker.go", "query/context/root_metric_context.go", "query/context/metric_context.go",
	"query/context/intermediate_metric_context.go", "query/context/leaf_reduce_context.go", "query/context/leaf_execute_context.go",
	"query/context/task_context.go", "query/task_manager.go", "query/intermediate_processor.go", "aggregation/group_agg.go",
	"aggregation/series_agg.go", "aggregation/order_by.go", "aggregation/topn.go", "flow/node_choose.go", "models/parallel.go",
}

// anchoredFrame returns the anchored file of the crashing goroutine's stack in a Go crash dump.
func anchoredFrame(out string) string {
	start := strings.Index(out, "panic:")
	if f := strings.Index(out, "fatal error:"); f >= 0 && (start < 0 || f < start) {
		start = f
	}
	if start < 0 {
		return ""
	}
	rest := out[start:]
	g := strings.Index(rest, "\ngoroutine ")
	if g < 0 {
		return ""
	}
	stack := rest[g+1:]
	if e := strings.Index(stack, "\n\n"); e >= 0 {
		stack = stack[:e]
	}
	for _, f := range anchoredFiles {
		if strings.Contains(stack, "/"+f+":") {
			return strings.ReplaceAll(f, "/", "_")
		}
	}
	return ""
}
