package main

import (
	"fmt"
	"math/rand"
	"sort"

	"github.com/lindb/lindb/verif/internal/node"
)

const (
	slotMs     = int64(10_000)
	hourMs     = int64(3600_000)
	slotsPerHr = 360
	dataHours  = 3
)

type fieldSpec struct {
	Name string         `json:"name"`
	Type node.FieldType `json:"type"`
}

type seriesSpec struct {
	Tags map[string]string `json:"tags"`
	// Fields the series writes (a subset of the metric's fields; all of them for most series)
	Fields []string `json:"fields"`
	// EmptyBuckets: histogram buckets this series never observes (histogram metrics only)
	EmptyBuckets []int `json:"empty_buckets,omitempty"`
}

type metricSpec struct {
	Name   string       `json:"name"`
	Fields []fieldSpec  `json:"fields"`
	Series []seriesSpec `json:"series"`
	Bounds []float64    `json:"bounds,omitempty"`
}

// dataSet is one generated workload: schema, the ingestion calls in order, and where the one flush is placed. The same
// calls and the same flush placement are used for every shard count and every layout, so that two results can only
// differ because of sharding, placement or delivery order.
type dataSet struct {
	Index   int            `json:"index"`
	Base    int64          `json:"base"`
	Metrics []metricSpec   `json:"metrics"`
	Calls   [][]node.Point `json:"-"`
	// FlushMode: memory (nothing is flushed), flushed (everything is flushed after the last call), split (one flush
	// after call FlushAfter; no (series, slot) is written on both sides of it)
	FlushMode  string         `json:"flush_mode"`
	FlushAfter int            `json:"flush_after"`
	Stats      map[string]int `json:"stats"`
}

var (
	hostPool = []string{"h1", "h2", "h3", "h4", "h5", "h6", "h7", "h8", "h9"}
	dcPool   = []string{"east", "west"}
	appPool  = []string{"api", "db"}
)

func (ds *dataSet) metric(name string) *metricSpec {
	for i := range ds.Metrics {
		if ds.Metrics[i].Name == name {
			return &ds.Metrics[i]
		}
	}
	return nil
}

func fieldNames(fs []fieldSpec) []string {
	out := make([]string, len(fs))
	for i, f := range fs {
		out[i] = f.Name
	}
	return out
}

func genSeries(rnd *rand.Rand, n int, allowUntagged bool) []map[string]string {
	seen := map[string]bool{}
	var rs []map[string]string
	if allowUntagged && rnd.Intn(4) == 0 {
		rs = append(rs, map[string]string{})
		seen[(&node.Point{Metric: "x"}).SeriesKey()] = true
	}
	for len(rs) < n {
		tags := map[string]string{"host": hostPool[rnd.Intn(len(hostPool))]}
		if rnd.Intn(6) != 0 {
			tags["dc"] = dcPool[rnd.Intn(len(dcPool))]
		}
		if rnd.Intn(3) == 0 {
			tags["app"] = appPool[rnd.Intn(len(appPool))]
		}
		p := node.Point{Metric: "x", Tags: tags}
		if seen[p.SeriesKey()] {
			continue
		}
		seen[p.SeriesKey()] = true
		rs = append(rs, tags)
	}
	return rs
}

// genDataSet builds data set idx of a run. Everything is a function of (seed, idx, tier, base).
func genDataSet(seed int64, idx int, tier string, base int64) *dataSet {
	rnd := rand.New(rand.NewSource(seed*7919 + int64(idx)*104729 + 12))
	ds := &dataSet{Index: idx, Base: base, Stats: map[string]int{}}
	allTypes := []node.FieldType{node.Min, node.Max, node.Last, node.First}

	// main metric: two sum fields plus 1-3 fields of the other types, 4-9 series; some series write only some fields
	main := metricSpec{Name: "cpu"}
	main.Fields = append(main.Fields, fieldSpec{"s1", node.Sum}, fieldSpec{"s2", node.Sum})
	perm := rnd.Perm(len(allTypes))
	for j := 0; j < 1+rnd.Intn(3); j++ {
		t := allTypes[perm[j]]
		main.Fields = append(main.Fields, fieldSpec{fmt.Sprintf("%s_%d", t.String()[:2], j), t})
	}
	rnd.Shuffle(len(main.Fields), func(a, b int) { main.Fields[a], main.Fields[b] = main.Fields[b], main.Fields[a] })
	nSeries := 4 + rnd.Intn(6)
	partial := rnd.Intn(3) == 0 // data sets where some series lack some fields
	for _, tags := range genSeries(rnd, nSeries, true) {
		ss := seriesSpec{Tags: tags, Fields: fieldNames(main.Fields)}
		if partial && rnd.Intn(3) == 0 {
			ss.Fields = nil
			for _, f := range main.Fields {
				if rnd.Intn(2) == 0 {
					ss.Fields = append(ss.Fields, f.Name)
				}
			}
			if len(ss.Fields) == 0 {
				ss.Fields = []string{"s1"}
			}
		}
		main.Series = append(main.Series, ss)
	}
	ds.Metrics = append(ds.Metrics, main)

	// second metric with few series: its shards hold "series of another metric only" for queries of the main metric
	if rnd.Intn(3) != 0 {
		m2 := metricSpec{Name: "mem", Fields: []fieldSpec{{"used", node.Sum}, {"peak", node.Max}}}
		for _, tags := range genSeries(rnd, 1+rnd.Intn(3), false) {
			m2.Series = append(m2.Series, seriesSpec{Tags: tags, Fields: fieldNames(m2.Fields)})
		}
		ds.Metrics = append(ds.Metrics, m2)
	}
	// histogram metric
	if rnd.Intn(3) == 0 {
		m3 := metricSpec{Name: "lat", Bounds: []float64{1, 5, 10, 50}}
		if rnd.Intn(2) == 0 {
			m3.Bounds = []float64{0.5, 2, 8}
		}
		if rnd.Intn(2) == 0 {
			m3.Fields = append(m3.Fields, fieldSpec{"calls", node.Sum})
		}
		sparse := rnd.Intn(2) == 0
		for _, tags := range genSeries(rnd, 2+rnd.Intn(4), false) {
			ss := seriesSpec{Tags: tags, Fields: fieldNames(m3.Fields)}
			if sparse && rnd.Intn(2) == 0 {
				// this series never observes one of the buckets: the bucket field may be unknown where only it lives
				ss.EmptyBuckets = []int{rnd.Intn(len(m3.Bounds) + 1)}
			}
			m3.Series = append(m3.Series, ss)
		}
		ds.Metrics = append(ds.Metrics, m3)
	}

	// points per series: non-decreasing slots; a repeated slot only carries sum/min/max fields (a first/last field gets
	// at most one value per (series, slot)); every series has its own activity window inside the three data hours
	type cursor struct {
		m      *metricSpec
		s      *seriesSpec
		points []node.Point
		next   int
	}
	var cursors []*cursor
	total := dataHours * slotsPerHr
	perSeries := 10 + rnd.Intn(25)
	if tier == "thorough" {
		perSeries = 10 + rnd.Intn(60)
	}
	for mi := range ds.Metrics {
		m := &ds.Metrics[mi]
		types := map[string]node.FieldType{}
		for _, f := range m.Fields {
			types[f.Name] = f.Type
		}
		for si := range m.Series {
			s := &m.Series[si]
			cur := &cursor{m: m, s: s}
			// activity window: whole range, one hour only, or around a family boundary
			lo, hi := 3, total-3
			switch rnd.Intn(6) {
			case 0:
				h := rnd.Intn(dataHours)
				lo, hi = h*slotsPerHr+2, (h+1)*slotsPerHr-2
			case 1:
				h := 1 + rnd.Intn(dataHours-1)
				lo, hi = h*slotsPerHr-40, h*slotsPerHr+40
			}
			slot := lo + rnd.Intn(1+(hi-lo)/3)
			n := perSeries/2 + rnd.Intn(perSeries)
			prev := -1
			for k := 0; k < n && slot < hi; k++ {
				dup := slot == prev
				p := node.Point{Metric: m.Name, Tags: s.Tags, Timestamp: base + int64(slot)*slotMs + int64(rnd.Intn(int(slotMs)))}
				for _, fn := range s.Fields {
					t := types[fn]
					if dup && (t == node.Last || t == node.First) {
						continue
					}
					if len(s.Fields) > 1 && rnd.Intn(8) == 0 {
						continue
					}
					v := float64(rnd.Intn(10))
					if t != node.Sum && rnd.Intn(5) == 0 {
						v = -float64(1 + rnd.Intn(5))
					}
					p.Fields = append(p.Fields, node.Field{Name: fn, Type: t, Value: v})
				}
				if len(m.Bounds) > 0 {
					h := &node.Histogram{Bounds: m.Bounds}
					sum := 0.0
					for i := 0; i <= len(m.Bounds); i++ {
						c := float64(1 + rnd.Intn(5))
						for _, e := range s.EmptyBuckets {
							if e == i {
								c = 0
							}
						}
						h.Counts = append(h.Counts, c)
						sum += c
					}
					h.Count = sum
					h.Sum = float64(10 + rnd.Intn(90))
					h.Min = float64(rnd.Intn(3))
					h.Max = float64(20 + rnd.Intn(50))
					p.Histogram = h
				}
				if len(p.Fields) > 0 || p.Histogram != nil {
					cur.points = append(cur.points, p)
					if dup {
						ds.Stats["points_repeating_a_slot_of_their_series"]++
					}
				}
				prev = slot
				switch r := rnd.Intn(100); {
				case r < 12:
					// same slot again
				case r < 70:
					slot += 1 + rnd.Intn(4)
				case r < 90:
					slot += 5 + rnd.Intn(25)
				default:
					slot += 40 + rnd.Intn(200)
				}
			}
			if len(cur.points) > 0 {
				cursors = append(cursors, cur)
			}
		}
	}
	// ingestion calls: every call takes the next point of 1-10 series (at most one point per series and call), so every
	// series is written in slot order whatever lindb's batch sorts do, while one call may span shards and families
	for {
		var live []*cursor
		for _, c := range cursors {
			if c.next < len(c.points) {
				live = append(live, c)
			}
		}
		if len(live) == 0 {
			break
		}
		rnd.Shuffle(len(live), func(a, b int) { live[a], live[b] = live[b], live[a] })
		k := 1 + rnd.Intn(10)
		if k > len(live) {
			k = len(live)
		}
		var call []node.Point
		for _, c := range live[:k] {
			call = append(call, c.points[c.next])
			c.next++
		}
		ds.Calls = append(ds.Calls, call)
	}
	switch r := rnd.Intn(100); {
	case r < 35:
		ds.FlushMode = "memory"
	case r < 70:
		ds.FlushMode = "flushed"
	default:
		ds.FlushMode = "split"
		ds.FlushAfter = len(ds.Calls)/4 + rnd.Intn(1+len(ds.Calls)/2)
		// no (series, slot) on both sides of the flush: drop the later points of such cells
		before := map[string]bool{}
		for i := 0; i <= ds.FlushAfter && i < len(ds.Calls); i++ {
			for _, p := range ds.Calls[i] {
				before[fmt.Sprintf("%s|%d", p.SeriesKey(), (p.Timestamp-base)/slotMs)] = true
			}
		}
		for i := ds.FlushAfter + 1; i < len(ds.Calls); i++ {
			kept := ds.Calls[i][:0]
			for _, p := range ds.Calls[i] {
				if before[fmt.Sprintf("%s|%d", p.SeriesKey(), (p.Timestamp-base)/slotMs)] {
					ds.Stats["points_dropped_to_keep_a_slot_on_one_side_of_the_flush"]++
					continue
				}
				kept = append(kept, p)
			}
			ds.Calls[i] = kept
		}
	}
	for _, c := range ds.Calls {
		ds.Stats["points"] += len(c)
	}
	ds.Stats["calls"] = len(ds.Calls)
	return ds
}

// model builds the reference model of the data set.
func (ds *dataSet) model() *node.Model {
	m := node.NewModel(slotMs)
	for _, c := range ds.Calls {
		if len(c) > 0 {
			m.Add(c)
		}
	}
	return m
}

// allPoints returns every written point.
func (ds *dataSet) allPoints() []node.Point {
	var out []node.Point
	for _, c := range ds.Calls {
		out = append(out, c...)
	}
	return out
}

// seriesInfo describes one written series: its shard for the given shard count and what it holds.
type seriesInfo struct {
	Metric string
	Tags   map[string]string
	Shard  int
	Slots  []int64 // absolute slot start times with data
	Fields map[string]bool
}

// placement computes, with the real routing hash, which shard every series lives in for n shards.
func (ds *dataSet) placement(n int) ([]*seriesInfo, error) {
	byKey := map[string]*seriesInfo{}
	var keys []string
	for _, c := range ds.Calls {
		for i := range c {
			p := &c[i]
			k := p.SeriesKey()
			si, ok := byKey[k]
			if !ok {
				shard, err := node.ShardOf(*p, n)
				if err != nil {
					return nil, err
				}
				si = &seriesInfo{Metric: p.Metric, Tags: p.Tags, Shard: shard, Fields: map[string]bool{}}
				byKey[k] = si
				keys = append(keys, k)
			}
			si.Slots = append(si.Slots, p.Timestamp/slotMs*slotMs)
			for _, f := range p.Fields {
				si.Fields[f.Name] = true
			}
		}
	}
	sort.Strings(keys)
	out := make([]*seriesInfo, 0, len(keys))
	for _, k := range keys {
		out = append(out, byKey[k])
	}
	return out, nil
}
