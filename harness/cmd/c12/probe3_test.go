package main

import (
	"fmt"
	"os"
	"testing"

	"github.com/lindb/lindb/models"
	"github.com/lindb/lindb/verif/internal/node"
)

func TestProbeErr(t *testing.T) {
	dir, _ := os.MkdirTemp("", "c12probe")
	defer os.RemoveAll(dir)
	n, err := node.Open(node.Options{Dir: dir, ShardIDs: []models.ShardID{0, 1}})
	if err != nil {
		t.Fatal(err)
	}
	defer n.Close()
	t0 := probeBase()
	var pts []node.Point
	for i := 0; i < 6; i++ {
		pts = append(pts, node.Point{Metric: "m", Tags: map[string]string{"host": fmt.Sprintf("h%d", i)}, Timestamp: t0 + int64(i)*10_000,
			Fields: []node.Field{{Name: "s1", Type: node.Sum, Value: float64(i)}}})
	}
	if _, err := n.Write(pts); err != nil {
		t.Fatal(err)
	}
	rng := fmt.Sprintf("time >= '%s' and time <= '%s'", node.FormatTime(t0), node.FormatTime(t0+3600_000-1000))
	for _, inter := range []int{0, 1} {
		c := node.NewCluster(n, node.Layout{Leaves: []node.LeafSpec{{Shards: []models.ShardID{0}}, {Shards: []models.ShardID{1}}}, Intermediates: inter})
		c.Trace(true)
		for _, sql := range []string{
			"select s1 from 'm' where " + rng + " group by nosuchkey",
			"select nosuch from 'm' where " + rng + " group by host",
		} {
			leaf := map[string]bool{}
			for _, id := range c.LeafIDs() {
				leaf[id] = true
			}
			c.SetScheduler(&permScheduler{Leaf: leaf, Perm: []int{1, 0}, Strict: true})
			res := c.Query(sql)
			fmt.Printf("inter=%d %s\n   err=%v stuck=%v rs=%v\n", inter, sql, res.Err, res.Stuck, res.ResultSet != nil)
			for _, l := range c.Trace(true) {
				fmt.Println("     ", l)
			}
		}
		c.Close()
	}
}
