package main

import (
	"encoding/json"
	"fmt"
	"hash/fnv"
	"math"
	"math/rand"
	"os"
	"path/filepath"
	"sort"
	"strings"
	"time"

	"github.com/lindb/lindb/models"
	protoCommonV1 "github.com/lindb/lindb/proto/gen/v1/common"
	"github.com/lindb/lindb/series"
	"github.com/lindb/lindb/series/field"
	"github.com/lindb/lindb/verif/internal/core"
	"github.com/lindb/lindb/verif/internal/node"
)

// childResult is what one child process (one data set, one shard count) reports.
type childResult struct {
	DataSet    int              `json:"data_set"`
	Shards     int              `json:"shards"`
	Counters   map[string]int   `json:"counters"`
	Violations []core.Violation `json:"violations"`
	Nontrivial []string         `json:"nontrivial"`
	Sample     interface{}      `json:"sample,omitempty"`
	Evals      int              `json:"evals"`
	Notes      []string         `json:"notes,omitempty"`
}

func (r *childResult) count(name string, n int) {
	if r.Counters == nil {
		r.Counters = map[string]int{}
	}
	r.Counters[name] += n
}

func (r *childResult) violation(class, msg string, witness interface{}) {
	r.count("violations."+class, 1)
	for _, v := range r.Violations {
		if v.Class == class {
			return
		}
	}
	r.Violations = append(r.Violations, core.Violation{Class: class, Message: msg, Witness: witness})
}

// baseEntry is the reference of one query: the single shard, single leaf, in-order result.
type baseEntry struct {
	ID      int       `json:"id"`
	SQL     string    `json:"sql"`
	Err     string    `json:"err,omitempty"`      // error of the statement as sent
	FullErr string    `json:"full_err,omitempty"` // error of the full (unlimited) form
	Full    resultMap `json:"full"`               // result of the full form
	Header  header    `json:"header"`
	Skip    string    `json:"skip,omitempty"` // the reference could not be established (reason)
}

type runner struct {
	res     *childResult
	seed    int64
	tier    string
	ds      *dataSet
	shards  int
	n       *node.Node
	model   *node.Model
	queries []*query
	base    map[int]*baseEntry
	place   []*seriesInfo
	rnd     *rand.Rand
	verbose bool
}

func errKind(err error) string {
	if err == nil {
		return ""
	}
	s := err.Error()
	switch {
	case strings.Contains(s, "metric") && strings.Contains(s, "not found"):
		return "metric-not-found"
	case strings.Contains(s, "field") && strings.Contains(s, "not found"):
		return "field-not-found"
	case strings.Contains(s, "tag key") && strings.Contains(s, "not found"):
		return "tag-key-not-found"
	case strings.Contains(s, "tag value") && strings.Contains(s, "not found"):
		return "tag-value-not-found"
	case strings.Contains(s, "not found"):
		return "not-found"
	case strings.Contains(s, "timeout"):
		return "timeout"
	}
	if len(s) > 60 {
		s = s[:60]
	}
	return "other:" + s
}

func errString(err error) string {
	if err == nil {
		return ""
	}
	return err.Error()
}

// ---------------------------------------------------------------------------------------------
// loading the data

type writer interface {
	write(points []node.Point) error
	flushAll() error
}

type sharedWriter struct{ n *node.Node }

func (w sharedWriter) write(points []node.Point) error { _, err := w.n.Write(points); return err }
func (w sharedWriter) flushAll() error                 { return w.n.FlushAll() }

// load writes the ingestion calls of the data set in order and places the one flush where the data set says.
func (ds *dataSet) load(w writer) error {
	for i, call := range ds.Calls {
		if len(call) > 0 {
			if err := w.write(call); err != nil {
				return fmt.Errorf("call %d: %w", i, err)
			}
		}
		if ds.FlushMode == "split" && i == ds.FlushAfter {
			if err := w.flushAll(); err != nil {
				return err
			}
		}
	}
	if ds.FlushMode == "flushed" {
		return w.flushAll()
	}
	return nil
}

// ---------------------------------------------------------------------------------------------
// one cluster of one layout

type cluster struct {
	c    *node.Cluster
	rec  *planRecorder
	iso  *isoPlacement
	leaf map[string]bool
	ids  []string
}

func (r *runner) newCluster(l layoutSpec, iso *isoPlacement) *cluster {
	cl := &cluster{rec: &planRecorder{cap: l.ComputeCap}, iso: iso, leaf: map[string]bool{}}
	cl.c = node.NewCluster(r.n, l.nodeLayout())
	cl.c.Grace = 250 * time.Millisecond
	cl.c.Watchdog = 90 * time.Second
	cl.c.ChooseFn = cl.rec.choose
	cl.ids = cl.c.LeafIDs()
	for _, id := range cl.ids {
		cl.leaf[id] = true
	}
	if iso != nil {
		iso.attach(cl.c, nil)
	}
	return cl
}

func (cl *cluster) close() {
	cl.c.Close()
	if cl.iso != nil {
		cl.iso.detach()
	}
}

// setDelays installs seeded delivery delays (0-2ms per message) on top of what the isolated placement needs.
func (cl *cluster) setDelays(rnd *rand.Rand) {
	var delays []time.Duration
	for i := 0; i < 64; i++ {
		delays = append(delays, time.Duration(rnd.Intn(2000))*time.Microsecond)
	}
	i := 0
	extra := func(m *node.Msg) {
		d := delays[i%len(delays)]
		i++
		time.Sleep(d)
	}
	if cl.iso != nil {
		cl.iso.attach(cl.c, extra)
		return
	}
	cl.c.PreDeliver = extra
}

// setResponseDelay delays the delivery of every response by d: the request pipeline of the receiving node (which runs in
// the goroutine that sent the requests) has then certainly completed before a response is handled. Used for the retries
// that tell the non-repeating loss of an error (a race with that pipeline's completion) from a deterministic one.
func (cl *cluster) setResponseDelay(d time.Duration) {
	extra := func(m *node.Msg) {
		if m.Kind == node.Response {
			time.Sleep(d)
		}
	}
	if cl.iso != nil {
		cl.iso.attach(cl.c, extra)
		return
	}
	cl.c.PreDeliver = extra
}

func (cl *cluster) clearDelays() {
	if cl.iso != nil {
		cl.iso.attach(cl.c, nil)
		return
	}
	cl.c.PreDeliver = nil
}

// ---------------------------------------------------------------------------------------------
// who holds matching data

// leafHoldings tells, per leaf of a layout, why it has (or has not) data matching the query, from the model.
func (r *runner) leafHoldings(l layoutSpec, q *query) []string {
	plan := q.exp.Plan
	out := make([]string, len(l.Leaves))
	for li, shards := range l.Leaves {
		in := map[int]bool{}
		for _, s := range shards {
			in[int(s)] = true
		}
		state := "no-data-at-all"
		rank := map[string]int{"no-data-at-all": 0, "only-other-metrics": 1, "no-series-matching-the-condition": 2, "no-points-in-the-range": 3, "matching-data": 4}
		up := func(s string) {
			if rank[s] > rank[state] {
				state = s
			}
		}
		for _, s := range r.place {
			if !in[s.Shard] {
				continue
			}
			up("only-other-metrics")
			if s.Metric != q.Q.Metric {
				continue
			}
			up("no-series-matching-the-condition")
			ok := q.Q.Cond == nil || q.Q.Cond.Match(s.Tags)
			for _, k := range q.Q.GroupBy {
				if _, has := s.Tags[k]; !has {
					ok = false
				}
			}
			if !ok {
				continue
			}
			up("no-points-in-the-range")
			for _, slot := range s.Slots {
				if slot >= plan.Start && slot <= plan.End {
					up("matching-data")
					break
				}
			}
		}
		out[li] = state
	}
	return out
}

// ---------------------------------------------------------------------------------------------
// running and judging

type outcome struct {
	Perm      []int    `json:"perm"`
	Strict    bool     `json:"strict"`
	Delivered []string `json:"delivered,omitempty"`
	Shape     string   `json:"plan"`
	Err       string   `json:"err,omitempty"`
	Stuck     bool     `json:"stuck,omitempty"`
	TimedOut  bool     `json:"timed_out,omitempty"`
	Problem   string   `json:"problem,omitempty"` // "" = equal to the reference
	Class     string   `json:"class,omitempty"`
	Diffs     []string `json:"diffs,omitempty"`
	Got       string   `json:"got,omitempty"`
	LeafErrs  []string `json:"leaf_errors,omitempty"`
	// RootPlan is the plan the root sent; LeafRequests the number of requests every leaf (layout order) got in this run
	RootPlan     string `json:"root_plan,omitempty"`
	LeafRequests []int  `json:"leaf_requests"`
	// LeafDigests: per leaf response (sender>receiver) an order independent digest of the groups, fields and bytes it
	// carried: equal digests under two delivery orders with different results put the difference at the merging node
	LeafDigests map[string]string `json:"leaf_digests,omitempty"`
	recreate    bool
	res         *node.QueryResult
	specs       map[string][]string // leaf -> field names of the aggregator specs it sent
}

func (r *runner) freeCell(q *query) func(g, item string, ts int64) bool {
	return func(g, item string, ts int64) bool {
		s := q.exp.Series[g]
		if s == nil || s.Items[item] == nil {
			return false
		}
		v := s.Items[item][ts]
		return v != nil && (v.Unknown || len(v.Possible) > 1)
	}
}

func canonOf(m resultMap, h header) string {
	var lines []string
	for g, items := range m {
		for it, pts := range items {
			for ts, v := range pts {
				lines = append(lines, fmt.Sprintf("%s|%s|%s|%.12g", g, it, node.FormatTime(ts), v))
			}
		}
	}
	sort.Strings(lines)
	if len(lines) > 60 {
		lines = append(lines[:60], fmt.Sprintf("... %d more", len(lines)-60))
	}
	return fmt.Sprintf("start=%s end=%s interval=%d\n%s", node.FormatTime(h.Start), node.FormatTime(h.End), h.Interval, strings.Join(lines, "\n"))
}

// runOne sends the statement through the cluster under one delivery order and compares with the reference.
func (r *runner) runOne(cl *cluster, l layoutSpec, q *query, perm []int, strict bool) *outcome {
	out := &outcome{Perm: perm, Strict: strict}
	sched := &permScheduler{Leaf: cl.leaf, Perm: perm, Strict: strict}
	cl.rec.reset()
	cl.c.SetScheduler(sched)
	res := cl.c.Query(q.SQLText)
	cl.c.SetScheduler(nil)
	r.res.Evals++
	out.Delivered = sched.delivered
	rootPlan := cl.rec.rootPlan()
	shape, active, receiveOnly := planShape(rootPlan, cl.leaf)
	out.Shape = shape
	r.res.count("runs.plan."+shape, 1)
	msgs := sched.messages()
	// who asked the leaves: with compute targets the one executing target asks every leaf (once), the others only receive
	compute := len(active) + len(receiveOnly)
	asked := map[string]int{}
	for _, m := range msgs {
		if m.Kind == node.Request && cl.leaf[m.To] {
			asked[m.To]++
		}
	}
	leavesAsked, leavesAskedOnce := 0, 0
	for _, id := range cl.ids {
		out.LeafRequests = append(out.LeafRequests, asked[id])
		if asked[id] > 0 {
			leavesAsked++
		}
		if asked[id] == 1 {
			leavesAskedOnce++
		}
	}
	if compute > 0 {
		out.RootPlan = planString(rootPlan)
		switch {
		case leavesAskedOnce == len(cl.ids):
			r.res.count("runs.compute_plan.executing_target_asked_every_leaf_exactly_once", 1)
		case leavesAsked == 0:
			r.res.count("runs.compute_plan.no_leaf_was_asked", 1)
		default:
			r.res.count("runs.compute_plan.some_leaf_not_asked_or_asked_more_than_once", 1)
		}
		if l.Intermediates > compute {
			r.res.count("runs.compute_plan.more_live_brokers_than_compute_targets", 1)
			r.res.count(fmt.Sprintf("runs.compute_plan.%d_targets_of_%d_live_brokers", compute, l.Intermediates), 1)
			if leavesAskedOnce == len(cl.ids) {
				r.res.count("runs.compute_plan.more_live_brokers_than_compute_targets.every_leaf_asked_exactly_once", 1)
			}
		}
		switch len(active) {
		case 1:
			r.res.count("runs.compute_plan.exactly_one_executing_target", 1)
		case 0:
			r.res.count("runs.compute_plan.no_executing_target", 1)
		default:
			r.res.count("runs.compute_plan.several_executing_targets", 1)
		}
	} else if shape == "direct" && leavesAskedOnce == len(cl.ids) {
		r.res.count("runs.direct_plan.root_asked_every_leaf_exactly_once", 1)
	}
	leafErr := map[string]string{}
	out.LeafDigests = map[string]string{}
	for _, m := range msgs {
		if m.Kind == node.Response && cl.leaf[m.From] && m.Resp != nil {
			out.LeafDigests[fmt.Sprintf("%s>%s#%d", m.From, m.To, m.Seq)] = payloadDigest(m.Resp)
		}
	}
	out.res = res
	out.specs = map[string][]string{}
	for _, m := range msgs {
		if m.Kind == node.Response && cl.leaf[m.From] && m.Resp != nil && m.Resp.ErrMsg != "" {
			leafErr[m.From] = m.Resp.ErrMsg
		}
		if m.Kind == node.Response && cl.leaf[m.From] && m.Resp != nil && m.Resp.ErrMsg == "" {
			tsl := &protoCommonV1.TimeSeriesList{}
			if err := tsl.Unmarshal(m.Resp.Payload); err == nil {
				var fs []string
				for _, sp := range tsl.FieldAggSpecs {
					fs = append(fs, sp.FieldName)
				}
				sort.Strings(fs)
				out.specs[m.From] = fs
			}
		}
	}
	for i, id := range cl.ids {
		if e, ok := leafErr[id]; ok {
			out.LeafErrs = append(out.LeafErrs, fmt.Sprintf("leaf %d %v: %s", i, l.Leaves[i], e))
		}
	}
	lk := l.kind()
	switch {
	case res.ParseErr:
		out.Problem, out.Class = "statement rejected by the parser: "+errString(res.Err), "C12/generator/statement-rejected"
		return out
	case res.TimedOut:
		out.TimedOut, out.recreate = true, true
		return out
	case res.Stuck:
		out.Stuck, out.recreate = true, true
		out.Err = errString(res.Err)
		out.Class = "C12/never-answers/" + shape
		if shape != "receive-only-compute-target" {
			out.Class += "/" + lk
		}
		out.Problem = fmt.Sprintf("the root never completes: transport quiescent (held=%d), root parked in waitResponse; receive-only targets %v", res.Held, receiveOnly)
		// a plan whose executing target did not reach the leaves is a different matter than groups dropped by a receive-only
		// target: nobody computes anything, whatever the statement and the data
		switch {
		case compute > 0 && len(active) == 0:
			out.Class = "C12/never-answers/no-executing-compute-target/" + lk
			out.Problem = fmt.Sprintf("the root never completes: every one of the %d compute targets of the root's plan %s is receive-only (%d live brokers), no target runs the statement; the leaves got %v requests; transport quiescent (held=%d), root parked in waitResponse",
				compute, out.RootPlan, l.Intermediates, out.LeafRequests, res.Held)
		case compute > 0 && leavesAsked == 0:
			out.Class = "C12/never-answers/" + shape + "/no-leaf-was-asked/" + lk
			out.Problem = fmt.Sprintf("the root never completes: the plan %s has the executing target %v but the leaves got %v requests; transport quiescent (held=%d), root parked in waitResponse",
				out.RootPlan, active, out.LeafRequests, res.Held)
		case compute > 0 && leavesAsked < len(cl.ids):
			out.Class = "C12/never-answers/" + shape + "/some-leaves-were-not-asked/" + lk
			out.Problem = fmt.Sprintf("the root never completes: the plan %s has the executing target %v but the leaves got %v requests; transport quiescent (held=%d), root parked in waitResponse",
				out.RootPlan, active, out.LeafRequests, res.Held)
		}
		if len(receiveOnly) > 0 && leavesAsked > 0 {
			r.checkSplit(l, q, cl, msgs, receiveOnly)
		}
		if res.Held > 0 {
			out.Class = "C12/harness/scheduler-held-messages"
		}
		return out
	}
	if len(leafErr) > 0 && res.Err == nil {
		r.res.count("runs_where_a_leaf_answered_with_a_tolerated_not_found_error", 1)
	}
	return r.judge(out, l, q, res, shape, len(leafErr), len(cl.ids))
}

// judge compares what a layout answered with the reference of the statement.
func (r *runner) judge(out *outcome, l layoutSpec, q *query, res *node.QueryResult, shape string, nLeafErr, nLeaves int) *outcome {
	base := r.base[q.ID]
	lk := l.kind()
	out.Err = errString(res.Err)
	// errors
	if base.Err != "" || res.Err != nil {
		switch {
		case base.Err != "" && res.Err == nil:
			out.Problem = fmt.Sprintf("reference answers with error %q, this layout answers with a result", base.Err)
			out.Class = "C12/answer-instead-of-error/" + lk
		case base.Err == "" && res.Err != nil:
			if base.Full.empty() {
				out.Problem = fmt.Sprintf("reference answers with an empty result, this layout answers with error %q", res.Err)
				out.Class = "C12/error-instead-of-empty-answer/" + errKind(res.Err) + "/" + lk
			} else {
				out.Problem = fmt.Sprintf("reference answers with %d points, this layout answers with error %q", base.Full.points(), res.Err)
				out.Class = "C12/error-instead-of-answer/" + errKind(res.Err) + "/" + lk
			}
		default:
			// the statement does not speak about error texts: with per-leaf metadata the last not-found answer is reported
			r.res.count("runs_where_reference_and_layout_both_answer_with_an_error", 1)
			if errKind(res.Err) != errKind(fmt.Errorf("%s", base.Err)) {
				r.res.count("runs_where_reference_and_layout_answer_with_different_not_found_errors", 1)
			}
		}
		if out.Class == "C12/answer-instead-of-error/"+lk && nLeafErr == nLeaves && got0(res) {
			// every leaf answered not-found, the last such answer must fail the query - and the root returned an empty
			// result without error: the error set by the response handler was overwritten
			out.Class = "C12/error-lost/every-leaf-answered-not-found-but-the-root-answers-empty"
		}
		return out
	}
	got, hdr := toMap(res.ResultSet, q.Q.GroupBy)
	free := r.freeCell(q)
	var diffs []cellDiff
	if q.Limited {
		solid, lenientGroups := r.splitLenient(q, base.Full)
		var kept []string
		for g := range got {
			if _, ok := solid[g]; ok || base.Full[g] == nil {
				kept = append(kept, g)
			}
		}
		sort.Strings(kept)
		visibleLenient := 0
		for g := range got {
			if es := q.exp.Series[g]; es != nil && lenientOnly(es) {
				visibleLenient++
			}
		}
		problem, ties, kind := keptVerdict(q, kept, solid, visibleLenient, r.emptyGroups(q, base.Full)+lenientGroups)
		if ties {
			r.res.count("limited_runs_where_ties_or_missing_order_left_a_choice", 1)
		}
		switch {
		case problem != "":
			out.Problem = problem
			out.Class = "C12/order-by-limit/kept-groups/" + lk
		case kind == "lenient":
			out.Problem = fmt.Sprintf("kept groups %v (limit %d, %d groups with data): %d result slots are held by visible groups whose only values are binary expressions evaluated with an operand without data", kept, q.Q.Limit, len(solid), visibleLenient)
			out.Class = lenientSlotClass
		case kind == "empty":
			out.Problem = fmt.Sprintf("kept groups %v are only explained by groups without data in the range holding result slots (limit %d, %d groups with data)", kept, q.Q.Limit, len(base.Full))
			out.Class = "C12/order-by-limit/groups-without-data-hold-result-slots"
		}
		diffs = diffMaps(got, base.Full, true, free)
	} else {
		diffs = diffMaps(got, base.Full, false, free)
	}
	if len(diffs) == 0 && !got.empty() && hdr != base.Header && !base.Full.empty() {
		out.Problem = fmt.Sprintf("header differs: got start=%s end=%s interval=%d, reference start=%s end=%s interval=%d",
			node.FormatTime(hdr.Start), node.FormatTime(hdr.End), hdr.Interval, node.FormatTime(base.Header.Start), node.FormatTime(base.Header.End), base.Header.Interval)
		out.Class = "C12/result-differs/header/" + lk
	}
	if len(diffs) > 0 {
		for i, d := range diffs {
			if i < 8 {
				out.Diffs = append(out.Diffs, d.String())
			}
		}
		out.Problem = fmt.Sprintf("%d differences to the reference, first: %s", len(diffs), diffs[0])
		switch {
		case got.empty() && !base.Full.empty():
			out.Class = "C12/empty-instead-of-answer/" + lk
		case hdr != base.Header && !got.empty():
			out.Class = "C12/result-differs/header+" + diffs[0].Kind + "/" + lk
		default:
			out.Class = "C12/result-differs/" + diffs[0].Kind + "/" + lk
		}
	}
	if len(diffs) > 0 || out.Class != "" {
		r.refine(l, q, out, res, diffs, shape, hdr, base, got)
	}
	if out.Problem != "" {
		out.Got = canonOf(got, hdr)
	}
	return out
}

// bucketWithoutObservations reports whether, for the group of the statement, some bucket field of the histogram metric has
// no observation in the range (from the model).
func (r *runner) bucketWithoutObservations(q *query, group string) bool {
	ms := r.ds.metric(q.Q.Metric)
	if ms == nil || len(ms.Bounds) == 0 {
		return false
	}
	bounds := append([]float64(nil), ms.Bounds...)
	bounds = append(bounds, math.Inf(1))
	for _, ub := range bounds {
		q2 := *q.full
		q2.Items = []node.SelectItem{{Expr: node.FieldRef{Name: node.BucketFieldName(ub)}}}
		exp := r.model.Eval(&q2)
		if exp.ErrorExpected != "" {
			return true // the bucket field was never written at all
		}
		if s := exp.Series[group]; s == nil || len(s.Items) == 0 {
			return true
		}
	}
	return false
}

// lenientOnly reports whether every value the model expects for the group comes from a binary expression with an operand
// without data (lindb emits such a value with the operand as 0 or drops it).
func lenientOnly(s *node.ExpSeries) bool {
	for _, pts := range s.Items {
		for _, v := range pts {
			if !v.Lenient {
				return false
			}
		}
	}
	return true
}

// splitLenient separates the groups of a reference result that only consist of such values.
func (r *runner) splitLenient(q *query, full resultMap) (solid resultMap, lenient int) {
	solid = resultMap{}
	for g, items := range full {
		if s := q.exp.Series[g]; s != nil && lenientOnly(s) {
			lenient++
			continue
		}
		solid[g] = items
	}
	return solid, lenient
}

// stepCrossed reports whether the raw range of the statement lies below a step of lindb's automatic interval (3h, 6h,
// 12h, ...) while the range truncated to the storage interval reaches it.
func stepCrossed(q *node.Query) (bool, int64) {
	raw := q.End - q.Start
	trunc := q.End/slotMs*slotMs - q.Start/slotMs*slotMs
	steps := []struct{ at, interval int64 }{{3 * hourMs, 30_000}, {6 * hourMs, 60_000}, {12 * hourMs, 120_000}, {24 * hourMs, 300_000}}
	for _, st := range steps {
		if raw < st.at && trunc >= st.at {
			return true, st.interval
		}
	}
	return false, 0
}

// refine gives a difference a narrower class when it is explained EXACTLY by one of the understood mechanisms.
func (r *runner) refine(l layoutSpec, q *query, out *outcome, res *node.QueryResult, diffs []cellDiff, shape string, hdr header, base *baseEntry, got resultMap) {
	// (a) an intermediate node plans the statement a second time on the already truncated range
	if crossed, iv := stepCrossed(q.Q); crossed && shape == "one-compute-target" && hdr.Interval != base.Header.Interval && !q.Limited {
		q2 := *q.full
		if q2.IntervalMs < iv {
			q2.IntervalMs = iv
		}
		exp := r.model.Eval(&q2)
		exp.Plan.Start, exp.Plan.End = hdr.Start, hdr.End // the header check below is done by hand
		if hdr.Interval == iv && len(node.Compare(exp, res.ResultSet, q.Q.GroupBy, node.CompareOptions{})) == 0 {
			out.Class = "C12/intermediate/interval-recomputed-from-the-truncated-range"
			out.Problem = fmt.Sprintf("raw range %ds is below the %dh step of the automatic interval, the truncated range reaches it: the intermediate node re-plans with interval %ds, the result equals the model at that interval; %s",
				(q.Q.End-q.Q.Start)/1000, (q.Q.End/slotMs*slotMs-q.Q.Start/slotMs*slotMs)/hourMs, iv/1000, out.Problem)
			return
		}
	}
	// (a2) quantile of a histogram of which some bucket has no observation in the range/group: the leaf sends the bucket
	// field as an empty segment or not at all (depending on what else lives in the shard), and the estimate differs
	if len(diffs) > 0 && !strings.HasPrefix(out.Class, "C12/order-by-limit") && len(q.exp.ZeroFill) > 0 {
		all := true
		for _, d := range diffs {
			if !q.exp.ZeroFill[d.Item] || !r.bucketWithoutObservations(q, d.Group) {
				all = false
				break
			}
		}
		if all {
			out.Class = "C12/no-data/quantile-over-a-bucket-without-observations"
			return
		}
	}
	// (b) every difference is explained by data that is NOT there: a value of a binary expression with an operand without
	// data in that group/bucket (lindb computes it with 0 or drops it), or the zero fill of a quantile for a group / bucket
	// without observations. Whether lindb emits those depends on whether a leaf sent an empty series / segment for the
	// field, i.e. on what else lives in the same shard and family.
	if len(diffs) > 0 && !strings.HasPrefix(out.Class, "C12/order-by-limit") {
		nLenient, nFill := 0, 0
		zeroOnly := func(group string, items map[string]map[int64]float64, item string) bool {
			for it, pts := range items {
				if item != "" && it != item {
					continue
				}
				if !q.exp.ZeroFill[it] {
					return false
				}
				for ts, v := range pts {
					if v != 0 {
						return false
					}
					if s := q.exp.Series[group]; s != nil && s.Items[it] != nil && s.Items[it][ts] != nil && !s.Items[it][ts].Lenient {
						return false
					}
				}
			}
			return true
		}
		side := func(d cellDiff) map[string]map[int64]float64 {
			if strings.HasPrefix(d.Kind, "missing") {
				return base.Full[d.Group]
			}
			return got[d.Group]
		}
		for _, d := range diffs {
			s := q.exp.Series[d.Group]
			switch d.Kind {
			case "missing-series", "unexpected-series":
				switch {
				case s != nil && lenientOnly(s) && !zeroOnly(d.Group, side(d), ""):
					nLenient++
				case (s == nil || lenientOnly(s)) && zeroOnly(d.Group, side(d), ""):
					nFill++
				default:
					return
				}
			case "missing-item", "unexpected-item":
				lenient := s != nil && s.Items[d.Item] != nil
				if lenient {
					for _, v := range s.Items[d.Item] {
						if !v.Lenient {
							lenient = false
						}
					}
				}
				switch {
				case lenient && !q.exp.ZeroFill[d.Item]:
					nLenient++
				case (lenient || s == nil || s.Items[d.Item] == nil) && zeroOnly(d.Group, side(d), d.Item):
					nFill++
				default:
					return
				}
			case "missing-point", "unexpected-point":
				var v *node.ExpValue
				if s != nil && s.Items[d.Item] != nil {
					v = s.Items[d.Item][d.TS]
				}
				val := d.Want
				if d.Kind == "unexpected-point" {
					val = d.Got
				}
				switch {
				case v != nil && v.Lenient && !q.exp.ZeroFill[d.Item]:
					nLenient++
				case (v == nil || v.Lenient) && q.exp.ZeroFill[d.Item] && val == 0:
					nFill++
				default:
					return
				}
			default:
				return
			}
		}
		switch {
		case nFill == 0:
			out.Class = "C12/no-data/binary-expression-operand-without-data-is-zero-or-drops-the-item"
		case nLenient == 0:
			out.Class = "C12/no-data/quantile-zero-fill-of-a-group-or-bucket-without-observations"
		default:
			out.Class = "C12/no-data/binary-expression-operand-without-data+quantile-zero-fill"
		}
	}
}

// payloadDigest is an order independent digest of the VALUES a leaf response carries: every (group, field, aggregate,
// segment start, slot, value) except the cells of first/last aggregates (where several series of a group meet, the leaf's
// own merge order decides and the language leaves that open).
func payloadDigest(resp *protoCommonV1.TaskResponse) string {
	if resp.ErrMsg != "" {
		return "error: " + resp.ErrMsg
	}
	tsl := &protoCommonV1.TimeSeriesList{}
	if err := tsl.Unmarshal(resp.Payload); err != nil {
		return "undecodable"
	}
	var x uint64
	cells := 0
	for _, ts := range tsl.TimeSeriesList {
		fields := map[field.Name][]byte{}
		for f, data := range ts.Fields {
			fields[field.Name(f)] = data
		}
		git := series.NewGroupedIterator(ts.Tags, fields)
		for git.HasNext() {
			it := git.Next()
			for it.HasNext() {
				start, fit := it.Next()
				if fit == nil {
					continue
				}
				for fit.HasNext() {
					pit := fit.Next()
					agg := pit.AggType()
					for pit.HasNext() {
						slot, v := pit.Next()
						if agg == field.Last || agg == field.First {
							continue
						}
						h := fnv.New64a()
						fmt.Fprintf(h, "%s|%s|%d|%d|%d|%v", ts.Tags, it.FieldName(), agg, start, slot, v)
						x ^= h.Sum64()
						cells++
					}
				}
			}
		}
	}
	return fmt.Sprintf("%d groups %d cells %016x", len(tsl.TimeSeriesList), cells, x)
}

func got0(res *node.QueryResult) bool {
	m, _ := toMap(res.ResultSet, nil)
	return m.empty()
}

// classifyIsolated narrows the class of a difference seen under isolated metadata.
//   - a leaf that holds matching data answered with a not-found error (the root tolerates it and merges without any of that
//     leaf's data): confirmed when the result equals the model evaluated without the data of those leaves;
//   - select *: the leaves plan different field lists and the root builds its aggregator from the first response.
func (r *runner) classifyIsolated(l layoutSpec, q *query, o *outcome, holdings []string, res *node.QueryResult, specs map[string][]string) {
	if !l.Isolated || o.Class == "" || strings.HasPrefix(o.Class, "C12/never-answers") || strings.HasPrefix(o.Class, "C12/error-lost") {
		return
	}
	if strings.HasPrefix(o.Class, "C12/order-by-limit/groups-without-data") {
		// only a leaf WITH matching data that answered not-found can be the real cause; otherwise keep the label
		hit := false
		for _, le := range o.LeafErrs {
			var li int
			if _, err := fmt.Sscanf(le, "leaf %d", &li); err == nil && li < len(holdings) && holdings[li] == "matching-data" {
				hit = true
			}
		}
		if !hit {
			return
		}
	}
	distinct := map[string]bool{}
	for _, fs := range specs {
		distinct[strings.Join(fs, ",")] = true
	}
	if len(distinct) > 1 {
		what := "quantile"
		if q.AllFields {
			what = "select-all-fields"
		}
		o.Class = "C12/isolated-metadata/leaves-plan-different-field-lists/" + what
		return
	}
	if len(o.LeafErrs) == 0 {
		return
	}
	dropped := map[int]bool{}
	kind := ""
	for _, le := range o.LeafErrs {
		var li int
		if _, err := fmt.Sscanf(le, "leaf %d", &li); err != nil || li >= len(holdings) {
			continue
		}
		dropped[li] = true
		if holdings[li] == "matching-data" && kind == "" {
			kind = errKind(fmt.Errorf("%s", le[strings.Index(le, ": ")+2:]))
		}
	}
	if kind == "" && len(dropped) == len(l.Leaves) && strings.HasPrefix(o.Class, "C12/error-instead-of-empty-answer/") {
		o.Class = "C12/isolated-metadata/every-leaf-answers-not-found/empty-answer-becomes-an-error"
		return
	}
	if kind == "" {
		return
	}
	class := "C12/isolated-metadata/leaf-with-matching-data-answers-not-found/" + kind
	if res == nil || res.Err != nil {
		if len(dropped) == len(l.Leaves) {
			// every leaf misses some name of the statement: the tolerated not-found answers add up to an error
			o.Class = class + "/every-leaf-answers-not-found"
		} else {
			o.Class = class + "/error"
		}
		return
	}
	// the model without the shards of the leaves that answered with an error
	keep := map[int]bool{}
	for li, shards := range l.Leaves {
		if !dropped[li] {
			for _, s := range shards {
				keep[int(s)] = true
			}
		}
	}
	shardOf := map[string]int{}
	for _, s := range r.place {
		p := node.Point{Metric: s.Metric, Tags: s.Tags}
		shardOf[p.SeriesKey()] = s.Shard
	}
	m2 := node.NewModel(slotMs)
	m2.InheritSchema(r.model)
	for _, call := range r.ds.Calls {
		var part []node.Point
		for _, p := range call {
			if keep[shardOf[p.SeriesKey()]] {
				part = append(part, p)
			}
		}
		m2.Add(part)
	}
	if q.Limited {
		// the kept groups must be an admissible answer over the data of the leaves that did answer, with exactly their values
		exp := m2.Eval(q.full)
		full2 := resultMap{}
		lenientGroups := 0
		for g, es := range exp.Series {
			if lenientOnly(es) {
				lenientGroups++
				continue
			}
			for item, pts := range es.Items {
				for ts, v := range pts {
					if v.Lenient || v.Unknown || len(v.Possible) == 0 {
						continue
					}
					if full2[g] == nil {
						full2[g] = map[string]map[int64]float64{}
					}
					if full2[g][item] == nil {
						full2[g][item] = map[int64]float64{}
					}
					full2[g][item][ts] = v.Possible[0]
				}
			}
		}
		got, _ := toMap(res.ResultSet, q.Q.GroupBy)
		var kept []string
		sub := &node.Expected{Plan: exp.Plan, Series: map[string]*node.ExpSeries{}, ZeroFill: exp.ZeroFill}
		for g := range got {
			if _, ok := full2[g]; ok || exp.Series[g] == nil {
				kept = append(kept, g)
			}
			if es := exp.Series[g]; es != nil {
				sub.Series[g] = es
			}
		}
		sort.Strings(kept)
		empties := 0
		seen := map[string]bool{}
		for _, si := range r.place {
			if !keep[si.Shard] || si.Metric != q.Q.Metric || (q.Q.Cond != nil && !q.Q.Cond.Match(si.Tags)) {
				continue
			}
			ok := true
			for _, k := range q.Q.GroupBy {
				if _, has := si.Tags[k]; !has {
					ok = false
				}
			}
			g := node.GroupKeyOf(q.Q.GroupBy, si.Tags)
			if _, has := full2[g]; ok && !has && !seen[g] {
				seen[g] = true
				empties++
			}
		}
		visibleLenient := 0
		for g := range got {
			if es := exp.Series[g]; es != nil && lenientOnly(es) {
				visibleLenient++
			}
		}
		problem, _, kind := keptVerdict(q, kept, full2, visibleLenient, empties+lenientGroups)
		ds := node.Compare(sub, res.ResultSet, q.Q.GroupBy, node.CompareOptions{})
		switch {
		case problem == "" && len(ds) == 0 && kind == "":
			o.Class = class + "/limited-result-is-the-answer-without-that-leaf"
		case problem == "" && len(ds) == 0 && kind == "lenient":
			o.Class = lenientSlotClass
		case problem == "" && len(ds) == 0:
			// over the answering leaves' data the kept set still needs groups without data in result slots
			o.Class = "C12/order-by-limit/groups-without-data-hold-result-slots"
		default:
			o.Class = "C12/isolated-metadata/unexplained/a-leaf-answered-" + kind + "-but-dropping-it-does-not-explain-the-limited-result"
			if problem == "" {
				problem = ds[0].String()
			}
			o.Problem += "; over the data of the answering leaves: " + problem
		}
		return
	}
	exp := m2.Eval(q.full)
	ds := node.Compare(exp, res.ResultSet, q.Q.GroupBy, node.CompareOptions{})
	if crossed, iv := stepCrossed(q.Q); len(ds) > 0 && crossed && o.Shape == "one-compute-target" {
		// together with the second planning of an intermediate node (see refine)
		q2 := *q.full
		if q2.IntervalMs < iv {
			q2.IntervalMs = iv
		}
		exp2 := m2.Eval(&q2)
		exp2.Plan.Start, exp2.Plan.End = res.ResultSet.StartTime, res.ResultSet.EndTime
		if len(node.Compare(exp2, res.ResultSet, q.Q.GroupBy, node.CompareOptions{})) == 0 {
			o.Class = class + "/result-is-the-answer-without-that-leaf+interval-recomputed-by-the-intermediate"
			return
		}
	}
	if len(ds) == 0 {
		o.Class = class + "/result-is-the-answer-without-that-leaf"
	} else {
		o.Class = "C12/isolated-metadata/unexplained/a-leaf-answered-" + kind + "-but-dropping-it-does-not-explain-the-result"
		o.Problem += fmt.Sprintf("; not explained by dropping the leaves with errors alone: %s", ds[0])
	}
}

// checkSplit inspects what the leaves sent to several receivers (plans with more than one compute target): the
// mechanism "one group meets at one node".
func (r *runner) checkSplit(l layoutSpec, q *query, cl *cluster, msgs []*node.Msg, receiveOnly []string) {
	ro := map[string]bool{}
	for _, id := range receiveOnly {
		ro[id] = true
	}
	groupAt := map[string]string{} // tags -> receiver
	perLeaf := map[string]map[string]string{}
	sent := map[string]bool{}
	lost := 0
	for _, m := range msgs {
		if m.Kind != node.Response || !cl.leaf[m.From] || m.Resp == nil || len(m.Resp.Payload) == 0 {
			continue
		}
		tsl := &protoCommonV1.TimeSeriesList{}
		if err := tsl.Unmarshal(m.Resp.Payload); err != nil {
			continue
		}
		if perLeaf[m.From] == nil {
			perLeaf[m.From] = map[string]string{}
		}
		for _, ts := range tsl.TimeSeriesList {
			if len(ts.Fields) == 0 {
				continue
			}
			sent[ts.Tags] = true
			if ro[m.To] {
				lost++
			}
			if prev, ok := perLeaf[m.From][ts.Tags]; ok && prev != m.To {
				r.res.violation("C12/leaf-split/group-sent-to-two-receivers", fmt.Sprintf("leaf %s sent group %q to %s and %s", m.From, ts.Tags, prev, m.To),
					r.witness(l, q, nil))
			}
			perLeaf[m.From][ts.Tags] = m.To
			if prev, ok := groupAt[ts.Tags]; ok && prev != m.To {
				r.res.violation("C12/leaf-split/group-meets-at-different-nodes", fmt.Sprintf("group %q was sent to %s by one leaf and to %s by another", ts.Tags, prev, m.To),
					r.witness(l, q, nil))
			}
			groupAt[ts.Tags] = m.To
		}
	}
	r.res.count("leaf_to_compute_target_splits_observed", 1)
	r.res.count("groups_sent_to_a_receive_only_compute_target", lost)
	base := r.base[q.ID]
	if base != nil && base.Err == "" && !q.Limited && !q.AllFields && len(q.Q.GroupBy) > 0 {
		missing, extra := 0, 0
		for g := range base.Full {
			if s := q.exp.Series[g]; !sent[g] && s != nil && !lenientOnly(s) {
				missing++
			}
		}
		for g := range sent {
			if _, ok := base.Full[g]; !ok {
				extra++
			}
		}
		if extra > r.emptyGroups(q, base.Full) {
			missing += extra // groups that no series of the statement can form
		} else {
			r.res.count("groups_without_data_sent_by_leaves", extra)
		}
		if missing > 0 {
			r.res.violation("C12/leaf-split/groups-sent-differ-from-reference",
				fmt.Sprintf("the leaves sent %d groups to the compute targets, the reference has %d (missing %d, extra %d)", len(sent), len(base.Full), missing, extra),
				r.witness(l, q, nil))
		}
	}
}

func (r *runner) witness(l layoutSpec, q *query, outs []*outcome) map[string]interface{} {
	base := r.base[q.ID]
	w := map[string]interface{}{
		"seed": r.seed, "tier": r.tier, "data_set": r.ds.Index, "shards": r.shards, "flush_mode": r.ds.FlushMode, "flush_after_call": r.ds.FlushAfter,
		"layout": l.String(), "sql": q.SQLText, "full_sql": q.FullSQL, "query_kind": q.Kind,
		"replay": fmt.Sprintf("VERIF_SEED=%d C12_BASE=%d bin/c12 case %d %d <dir> %s <basefile>", r.seed, r.ds.Base, r.ds.Index, r.shards, r.tier),
	}
	if base != nil {
		w["reference_error"] = base.Err
		w["reference"] = canonOf(base.Full, base.Header)
	}
	if len(outs) > 0 {
		if len(outs) > 6 {
			outs = outs[:6]
		}
		w["runs"] = outs
	}
	var series []string
	for _, s := range r.place {
		series = append(series, fmt.Sprintf("%s %v shard=%d points=%d", s.Metric, s.Tags, s.Shard, len(s.Slots)))
	}
	w["series"] = series
	return w
}

// modelDiffs compares a result of the full form of a statement with the naive model. Where a series of a histogram metric
// never observes one of the buckets, the model's quantile (defined over the buckets that have data, as validated by C11 for
// histograms whose buckets all have observations) is not the language's definition: those values are only compared between
// layouts, not with the model.
func (r *runner) modelDiffs(q *query, res *node.QueryResult) []node.Diff {
	diffs := node.Compare(q.exp, res.ResultSet, q.Q.GroupBy, node.CompareOptions{})
	sparse := false
	if ms := r.ds.metric(q.Q.Metric); ms != nil {
		for _, s := range ms.Series {
			if len(s.EmptyBuckets) > 0 {
				sparse = true
			}
		}
	}
	if !sparse {
		return diffs
	}
	kept := diffs[:0]
	for _, d := range diffs {
		if q.exp.ZeroFill[d.Item] && d.Item != "" {
			r.res.count("quantile_values_of_sparse_histograms_not_compared_with_the_model", 1)
			continue
		}
		kept = append(kept, d)
	}
	return kept
}

// emptyGroups counts the groups of the statement that exist (series of the metric matching the condition and carrying
// the group by keys) but have no data in the range.
func (r *runner) emptyGroups(q *query, full resultMap) int {
	seen := map[string]bool{}
	for _, s := range r.place {
		if s.Metric != q.Q.Metric || (q.Q.Cond != nil && !q.Q.Cond.Match(s.Tags)) {
			continue
		}
		ok := true
		for _, k := range q.Q.GroupBy {
			if _, has := s.Tags[k]; !has {
				ok = false
			}
		}
		if !ok {
			continue
		}
		g := node.GroupKeyOf(q.Q.GroupBy, s.Tags)
		if _, has := full[g]; !has {
			seen[g] = true
		}
	}
	return len(seen)
}

// permsFor returns the delivery orders for k leaf responses: all of them for k <= 4, seeded random ones above.
func (r *runner) permsFor(k int) (perms [][]int, exhaustive bool) {
	if k <= 4 {
		return allPerms(k), true
	}
	n := 5
	if r.tier == "thorough" {
		n = 16
	}
	for i := 0; i < n; i++ {
		perms = append(perms, r.rnd.Perm(k))
	}
	return perms, false
}

// runLayout runs every query under every delivery order of one layout.
func (r *runner) runLayout(l layoutSpec, iso *isoPlacement) {
	cl := r.newCluster(l, iso)
	defer func() { cl.close() }()
	r.res.count("layouts."+l.kind(), 1)
	stuckBudget := 2
	if l.MaxQueries > 0 && l.computeTargets() > 1 {
		stuckBudget = l.MaxQueries
	}
	// ct: compute targets of the root's plan. With more than one, no statement is answered on the unchanged tree (open
	// finding): such layouts only get a few runs, which observe the plan, who asked the leaves and the leaf -> target split.
	ct := l.computeTargets()
	ran, stuckRuns := 0, 0
	for _, q := range r.queries {
		base := r.base[q.ID]
		if base == nil || base.Skip != "" {
			continue
		}
		if l.Intermediates > 0 && !q.grouped() {
			continue // the root asks for one node: the plan is the direct one, already covered without intermediates
		}
		if ct <= 1 && l.MaxQueries > 0 && ran >= l.MaxQueries {
			break
		}
		if ct <= 1 && l.ComputeCap > 0 && stuckRuns >= 3 {
			break // an additional layout that keeps not answering has said what it has to say
		}
		ran++
		holdings := r.leafHoldings(l, q)
		k := len(l.Leaves)
		perms, exhaustive := r.permsFor(k)
		if l.MaxPerms > 0 && len(perms) > l.MaxPerms {
			// the first, the last (reverse order for the exhaustive list) and seeded picks in between
			sel := [][]int{perms[0], perms[len(perms)-1]}
			for len(sel) < l.MaxPerms {
				sel = append(sel, perms[1+r.rnd.Intn(len(perms)-2)])
			}
			perms = sel[:l.MaxPerms]
		}
		if ct > 1 {
			if len(l.Leaves) < 2 || stuckBudget == 0 {
				continue
			}
			stuckBudget--
			perms, exhaustive = [][]int{nil}, false
		}
		var outs []*outcome
		bad := 0
		for pi, perm := range perms {
			strict := exhaustive
			if !exhaustive && ct <= 1 {
				cl.setDelays(rand.New(rand.NewSource(r.seed*131 + int64(r.ds.Index)*17 + int64(q.ID)*7 + int64(pi))))
			}
			o := r.runOne(cl, l, q, perm, strict)
			if strings.HasPrefix(o.Class, "C12/error-lost/") {
				// the known way to lose the error is a race between the last response and the root's own request
				// pipeline: it does not repeat. An error that is lost on every attempt is something else.
				repeated := true
				for attempt := 0; attempt < 2 && repeated; attempt++ {
					cl.setResponseDelay(150 * time.Millisecond)
					again := r.runOne(cl, l, q, perm, strict)
					cl.clearDelays()
					r.res.count("runs", 1)
					if again.recreate {
						cl.close()
						cl = r.newCluster(l, iso)
					}
					repeated = strings.HasPrefix(again.Class, "C12/error-lost/")
				}
				if repeated {
					o.Class = "C12/answer-instead-of-error/" + l.kind() + "/on-every-attempt"
				} else {
					r.res.count("lost_errors_that_did_not_repeat_on_retry", 1)
				}
			}
			if strings.HasPrefix(o.Class, "C12/result-differs/") || strings.HasPrefix(o.Class, "C12/empty-instead-of-answer/") {
				// a difference must repeat under the same delivery order; one that does not is not a matter of the layout
				again := r.runOne(cl, l, q, perm, strict)
				r.res.count("runs", 1)
				if again.recreate {
					cl.close()
					cl = r.newCluster(l, iso)
				}
				if again.Class != o.Class && !again.TimedOut && !again.Stuck {
					same := true
					a, b := map[string]string{}, map[string]string{}
					for k, v := range o.LeafDigests {
						a[k[:strings.Index(k, "#")]] = v
					}
					for k, v := range again.LeafDigests {
						b[k[:strings.Index(k, "#")]] = v
					}
					for k, v := range a {
						if b[k] != v {
							same = false
							o.Problem = fmt.Sprintf("leaf answer %s carried %q in this run and %q when the run was repeated with the same delivery order (verdict of the repetition: %q); %s", k, v, b[k], again.Class, o.Problem)
							break
						}
					}
					if same {
						o.Class += "/not-repeated-with-the-same-leaf-answers-and-delivery-order"
					} else {
						o.Class = "C12/leaf-answer-differs-between-runs/" + l.kind()
						r.res.count("leaf_answers_that_differ_between_two_runs_of_one_statement", 1)
					}
				}
			}
			if !exhaustive && ct <= 1 {
				cl.clearDelays()
			}
			if o.Stuck {
				stuckRuns++
			}
			outs = append(outs, o)
			r.res.count("runs", 1)
			r.res.count(fmt.Sprintf("runs.leaves.%d", k), 1)
			if exhaustive {
				r.res.count("runs.exhaustive_permutation", 1)
			} else {
				r.res.count("runs.random_permutation_with_delays", 1)
			}
			if l.Isolated {
				r.res.count("runs.isolated_metadata", 1)
			}
			if o.recreate {
				cl.close()
				cl = r.newCluster(l, iso)
			}
			if o.TimedOut {
				r.res.Notes = append(r.res.Notes, fmt.Sprintf("watchdog: data set %d shards %d %s: %s", r.ds.Index, r.shards, l, q.SQLText))
				continue
			}
			if o.Class != "" {
				bad++
				r.classifyIsolated(l, q, o, holdings, o.res, o.specs)
			}
			// what the run observed
			if !base.Full.empty() && base.Err == "" {
				r.res.count("runs.reference_non_empty", 1)
				for _, h := range holdings {
					if h != "matching-data" {
						r.res.count("runs_with_a_leaf_without_matching_data."+h, 1)
						break
					}
				}
				if o.Class == "" && (k > 1 || r.shards > 1) {
					r.res.Nontrivial = append(r.res.Nontrivial, fmt.Sprintf("%d/%d/%s/%v/%d", r.ds.Index, r.shards, l.Name+fmt.Sprint(l.Intermediates, l.Isolated), perm, q.ID))
				}
			}
		}
		// what a leaf answers is a function of its data and the statement: it must not change from run to run. A run whose
		// result differs AND whose leaf answers differ from those of a run that equals the reference is a leaf-side matter.
		strip := func(o *outcome) map[string]string {
			m := map[string]string{}
			for k, v := range o.LeafDigests {
				m[k[:strings.Index(k, "#")]] = v
			}
			return m
		}
		var good map[string]string
		for _, o := range outs {
			if o.Class == "" && !o.TimedOut && !o.Stuck {
				good = strip(o)
				break
			}
		}
		if good != nil && ct <= 1 {
			for _, o := range outs {
				if o.TimedOut || o.Stuck {
					continue
				}
				for k, v := range strip(o) {
					if gv, ok := good[k]; ok && gv != v {
						r.res.count("leaf_answers_that_differ_between_two_runs_of_one_statement", 1)
						if strings.HasPrefix(o.Class, "C12/result-differs/") {
							o.Class = "C12/leaf-answer-differs-between-runs/" + l.kind()
							o.Problem = fmt.Sprintf("leaf answer %s carried %q in this run and %q in a run that equals the reference; %s", k, v, gv, o.Problem)
						}
						break
					}
				}
			}
		}
		if bad == 0 {
			continue
		}
		// classify per (layout, statement): does the verdict depend on the delivery order?
		byClass := map[string][]*outcome{}
		for _, o := range outs {
			if o.Class != "" {
				byClass[o.Class] = append(byClass[o.Class], o)
			}
		}
		for class, os := range byClass {
			final := class
			if bad < len(outs) && !strings.HasPrefix(class, "C12/never-answers") && !strings.HasPrefix(class, "C12/generator") &&
				!strings.HasPrefix(class, "C12/order-by-limit/groups-without-data") {
				final = class + "/depends-on-response-order"
			}
			msg := fmt.Sprintf("data set %d, %d shards, %s; %s\n%s (%d of %d delivery orders)", r.ds.Index, r.shards, l, q.SQLText, os[0].Problem, len(os), len(outs))
			w := r.witness(l, q, os)
			w["leaf_holdings"] = holdings
			for _, o := range outs {
				if o.Class == "" && !o.TimedOut {
					// for comparison: what the leaves sent in a run that equals the reference (digests without the
					// message numbers: sender>receiver -> digest)
					good := map[string]string{}
					for k, v := range o.LeafDigests {
						good[k[:strings.Index(k, "#")]] = v
					}
					w["leaf_digests_of_a_run_equal_to_the_reference"] = good
					w["delivery_order_of_that_run"] = o.Delivered
					break
				}
			}
			for range os {
				r.res.violation(final, msg, w)
			}
		}
	}
}

// ---------------------------------------------------------------------------------------------
// the reference: one shard, one leaf, in order; compared with the naive model

func (r *runner) runBaseline() map[int]*baseEntry {
	l := layoutSpec{Name: "reference", Leaves: [][]models.ShardID{{0}}}
	cl := r.newCluster(l, nil)
	defer func() { cl.close() }()
	out := map[int]*baseEntry{}
	for _, q := range r.queries {
		be := &baseEntry{ID: q.ID, SQL: q.SQLText, Full: resultMap{}}
		out[q.ID] = be
		r.res.count("reference_queries."+q.Kind, 1)
		cl.rec.reset()
		full := cl.c.Query(q.FullSQL)
		r.res.Evals++
		if full.Stuck || full.TimedOut || full.ParseErr {
			be.Skip = fmt.Sprintf("reference run: stuck=%v timedout=%v parse=%v err=%v", full.Stuck, full.TimedOut, full.ParseErr, full.Err)
			if full.ParseErr {
				r.res.violation("C12/generator/statement-rejected", fmt.Sprintf("%s: %v", q.FullSQL, full.Err), nil)
			} else if full.Stuck {
				r.res.violation("C12/never-answers/direct/reference", fmt.Sprintf("data set %d: %s never answers on one shard, one leaf", r.ds.Index, q.FullSQL), map[string]interface{}{"dump": tail(full.StuckDump, 4000)})
			} else {
				r.res.Notes = append(r.res.Notes, "watchdog: reference "+q.FullSQL)
			}
			cl.close()
			cl = r.newCluster(l, nil)
			continue
		}
		if (q.ErrWanted != "" || q.exp.ErrorExpected != "") && full.Err == nil && got0(full) {
			// the known race that loses the error of an all-not-found answer does not repeat; retry before judging
			for attempt := 0; attempt < 2 && full.Err == nil; attempt++ {
				cl.setResponseDelay(150 * time.Millisecond)
				full = cl.c.Query(q.FullSQL)
				cl.clearDelays()
				r.res.Evals++
			}
			if full.Err != nil {
				r.res.count("lost_errors_that_did_not_repeat_on_retry", 1)
				r.res.violation("C12/error-lost/every-leaf-answered-not-found-but-the-root-answers-empty",
					fmt.Sprintf("data set %d: %s on one shard, one leaf answered with an empty result once and with %q when repeated", r.ds.Index, q.FullSQL, full.Err), nil)
			}
		}
		be.FullErr = errString(full.Err)
		be.Full, be.Header = toMap(full.ResultSet, q.Q.GroupBy)
		// reference vs naive model
		switch {
		case q.ErrWanted != "" || q.exp.ErrorExpected != "":
			if full.Err == nil {
				r.res.violation("C12/reference-vs-model/answer-instead-of-error", fmt.Sprintf("data set %d: %s: the language rejects it (%s%s), lindb answered", r.ds.Index, q.FullSQL, q.ErrWanted, q.exp.ErrorExpected),
					map[string]interface{}{"sql": q.FullSQL, "got": canonOf(be.Full, be.Header)})
				be.Skip = "reference differs from the model"
			} else {
				r.res.count("reference_errors_as_the_language_defines", 1)
			}
		case full.Err != nil:
			r.res.violation("C12/reference-vs-model/error-instead-of-answer/"+errKind(full.Err), fmt.Sprintf("data set %d: %s: %v", r.ds.Index, q.FullSQL, full.Err),
				map[string]interface{}{"sql": q.FullSQL, "seed": r.seed, "data_set": r.ds.Index})
			be.Skip = "reference differs from the model"
		default:
			diffs := r.modelDiffs(q, full)
			if len(diffs) > 0 {
				// a difference that does not repeat is the leaf's business (see C12/leaf-answer-differs-between-runs)
				again := cl.c.Query(q.FullSQL)
				r.res.Evals++
				if again.Err == nil && !again.Stuck && !again.TimedOut {
					if d2 := r.modelDiffs(q, again); len(d2) == 0 {
						r.res.violation("C12/leaf-answer-differs-between-runs/reference",
							fmt.Sprintf("data set %d: %s on one shard, one leaf differed from the naive model once (%s) and equals it when repeated", r.ds.Index, q.FullSQL, diffs[0]), nil)
						full, diffs = again, nil
						be.Full, be.Header = toMap(full.ResultSet, q.Q.GroupBy)
					}
				}
			}
			if len(diffs) > 0 {
				var ds []string
				for i, d := range diffs {
					if i < 8 {
						ds = append(ds, d.String())
					}
				}
				r.res.violation("C12/reference-vs-model/"+diffs[0].Kind, fmt.Sprintf("data set %d (flush mode %s): %s: %d differences to the naive model, first: %s", r.ds.Index, r.ds.FlushMode, q.FullSQL, len(diffs), diffs[0]),
					map[string]interface{}{"sql": q.FullSQL, "seed": r.seed, "data_set": r.ds.Index, "diffs": ds, "got": canonOf(be.Full, be.Header)})
				// the layouts are still compared with this reference: a defect of the wire format or of the merge shows in both ways
				r.res.count("references_that_differ_from_the_model_and_are_still_used_for_layout_comparison", 1)
			} else {
				r.res.count("reference_results_equal_to_the_naive_model", 1)
				if !q.exp.Empty() {
					r.res.count("reference_results_non_empty", 1)
				}
				if q.exp.MultiContributorBuckets > 0 {
					r.res.count("reference_results_with_values_merged_from_several_series_or_slots", 1)
				}
			}
		}
		// the statement as sent (order by / limit) on the reference layout
		be.Err = be.FullErr
		if q.SQLText != q.FullSQL && be.Skip == "" {
			res := cl.c.Query(q.SQLText)
			r.res.Evals++
			be.Err = errString(res.Err)
			if res.Stuck || res.TimedOut || res.ParseErr {
				be.Skip = fmt.Sprintf("reference run of the limited form: stuck=%v timedout=%v parse=%v err=%v", res.Stuck, res.TimedOut, res.ParseErr, res.Err)
				if res.ParseErr {
					r.res.violation("C12/generator/statement-rejected", fmt.Sprintf("%s: %v", q.SQLText, res.Err), nil)
				}
				cl.close()
				cl = r.newCluster(l, nil)
				continue
			}
			if (res.Err == nil) != (full.Err == nil) {
				r.res.violation("C12/reference/limited-form-errs-differently", fmt.Sprintf("%s: %v; unlimited: %v", q.SQLText, res.Err, full.Err), nil)
				be.Skip = "limited form errs differently"
				continue
			}
			if res.Err == nil {
				got, _ := toMap(res.ResultSet, q.Q.GroupBy)
				solid, lenientGroups := r.splitLenient(q, be.Full)
				var kept []string
				for g := range got {
					if _, ok := solid[g]; ok || be.Full[g] == nil {
						kept = append(kept, g)
					}
				}
				sort.Strings(kept)
				visibleLenient := 0
				for g := range got {
					if es := q.exp.Series[g]; es != nil && lenientOnly(es) {
						visibleLenient++
					}
				}
				problem, _, kind := keptVerdict(q, kept, solid, visibleLenient, r.emptyGroups(q, be.Full)+lenientGroups)
				diffs := diffMaps(got, be.Full, true, r.freeCell(q))
				viaEmpty := kind == "empty"
				if kind == "lenient" && problem == "" && len(diffs) == 0 {
					r.res.violation(lenientSlotClass,
						fmt.Sprintf("data set %d: %s on one shard, one leaf: kept groups %v (limit %d, %d groups with data): result slots are held by visible groups whose only values are binary expressions evaluated with an operand without data",
							r.ds.Index, q.SQLText, kept, q.Q.Limit, len(solid)),
						map[string]interface{}{"sql": q.SQLText, "full": canonOf(be.Full, be.Header), "got": canonOf(got, be.Header), "seed": r.seed, "data_set": r.ds.Index})
				} else if viaEmpty && problem == "" && len(diffs) == 0 {
					r.res.violation("C12/order-by-limit/groups-without-data-hold-result-slots",
						fmt.Sprintf("data set %d: %s on one shard, one leaf: kept groups %v are only explained by groups without data in the range holding result slots (limit %d, %d groups with data)",
							r.ds.Index, q.SQLText, kept, q.Q.Limit, len(be.Full)),
						map[string]interface{}{"sql": q.SQLText, "full": canonOf(be.Full, be.Header), "got": canonOf(got, be.Header), "seed": r.seed, "data_set": r.ds.Index})
				} else if problem != "" || len(diffs) > 0 {
					if problem == "" {
						problem = diffs[0].String()
					}
					r.res.violation("C12/reference/order-by-limit", fmt.Sprintf("data set %d: %s on one shard, one leaf: %s", r.ds.Index, q.SQLText, problem),
						map[string]interface{}{"sql": q.SQLText, "full": canonOf(be.Full, be.Header), "got": canonOf(got, be.Header), "seed": r.seed, "data_set": r.ds.Index})
					be.Skip = "limited form differs from the language's definition on the reference layout"
				} else {
					r.res.count("reference_limited_results_allowed_by_the_language", 1)
				}
			}
		}
		if r.res.Sample == nil && !be.Full.empty() && be.Skip == "" {
			r.res.Sample = map[string]interface{}{"data_set": r.ds.Index, "sql": q.SQLText, "flush_mode": r.ds.FlushMode,
				"points": r.ds.Stats["points"], "series": len(r.place), "reference_points": be.Full.points()}
		}
	}
	return out
}

// ---------------------------------------------------------------------------------------------
// the child process

func shardIDs(n int) []models.ShardID { return shardRange(0, n) }

func runCase(idx, shards int, dir, tier string, seed, base int64, baseFile string) *childResult {
	res := &childResult{DataSet: idx, Shards: shards}
	ds := genDataSet(seed, idx, tier, base)
	model := ds.model()
	queries := genQueries(seed, ds, model, tier)
	place, err := ds.placement(shards)
	if err != nil {
		res.Notes = append(res.Notes, "harness: placement: "+err.Error())
		return res
	}
	r := &runner{res: res, seed: seed, tier: tier, ds: ds, shards: shards, model: model, queries: queries, place: place,
		rnd: rand.New(rand.NewSource(seed*977 + int64(idx)*31 + int64(shards))), verbose: os.Getenv("C12_VERBOSE") != ""}
	n, err := node.Open(node.Options{Dir: filepath.Join(dir, "node"), ShardIDs: shardIDs(shards)})
	if err != nil {
		res.Notes = append(res.Notes, "harness: open: "+err.Error())
		return res
	}
	defer n.Close()
	r.n = n
	if err := ds.load(sharedWriter{n}); err != nil {
		res.Notes = append(res.Notes, "harness: load: "+err.Error())
		return res
	}
	res.count("data_sets.flush_mode."+ds.FlushMode, 1)
	if extra := os.Getenv("C12_EXTRA_SQL"); extra != "" {
		// debugging: run statements on a layout (default all shards on one leaf; C12_EXTRA_LAYOUT="0,1|2,3", C12_EXTRA_INTER=1,
		// C12_EXTRA_PERM="1,0") and print the leaf responses and the results
		dl := layoutSpec{Name: "debug", Leaves: [][]models.ShardID{shardIDs(shards)}}
		if v := os.Getenv("C12_EXTRA_LAYOUT"); v != "" {
			dl.Leaves = nil
			for _, part := range strings.Split(v, "|") {
				var ids []models.ShardID
				for _, x := range strings.Split(part, ",") {
					var id int
					fmt.Sscan(x, &id)
					ids = append(ids, models.ShardID(id))
				}
				dl.Leaves = append(dl.Leaves, ids)
			}
		}
		fmt.Sscan(os.Getenv("C12_EXTRA_INTER"), &dl.Intermediates)
		cl := r.newCluster(dl, nil)
		var perm []int
		for _, x := range strings.Split(os.Getenv("C12_EXTRA_PERM"), ",") {
			var v int
			if _, err := fmt.Sscan(x, &v); err == nil {
				perm = append(perm, v)
			}
		}
		cl.c.OnLeafResult = func(leaf string, resp *protoCommonV1.TaskResponse) {
			tsl := &protoCommonV1.TimeSeriesList{}
			_ = tsl.Unmarshal(resp.Payload)
			fmt.Printf("  LEAF %s err=%q specs=%d:", leaf, resp.ErrMsg, len(tsl.FieldAggSpecs))
			for _, sp := range tsl.FieldAggSpecs {
				fmt.Printf(" %s/%d%v", sp.FieldName, sp.FieldType, sp.FuncTypeList)
			}
			fmt.Println()
			for _, ts := range tsl.TimeSeriesList {
				var fs []string
				for f, d := range ts.Fields {
					fs = append(fs, fmt.Sprintf("%s:%dB", f, len(d)))
				}
				sort.Strings(fs)
				fmt.Printf("    group %q %v\n", ts.Tags, fs)
			}
		}
		for _, sql := range strings.Split(extra, ";") {
			if perm != nil {
				cl.c.SetScheduler(&permScheduler{Leaf: cl.leaf, Perm: perm, Strict: true})
			}
			qr := cl.c.Query(sql)
			gb := []string{}
			if qr.Statement != nil {
				gb = qr.Statement.GroupBy
			}
			fmt.Printf("EXTRA %s\n  err=%v stuck=%v\n%s\n", sql, qr.Err, qr.Stuck, node.Canonical(qr.ResultSet, gb))
		}
		cl.close()
	}
	if shards == 1 {
		for k, v := range ds.Stats {
			res.count("data."+k, v)
		}
		res.count("data_sets", 1)
		r.base = r.runBaseline()
		data, _ := json.Marshal(r.base)
		if err := os.WriteFile(baseFile, data, 0o644); err != nil {
			res.Notes = append(res.Notes, "harness: "+err.Error())
		}
		return res
	}
	data, err := os.ReadFile(baseFile)
	if err == nil {
		err = json.Unmarshal(data, &r.base)
	}
	if err != nil {
		res.Notes = append(res.Notes, "harness: reference file: "+err.Error())
		return res
	}
	used := map[int]bool{}
	for _, s := range place {
		used[s.Shard] = true
	}
	res.count(fmt.Sprintf("shards_holding_series.of_%d", shards), len(used))
	parts := partitions(shards, place, ds.Metrics[0].Name, r.rnd)
	only := os.Getenv("C12_ONLY_LAYOUT")
	for _, p := range parts {
		for _, inter := range []int{0, 1, 2} {
			l := p
			l.Intermediates = inter
			if inter > 0 && len(l.Leaves) < 2 {
				continue // one storage node: the chooser builds the direct plan
			}
			if inter == 2 && p.Name != "split-in-two" && p.Name != "one-shard-per-leaf" {
				continue
			}
			if only != "" && !strings.Contains(l.String(), only) {
				continue
			}
			r.runLayout(l, nil)
		}
	}
	if shards == 2 && only == "" {
		r.runFastTransport(layoutSpec{Name: "fast-transport-one-leaf", Leaves: [][]models.ShardID{{0, 1}}})
		r.runFastTransport(layoutSpec{Name: "fast-transport-two-leaves", Leaves: [][]models.ShardID{{0}, {1}}})
	}
	// more live brokers than compute targets: flow.BuildPhysicalPlan leaves live nodes out of the plan. One target picked
	// among 3 / 7 live brokers (what coordinator/root's Choose(database, 1) gets from a broker cluster) answers on the
	// unchanged tree and must equal the reference; 5 targets of 6 / 8 live brokers (group by on a broker cluster of that
	// size) never answer there (open finding), these runs observe the plan and that the executing target asked every leaf.
	// They use a PRNG of their own: the case lists of the layouts above and below stay what they were.
	{
		byName := map[string]*layoutSpec{}
		for i := range parts {
			byName[parts[i].Name] = &parts[i]
		}
		var extra []layoutSpec
		add := func(name string, inter, limit, maxQueries, maxPerms int) {
			p := byName[name]
			if p == nil || len(p.Leaves) < 2 {
				return
			}
			l := *p
			l.Intermediates, l.ComputeCap, l.MaxQueries, l.MaxPerms = inter, limit, maxQueries, maxPerms
			extra = append(extra, l)
		}
		nq := 5
		if tier == "thorough" {
			nq = 12
		}
		add("split-in-two", 3, 1, nq, 0)
		if byName["three-leaves"] != nil {
			add("three-leaves", 7, 1, nq, 3)
		} else {
			add("split-in-two", 7, 1, nq, 0)
		}
		// (a run that never answers costs three grace periods: one such layout per child, alternating)
		switch {
		case (idx+shards/2)%2 == 0:
			add("split-in-two", 6, 0, 1, 0)
		case byName["one-shard-per-leaf"] != nil:
			add("one-shard-per-leaf", 8, 0, 1, 0)
		default:
			add("split-in-two", 8, 0, 1, 0)
		}
		saved := r.rnd
		r.rnd = rand.New(rand.NewSource(seed*7919 + int64(idx)*53 + int64(shards)*3 + 1))
		if os.Getenv("C12_NO_EXTRA") != "" { // debugging / timing: without the additional layouts
			extra = nil
		}
		for _, l := range extra {
			if only != "" && !strings.Contains(l.String(), only) {
				continue
			}
			r.runLayout(l, nil)
		}
		r.rnd = saved
	}
	// isolated metadata: every leaf is a database of its own
	var isoParts []layoutSpec
	for _, p := range parts {
		if len(p.Leaves) >= 2 {
			isoParts = append(isoParts, p)
		}
	}
	r.rnd.Shuffle(len(isoParts), func(a, b int) { isoParts[a], isoParts[b] = isoParts[b], isoParts[a] })
	maxIso := 2
	if tier == "thorough" {
		maxIso = 4
	}
	if os.Getenv("C12_NO_ISOLATED") != "" {
		maxIso = 0
	}
	for i, p := range isoParts {
		if i >= maxIso {
			break
		}
		iso, err := newIsoPlacement(n, fmt.Sprintf("iso%d", i), shards, p.Leaves)
		if err == nil {
			err = ds.load(iso)
		}
		if err != nil {
			res.Notes = append(res.Notes, "harness: isolated placement: "+err.Error())
			continue
		}
		for _, inter := range []int{0, 1} {
			l := p
			l.Isolated, l.Intermediates = true, inter
			if only != "" && !strings.Contains(l.String(), only) {
				continue
			}
			r.runLayout(l, iso)
		}
	}
	return res
}

func tail(s string, n int) string {
	if len(s) > n {
		return s[len(s)-n:]
	}
	return s
}
