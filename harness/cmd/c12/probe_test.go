package main

import (
	"fmt"
	"os"
	"testing"
	"time"

	"github.com/lindb/lindb/models"
	"github.com/lindb/lindb/verif/internal/node"
)

func probeBase() int64 {
	now := time.Now().UnixMilli()
	return now - now%3600_000 - 4*3600_000
}

func TestProbeIso(t *testing.T) {
	dir, _ := os.MkdirTemp("", "c12probe")
	defer os.RemoveAll(dir)
	n, err := node.Open(node.Options{Dir: dir, ShardIDs: []models.ShardID{0, 1, 2, 3}})
	if err != nil {
		t.Fatal(err)
	}
	defer n.Close()
	t0 := probeBase()
	var pts []node.Point
	for i := 0; i < 8; i++ {
		p := node.Point{Metric: "m", Tags: map[string]string{"host": fmt.Sprintf("h%d", i), "dc": []string{"a", "b"}[i%2]}, Timestamp: t0 + int64(i)*10_000,
			Fields: []node.Field{{Name: "f1", Type: node.Sum, Value: float64(i + 1)}}}
		if i%2 == 0 {
			p.Fields = append(p.Fields, node.Field{Name: "f2", Type: node.Sum, Value: 100})
		}
		s, _ := node.ShardOf(p, 4)
		fmt.Println("point", i, "shard", s)
		pts = append(pts, p)
	}
	if _, err := n.Write(pts); err != nil {
		t.Fatal(err)
	}
	iso, err := newIsoPlacement(n, "iso0", 4, [][]models.ShardID{{0, 1}, {2, 3}})
	if err != nil {
		t.Fatal(err)
	}
	if err := iso.write(pts); err != nil {
		t.Fatal(err)
	}
	rng := fmt.Sprintf("time >= '%s' and time <= '%s'", node.FormatTime(t0), node.FormatTime(t0+3600_000-1000))
	for _, sql := range []string{
		"select f1 from 'm' where " + rng + " group by dc",
		"select f1,f2 from 'm' where " + rng + " group by dc",
		"select f1,f2 from 'm' where " + rng,
		"select f2 from 'm' where " + rng,
		"select f1 from 'm' where host='h1' and " + rng,
		"select f1 from 'nometric' where " + rng,
		"select f1 from 'm' where " + rng + " group by host order by f1 desc limit 3",
		"select f1 from 'm' where " + rng + " group by host limit 3",
		"select sum(f1) from 'm' where " + rng + " group by host order by sum(f1) desc limit 3",
		"select f1 as x from 'm' where " + rng + " group by host order by f1 desc limit 3",
	} {
		for _, mode := range []string{"shared-1leaf", "shared-2leaf", "iso-2leaf", "iso-2leaf-rev", "iso-2leaf-inter"} {
			var c *node.Cluster
			switch mode {
			case "shared-1leaf":
				c = node.NewCluster(n, node.Layout{})
			case "shared-2leaf":
				c = node.NewCluster(n, node.Layout{Leaves: []node.LeafSpec{{Shards: []models.ShardID{0, 1}}, {Shards: []models.ShardID{2, 3}}}})
			case "iso-2leaf", "iso-2leaf-rev":
				c = node.NewCluster(n, iso.layout(0))
				iso.attach(c, nil)
				if mode == "iso-2leaf-rev" {
					c.SetScheduler(&node.ResponseOrder{Receiver: c.RootID, Perm: []int{1, 0}})
				} else {
					c.SetScheduler(&node.ResponseOrder{Receiver: c.RootID, Perm: []int{0, 1}})
				}
			case "iso-2leaf-inter":
				c = node.NewCluster(n, iso.layout(1))
				iso.attach(c, nil)
			}
			c.Grace = 200 * time.Millisecond
			res := c.Query(sql)
			gb := []string{}
			if res.Statement != nil {
				gb = res.Statement.GroupBy
			}
			fmt.Printf("%-16s %s\n   err=%v stuck=%v stats=%+v\n   %s\n", mode, sql, res.Err, res.Stuck, c.Stats(), indent(node.Canonical(res.ResultSet, gb)))
			c.Close()
			iso.detach()
		}
	}
}

func indent(s string) string {
	out := ""
	for _, r := range s {
		out += string(r)
		if r == '\n' {
			out += "   "
		}
	}
	return out
}
