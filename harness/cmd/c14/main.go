// Engine for property C14: storage codecs are lossless.
//
// Parent: plans families of generated cases, runs them in child processes (so that a panic / fatal error /
// hang of a codec is attributed to the case that was logged just before), merges what the children observed.
// Child: `c14 child <family> <lo> <hi> <resultfile> <logfile>` runs cases lo..hi-1 of one family; a case is a
// deterministic function of (VERIF_SEED, tier, family, index).
package main

import (
	"encoding/json"
	"fmt"
	"os"
	"os/exec"
	"path/filepath"
	"regexp"
	"runtime"
	"runtime/debug"
	"runtime/pprof"
	"strconv"
	"strings"
	"sync"
	"time"

	"github.com/lindb/lindb/verif/internal/core"
)

type family struct {
	name        string
	ctx         string // prefix of the violation classes
	quick       int    // number of cases per tier
	thorough    int
	batches     int // number of child processes the cases are split over (quick; thorough uses 4x)
	raceBatches int
	raceFrac    int // 1/raceFrac of the quick case count is repeated under -race (checkptr) / -asan; 0 = never
	run         func(ks *kase)
}

func families(tier string) []family {
	snappyMax := 1 << 20
	if tier == "thorough" {
		snappyMax = 8 << 20
	}
	return []family{
		{"tsd", "tsd", 160_000, 5_000_000, 32, 8, 100, caseTSD},
		{"tsdpool", "tsdpool", 6_000, 200_000, 16, 4, 40, caseTSDPool},
		{"tsdstream", "tsdstream", 12_000, 400_000, 8, 2, 40, caseTSDStream},
		{"xor", "xor", 40_000, 1_200_000, 8, 2, 40, caseXOR},
		{"xorref", "xorref", 30_000, 1_000_000, 8, 2, 40, caseXORRef},
		{"delta", "delta", 40_000, 1_200_000, 8, 2, 40, caseDelta},
		{"fixedoffset", "fixedoffset", 30_000, 1_000_000, 8, 2, 40, caseFixedOffset},
		{"bitmap", "bitmap", 6_000, 200_000, 16, 2, 40, caseBitmap},
		{"bitrw", "bitrw", 40_000, 1_200_000, 8, 2, 40, caseBitRW},
		{"snappy", "snappy", 1_500, 25_000, 16, 2, 40, func(ks *kase) { caseSnappy(ks, snappyMax) }},
		{"stream", "stream", 40_000, 1_200_000, 8, 2, 40, caseStream},
		{"utils", "utils", 40_000, 1_200_000, 4, 1, 40, caseUtils},
		{"reuse", "reuse", 42_000, 1_400_000, 8, 2, 40, caseReuse},
		{"keep", "keep", 28_000, 900_000, 8, 2, 40, caseKeep},
		{"edge", "edge", 14, 140, 1, 1, 2, caseEdge},
	}
}

// conc is the concurrent family: several goroutines run pool histories at the same time (meant for the -race binary).
const concGoroutines = 8

func familyByName(tier, name string) *family {
	for _, f := range families(tier) {
		if f.name == name {
			f := f
			return &f
		}
	}
	return nil
}

func main() {
	if len(os.Args) >= 7 && os.Args[1] == "child" {
		os.Exit(childMain(os.Args[2:]))
	}
	parentMain()
}

// ---------------------------------------------------------------------------------------------
// child

func childMain(args []string) int {
	famName := args[0]
	lo, _ := strconv.Atoi(args[1])
	hi, _ := strconv.Atoi(args[2])
	resFile, logFile := args[3], args[4]
	c := core.New("C14", "exploration") // only for tier / seed / Rand; never finishes
	k := newColl(famName, lo, hi, c.Seed)
	var logf *os.File
	if logFile != "/dev/null" {
		f, err := os.OpenFile(logFile, os.O_WRONLY|os.O_CREATE|os.O_TRUNC, 0o644)
		if err != nil {
			fmt.Fprintln(os.Stderr, "cannot open case log:", err)
			return 4
		}
		logf = f
		defer f.Close()
	}
	logCase := func(s string) {
		if logf != nil {
			_, _ = logf.WriteString(s) // unbuffered: in the kernel before the case runs
		}
	}
	runOne := func(ctx string, master uint64, idx int, fn func(*kase)) {
		ks := &kase{k: k, r: newRng(master, idx), idx: idx, ctx: ctx}
		defer func() {
			if p := recover(); p != nil {
				ks.fail("panic", fmt.Sprintf("panic on a valid round trip: %v", p),
					map[string]interface{}{"panic": fmt.Sprint(p), "stack": string(debug.Stack())})
			}
		}()
		fn(ks)
	}
	if famName == "conc" {
		pool := familyByName(c.Tier, "tsdpool")
		strm := familyByName(c.Tier, "tsdstream")
		fo := familyByName(c.Tier, "fixedoffset")
		master := c.Rand("c14/conc").Uint64()
		var wg sync.WaitGroup
		var logMu sync.Mutex
		for g := 0; g < concGoroutines; g++ {
			wg.Add(1)
			go func(g int) {
				defer wg.Done()
				for idx := lo + g; idx < hi; idx += concGoroutines {
					logMu.Lock()
					logCase(fmt.Sprintf("conc %d goroutine %d\n", idx, g))
					logMu.Unlock()
					switch idx % 7 {
					case 6:
						runOne("keepconc", master, idx, caseKeepShared)
					case 5:
						runOne("reuseconc", master, idx, caseReusePooled)
					case 0:
						runOne("tsdconc-stream", master, idx, strm.run)
					case 1:
						runOne("fixedoffsetconc", master, idx, fo.run)
					default:
						runOne("tsdconc", master, idx, pool.run)
					}
					k.count("concurrent_histories", 1)
				}
			}(g)
		}
		wg.Wait()
	} else {
		f := familyByName(c.Tier, famName)
		if f == nil {
			fmt.Fprintln(os.Stderr, "unknown family", famName)
			return 4
		}
		master := c.Rand("c14/" + famName).Uint64()
		for idx := lo; idx < hi; idx++ {
			logCase(famName + " " + strconv.Itoa(idx) + "\n")
			k.curIdx = idx
			runOne(f.ctx, master, idx, f.run)
		}
	}
	if pf := os.Getenv("VERIF_HEAPPROFILE"); pf != "" {
		if f, err := os.Create(pf); err == nil {
			runtime.GC()
			_ = pprof.WriteHeapProfile(f)
			_ = f.Close()
		}
	}
	if err := k.write(resFile, true); err != nil {
		fmt.Fprintln(os.Stderr, "cannot write result:", err)
		return 4
	}
	return 0
}

// ---------------------------------------------------------------------------------------------
// parent

type task struct {
	family string
	lo, hi int
	mode   string // plain | race | asan
	bin    string
	id     int
}

type taskOut struct {
	t       task
	res     *result
	child   core.ChildResult
	outFile string
	logFile string
	wall    time.Duration
}

var anchoredDirs = []string{"/pkg/encoding/", "/pkg/bit/", "/pkg/compress/", "/pkg/stream/", "/pkg/bufioutil/"}

func mentionsAnchored(s string) bool {
	for _, d := range anchoredDirs {
		if strings.Contains(s, d) {
			return true
		}
	}
	return false
}

func parentMain() {
	c := core.New("C14", "exploration")
	c.SetRule("a case is generated from (seed, family, index): a TSD block = slot window x slot mask style (empty/dense/sparse/single/runs/...) " +
		"x value style (IEEE classes, NaN payloads, subnormals, targeted XOR windows, ...); a pool history = 8..40 get/encode/abandon/hold/decode/release " +
		"operations on the package pools; analogous for XOR, delta, fixed offsets, bitmaps, bit streams, snappy chunks, stream sequences. " +
		"A case is non-trivial when it carries at least one value (blocks), >=2 values (XOR/delta), >8 bits (bit streams) etc.; distinctness is " +
		"by a 64 bit hash of the generated input (children report at most 4000 keys each, the measured total is in observed.nontrivial_inputs_total)")
	c.Assume("bytes.Buffer, sync.Pool, klauspost snappy and the roaring fork behave as documented; the check only feeds valid inputs (what the encoders themselves produced)")
	c.Assume("slot windows stay inside what the uint16 header can express; windows ending at slot 65535 are probed separately (family edge)")
	c.Assume("API preconditions kept as lindb's callers keep them: slots appended in ascending order, one Bytes()/BytesWithoutTime() per encoded block, " +
		"returned byte slices copied before the encoder is reused, Uncompress result consumed before the next call, delta sequences have >=1 value, offsets in [0,2^32-1]")

	scratch := c.Scratch()
	fams := families(c.Tier)
	var tasks []task
	// VERIF_C14_SCALE (percent, development only): shrinks the thorough case counts to try the thorough code path on a
	// busy machine; recorded in the evidence. Unset = 100: counts are a function of (seed, tier) only.
	scale := 100
	if v, err := strconv.Atoi(os.Getenv("VERIF_C14_SCALE")); err == nil && v > 0 && v < 100 && !c.Quick() {
		scale = v
		c.Set("dev_scale_percent", v)
	}
	add := func(name string, n, batches int, mode, bin string) {
		if scale != 100 && n > 100 {
			n = n * scale / 100
		}
		if n <= 0 {
			return
		}
		if batches > n {
			batches = n
		}
		per := (n + batches - 1) / batches
		for lo := 0; lo < n; lo += per {
			tasks = append(tasks, task{family: name, lo: lo, hi: min(lo+per, n), mode: mode, bin: bin, id: len(tasks)})
		}
	}
	raceBin := os.Getenv("VERIF_RACE_BIN")
	if raceBin == "" {
		c.Inconclusive("VERIF_RACE_BIN not set: the concurrent pool histories need the -race build (cmd/c14/RACE)")
	} else {
		// concurrent pool histories under the race detector, then a slice of every family (checkptr comes with -race)
		add("conc", c.Pick(2400, 80_000), c.Pick(6, 48), "race", raceBin)
		for _, f := range fams {
			if f.raceFrac > 0 {
				add(f.name, c.Pick(f.quick/f.raceFrac, f.quick), c.Pick(f.raceBatches, 4*f.raceBatches), "race", raceBin)
			}
		}
	}
	asanBin := ""
	if !c.Quick() {
		var err error
		asanBin, err = buildASan(scratch)
		if err != nil {
			c.Set("asan", "not run: "+err.Error())
		} else {
			c.Set("asan", "built")
			for _, f := range fams {
				if f.raceFrac > 0 {
					add(f.name, f.quick, 4, "asan", asanBin)
				}
			}
			add("conc", 4000, 4, "asan", asanBin)
		}
	}
	for _, f := range fams {
		n := c.Pick(f.quick, f.thorough)
		add(f.name, n, c.Pick(f.batches, f.batches*4), "plain", "")
	}
	// also run the concurrent histories without the race detector (more histories per second, result comparison only)
	add("conc", c.Pick(16_000, 500_000), c.Pick(8, 64), "plain", "")

	timeout := time.Duration(c.Pick(240, 4200)) * time.Second
	outs := make([]*taskOut, len(tasks))
	workers := runtime.NumCPU()
	core.Parallel(len(tasks), workers, func(i int) {
		t := tasks[i]
		base := filepath.Join(scratch, fmt.Sprintf("t%04d-%s-%s", t.id, t.family, t.mode))
		o := &taskOut{t: t, outFile: base + ".out", logFile: base + ".log"}
		env := []string{"VERIF_TIER=" + c.Tier, fmt.Sprintf("VERIF_SEED=%d", c.Seed)}
		switch t.mode {
		case "race":
			env = append(env, "GORACE=halt_on_error=0 history_size=3")
		case "asan":
			env = append(env, "ASAN_OPTIONS=detect_leaks=0:abort_on_error=0")
		}
		st := time.Now()
		o.child = core.RunChild(t.bin, []string{"child", t.family, strconv.Itoa(t.lo), strconv.Itoa(t.hi), base + ".res", o.logFile},
			env, timeout, o.outFile)
		o.wall = time.Since(st)
		if data, err := os.ReadFile(base + ".res"); err == nil {
			var r result
			if json.Unmarshal(data, &r) == nil && r.Done {
				o.res = &r
			}
		}
		outs[i] = o
	})

	// merge
	sampled := map[string]bool{}
	var ntTotal int64
	var slowest time.Duration
	for _, o := range outs {
		if o.wall > slowest {
			slowest = o.wall
		}
		label := o.t.family + "/" + o.t.mode
		if os.Getenv("VERIF_C14_TIMING") != "" {
			fmt.Printf("timing %-22s [%d,%d) %.1fs\n", label, o.t.lo, o.t.hi, o.wall.Seconds())
		}
		if o.res == nil {
			triageCrash(c, o)
			continue
		}
		c.Count("children_completed_"+o.t.mode, 1)
		c.Eval(int(o.res.Evals))
		for name, n := range o.res.Counters {
			c.Count(name, int(n))
			if o.t.mode != "plain" {
				c.Count(name+"_under_"+o.t.mode, int(n))
			}
		}
		c.Count("cases_"+label, o.t.hi-o.t.lo)
		for _, key := range o.res.Nontrivial {
			c.Nontrivial(key)
		}
		ntTotal += o.res.NTTotal
		if !sampled[o.t.family] && len(o.res.Samples) > 0 && o.t.mode == "plain" &&
			(o.t.family == "tsd" || o.t.family == "tsdpool" || o.t.family == "fixedoffset" || o.t.family == "snappy") {
			sampled[o.t.family] = true
			c.Sample(o.res.Samples[0])
		}
		for _, v := range o.res.Viols {
			for i := 0; i < v.Count; i++ {
				c.Violation(v.Class, v.Message, v.Witness)
			}
		}
		if o.t.mode == "race" {
			scanRaces(c, o)
		}
		if o.t.mode == "asan" {
			if data, err := os.ReadFile(o.outFile); err == nil && strings.Contains(string(data), "AddressSanitizer") {
				c.Violation("C14/"+o.t.family+"-asan-report", "AddressSanitizer report in a child that finished", map[string]interface{}{
					"family": o.t.family, "lo": o.t.lo, "hi": o.t.hi, "output_tail": tail(string(data), 6000)})
			}
		}
	}
	c.Count("nontrivial_inputs_total", int(ntTotal))
	c.Set("slowest_child_s", slowest.Seconds())
	c.Set("children", len(tasks))

	// a run that did not observe what the oracles rely on gives no verdict
	need := []string{
		"tsd_blocks_encoded", "tsd_sequential_reads", "tsd_slot_addressed_reads", "tsd_cursor_histories", "tsd_seeks_forward", "tsd_seeks_across_empty_slots", "tsd_seeks_across_empty_slots_positioned",
		"tsd_blocks_via_downsampling_emitter", "tsd_decodes_without_time_header", "tsd_mask_empty", "tsd_mask_dense", "tsd_mask_sparse", "tsd_mask_single",
		"pool_histories", "pool_encoder_reuse_observed", "pool_decoder_reuse_observed", "pool_encoder_released_dirty",
		"pool_decoder_released_midway", "pool_encoder_held_across_other_users", "pool_two_decoders_interleaved",
		"tsd_streams", "xor_streams", "xorref_new_window_values", "xor_encoder_reused", "delta_sequences", "delta_encoder_reused", "delta_decoder_reused",
		"fixedoffset_tables", "fixedoffset_width_1", "fixedoffset_width_2", "fixedoffset_width_3", "fixedoffset_width_4",
		"fixedoffset_decoder_from_pool", "fixedoffset_blocks_sliced", "bitmaps", "bit_streams", "snappy_chunks",
		"snappy_writer_reader_reused", "stream_sequences",
		"reuse_fixedoffset_rejected_input_right_after_valid", "reuse_delta_rejected_input_right_after_valid",
		"reuse_tsd_rejected_input_right_after_valid", "reuse_bitreader_rejected_input_right_after_valid",
		"reuse_xor_rejected_input_right_after_valid", "reuse_snappy_rejected_input_right_after_valid",
		"reuse_stream_rejected_input_right_after_valid", "reuse_fixedoffset_through_pool", "reuse_tsd_through_pool",
		"reuse_fixedoffset_valid_right_after_invalid", "reuse_snappy_valid_right_after_invalid",
		"keep_earlier_results_compared", "keep_earlier_results_decoded_bitmap", "keep_earlier_results_decoded_fixedoffset",
		"keep_earlier_results_decoded_delta", "keep_earlier_results_decoded_tsd", "keep_earlier_results_decoded_xor",
		"keep_earlier_results_decoded_stream", "keep_earlier_results_decoded_snappy", "util_cases", "edge_blocks_ending_at_slot_65535",
	}
	if raceBin != "" {
		need = append(need, "concurrent_histories_under_race", "pool_encoder_reuse_observed_under_race")
	}
	for _, name := range need {
		if c.Counter(name) == 0 && c.Violations() == 0 {
			c.Inconclusive("nothing observed for %q", name)
		}
	}
	c.Finish()
}

func tail(s string, n int) string {
	if len(s) > n {
		return s[len(s)-n:]
	}
	return s
}

func lastLine(path string) string {
	data, err := os.ReadFile(path)
	if err != nil {
		return ""
	}
	lines := strings.Split(strings.TrimSpace(string(data)), "\n")
	if len(lines) > concGoroutines {
		lines = lines[len(lines)-concGoroutines:]
	}
	if len(lines) > 0 && !strings.HasPrefix(lines[len(lines)-1], "conc") {
		return lines[len(lines)-1]
	}
	return strings.Join(lines, "; ")
}

// triageCrash turns a child that did not hand back a result into a violation (crash inside the anchored codecs
// on a valid input) or an inconclusive run (watchdog, harness trouble).
func triageCrash(c *core.Ctx, o *taskOut) {
	data, _ := os.ReadFile(o.outFile)
	out := string(data)
	last := lastLine(o.logFile)
	w := map[string]interface{}{
		"family": o.t.family, "mode": o.t.mode, "range": []int{o.t.lo, o.t.hi}, "last_case_logged": last,
		"exit_code": o.child.ExitCode, "timed_out": o.child.TimedOut, "output_tail": tail(out, 8000),
		"rerun": fmt.Sprintf("VERIF_SEED=%d VERIF_TIER=%s bin/c14 child %s <idx> <idx+1> /dev/stdout /dev/null", c.Seed, c.Tier, o.t.family),
	}
	switch {
	case o.child.TimedOut:
		c.Inconclusive("watchdog fired in family %s (%s), last case logged: %s", o.t.family, o.t.mode, last)
	case strings.Contains(out, "AddressSanitizer") && mentionsAnchored(out):
		c.Violation("C14/"+o.t.family+"-asan-report", "AddressSanitizer stopped the child at case: "+last, w)
	case (strings.Contains(out, "fatal error:") || strings.Contains(out, "panic:") || strings.Contains(out, "SIGSEGV") ||
		strings.Contains(out, "checkptr")) && mentionsAnchored(out):
		c.Violation("C14/"+o.t.family+"-crash", "child died inside the codecs on a valid input, last case logged: "+last, w)
	default:
		c.Inconclusive("child for family %s (%s) ended with exit code %d without a result (err=%v), last case logged: %s; output: %s",
			o.t.family, o.t.mode, o.child.ExitCode, o.child.Err, last, tail(out, 600))
	}
}

var raceFuncRe = regexp.MustCompile(`(?m)^\s+(github\.com/lindb/lindb/pkg/(?:encoding|bit|compress|stream|bufioutil)\.[^\s(]+(?:\([^)]*\))?[^\s(]*)\(`)

// scanRaces counts the race reports of a -race child; a report with a frame in the anchored codec packages is a violation.
func scanRaces(c *core.Ctx, o *taskOut) {
	data, err := os.ReadFile(o.outFile)
	if err != nil {
		return
	}
	blocks := strings.Split(string(data), "==================")
	for _, b := range blocks {
		if !strings.Contains(b, "WARNING: DATA RACE") {
			continue
		}
		c.Count("race_reports", 1)
		if m := raceFuncRe.FindStringSubmatch(b); m != nil {
			c.Violation("C14/race:"+m[1], "data race with a frame in the codec packages while goroutines used the package pools concurrently",
				map[string]interface{}{"family": o.t.family, "range": []int{o.t.lo, o.t.hi}, "report": tail(b, 6000)})
		} else {
			c.Count("race_reports_outside_codecs", 1)
			c.Inconclusive("race report without a frame in the codec packages (harness or dependency): %s", tail(b, 800))
		}
	}
}

// buildASan builds this engine with -asan into the scratch directory (thorough tier only).
func buildASan(scratch string) (string, error) {
	_, file, _, ok := runtime.Caller(0)
	if !ok {
		return "", fmt.Errorf("no caller info")
	}
	harness := filepath.Dir(filepath.Dir(filepath.Dir(file)))
	if _, err := os.Stat(filepath.Join(harness, "go.mod")); err != nil {
		return "", fmt.Errorf("harness source not found at %s", harness)
	}
	bin := filepath.Join(scratch, "c14-asan")
	args := []string{"build"}
	if root := os.Getenv("VERIF_ROOT"); root != "" {
		if _, err := os.Stat(filepath.Join(root, "go.mod")); err == nil {
			args = append(args, "-modfile="+filepath.Join(root, "go.mod"))
		}
	}
	args = append(args, "-asan", "-tags", "verif", "-o", bin, "./cmd/c14")
	cmd := exec.Command("go", args...)
	cmd.Dir = harness
	cmd.Env = append(os.Environ(), "CGO_ENABLED=1")
	out, err := cmd.CombinedOutput()
	if err != nil {
		return "", fmt.Errorf("go build -asan: %v: %s", err, tail(string(out), 400))
	}
	return bin, nil
}
