package main

import (
	"bytes"
	"encoding/binary"
	"fmt"
	"math"

	"github.com/lindb/roaring"

	"github.com/lindb/lindb/pkg/bit"
	"github.com/lindb/lindb/pkg/bufioutil"
	"github.com/lindb/lindb/pkg/compress"
	"github.com/lindb/lindb/pkg/encoding"
	"github.com/lindb/lindb/pkg/stream"
)

// ---------------------------------------------------------------------------------------------
// family "delta": delta bit packing of int32 sequences (at least one value: the format stores a first value)

func genInt32s(r *rng) ([]int32, string) {
	n := 1 + r.intn(1+r.intn(400))
	out := make([]int32, n)
	switch r.intn(8) {
	case 0: // ascending offsets
		v := int32(r.intn(1000))
		for i := range out {
			out[i] = v
			v += int32(r.intn(1 + r.intn(5000)))
		}
		return out, "ascending"
	case 1: // constant step
		v, step := int32(r.intn(1<<20)), int32(r.intn(64))-32
		for i := range out {
			out[i] = v
			v += step
		}
		return out, "constant-step"
	case 2: // extremes: deltas overflow int32
		ext := []int32{math.MinInt32, math.MaxInt32, 0, -1, 1, math.MinInt32 + 1, math.MaxInt32 - 1}
		for i := range out {
			out[i] = ext[r.intn(len(ext))]
		}
		return out, "extremes"
	case 3:
		for i := range out {
			out[i] = int32(r.u64())
		}
		return out, "random"
	case 4: // constant
		v := int32(r.u64())
		for i := range out {
			out[i] = v
		}
		return out, "constant"
	case 5: // descending
		v := int32(r.intn(1 << 30))
		for i := range out {
			out[i] = v
			v -= int32(r.intn(1 + r.intn(100000)))
		}
		return out, "descending"
	case 6: // width boundaries: deltas spread exactly 2^k-1 or 2^k
		k := uint(r.intn(32))
		v := int32(r.intn(1000))
		for i := range out {
			out[i] = v
			switch r.intn(3) {
			case 0:
				v += int32(uint32(1)<<k - 1)
			case 1:
				v += int32(uint32(1) << k)
			default:
			}
		}
		return out, "width-boundary"
	default: // small noise around a level
		base := int32(r.u64())
		for i := range out {
			out[i] = base + int32(r.intn(17)) - 8
		}
		return out, "noise"
	}
}

func caseDelta(ks *kase) {
	r := ks.r
	enc := encoding.NewDeltaBitPackingEncoder()
	var dec *encoding.DeltaBitPackingDecoder
	rounds := 1 + r.intn(3)
	for round := 0; round < rounds; round++ {
		vals, desc := genInt32s(r)
		if round > 0 {
			enc.Reset()
			ks.k.count("delta_encoder_reused", 1)
		} else if r.chance(1, 2) {
			enc.Reset() // lindb's own tests use both a new and a Reset encoder
		}
		h := uint64(len(vals))
		for _, v := range vals {
			enc.Add(v)
			h = hash64(h, uint64(uint32(v)))
		}
		data := append([]byte(nil), enc.Bytes()...)
		if dec == nil || r.chance(1, 3) {
			dec = encoding.NewDeltaBitPackingDecoder(data)
		} else {
			dec.Reset(data)
			ks.k.count("delta_decoder_reused", 1)
		}
		ks.k.eval(1)
		ks.k.count("delta_sequences", 1)
		w := func() map[string]interface{} {
			lim := vals
			if len(lim) > 128 {
				lim = lim[:128]
			}
			return map[string]interface{}{"values": lim, "n": len(vals), "encoded_hex": hexBytes(data), "style": desc, "round": round}
		}
		for i, v := range vals {
			if !dec.HasNext() {
				ks.fail("short", fmt.Sprintf("HasNext()=false at value %d of %d", i, len(vals)), w())
				return
			}
			if got := dec.Next(); got != v {
				ks.fail("value", fmt.Sprintf("value %d of %d decoded %d, encoded %d", i, len(vals), got, v), w())
				return
			}
		}
		if dec.HasNext() {
			ks.fail("extra", fmt.Sprintf("HasNext()=true after all %d values", len(vals)), w())
			return
		}
		ks.k.count("int32_values_compared", len(vals))
		if len(vals) > 1 {
			ks.k.nontrivial("delta", h)
		}
	}
}

// ---------------------------------------------------------------------------------------------
// family "fixedoffset"

func minWidth(v int) int {
	switch {
	case v < 1<<8:
		return 1
	case v < 1<<16:
		return 2
	case v < 1<<24:
		return 3
	}
	return 4
}

func genOffsets(r *rng) (vals []int, increasing bool, desc string) {
	n := r.intn(1 + r.intn(300))
	if r.chance(1, 50) {
		n = 1000 + r.intn(5000)
	}
	if r.chance(1, 30) {
		n = 0
	}
	increasing = r.chance(3, 4)
	// magnitude class
	var limit uint64
	switch r.intn(7) {
	case 0:
		limit = 1 << 8
	case 1:
		limit = 1 << 16
	case 2:
		limit = 1 << 24
	case 3, 4:
		limit = 1 << 32
	case 5:
		limit = 1 << uint(1+r.intn(32))
	default:
		limit = 70_000 // small enough to slice real data blocks
	}
	vals = make([]int, n)
	for i := range vals {
		switch r.intn(10) {
		case 0:
			vals[i] = int(limit - 1)
		case 1:
			// a power-of-256 boundary below the limit
			b := uint64(1) << uint(8*(1+r.intn(3)))
			if b >= limit {
				b = limit
			}
			vals[i] = int(b - uint64(r.intn(2)))
			if uint64(vals[i]) >= limit {
				vals[i] = int(limit - 1)
			}
		case 2:
			vals[i] = 0
		default:
			vals[i] = int(r.u64() % limit)
		}
	}
	if increasing {
		sortInts(vals)
	}
	return vals, increasing, fmt.Sprintf("limit=%d", limit)
}

func sortInts(v []int) {
	// insertion sort is fine for mostly small lists; use a simple shell sort for the big ones
	for gap := len(v) / 2; gap > 0; gap /= 2 {
		for i := gap; i < len(v); i++ {
			x := v[i]
			j := i
			for ; j >= gap && v[j-gap] > x; j -= gap {
				v[j] = v[j-gap]
			}
			v[j] = x
		}
	}
}

func caseFixedOffset(ks *kase) {
	r := ks.r
	var enc *encoding.FixedOffsetEncoder
	var dec *encoding.FixedOffsetDecoder
	rounds := 1 + r.intn(4)
	for round := 0; round < rounds; round++ {
		vals, increasing, desc := genOffsets(r)
		if enc == nil || r.chance(1, 3) {
			enc = encoding.NewFixedOffsetEncoder(increasing)
		} else {
			// a reused encoder keeps its ensureIncreasing flag; only feed it what it accepts
			enc.Reset()
			sortInts(vals)
			increasing = true
			ks.k.count("fixedoffset_encoder_reused", 1)
		}
		if r.chance(1, 5) {
			enc.FromValues(append([]int(nil), vals...))
		} else {
			for _, v := range vals {
				enc.Add(v)
			}
		}
		w := func(data []byte) map[string]interface{} {
			lim := vals
			if len(lim) > 128 {
				lim = lim[:128]
			}
			return map[string]interface{}{"offsets": lim, "n": len(vals), "encoded_hex": hexBytes(data), "style": desc, "round": round}
		}
		if enc.Size() != len(vals) || enc.IsEmpty() != (len(vals) == 0) {
			ks.fail("encoder-size", fmt.Sprintf("Size()=%d IsEmpty()=%v for %d offsets", enc.Size(), enc.IsEmpty(), len(vals)), w(nil))
			return
		}
		var data []byte
		if r.chance(1, 2) {
			data = enc.MarshalBinary()
		} else {
			var buf bytes.Buffer
			if err := enc.Write(&buf); err != nil {
				ks.fail("write-error", err.Error(), w(nil))
				return
			}
			data = append([]byte(nil), buf.Bytes()...)
		}
		ks.k.eval(1)
		ks.k.count("fixedoffset_tables", 1)
		if len(vals) == 0 {
			if len(data) != 0 {
				ks.fail("empty-bytes", fmt.Sprintf("empty encoder wrote %d bytes", len(data)), w(data))
				return
			}
			continue
		}
		if sz := enc.MarshalSize(); sz != len(data) {
			ks.fail("marshal-size", fmt.Sprintf("MarshalSize()=%d, wrote %d bytes", sz, len(data)), w(data))
			return
		}
		mx := 0
		h := uint64(len(vals))
		for _, v := range vals {
			if v > mx {
				mx = v
			}
			h = hash64(h, uint64(v))
		}
		ks.k.count(fmt.Sprintf("fixedoffset_width_%d", minWidth(mx)), 1)
		trailer := r.bytes(r.intn(9))
		in := append(append([]byte(nil), data...), trailer...)
		pooled := false
		switch {
		case dec == nil || r.chance(1, 3):
			dec = encoding.NewFixedOffsetDecoder()
		case r.chance(1, 2):
			dec = encoding.GetFixedOffsetDecoder()
			pooled = true
			ks.k.count("fixedoffset_decoder_from_pool", 1)
		default:
			ks.k.count("fixedoffset_decoder_reused", 1)
		}
		left, err := dec.Unmarshal(in)
		if err != nil {
			ks.fail("unmarshal-error", "Unmarshal of what the encoder wrote: "+err.Error(), w(data))
			return
		}
		if !bytes.Equal(left, trailer) {
			ks.fail("unmarshal-left", fmt.Sprintf("Unmarshal left %d bytes, %d bytes followed the table", len(left), len(trailer)), w(data))
			return
		}
		if dec.Size() != len(vals) {
			ks.fail("size", fmt.Sprintf("decoder Size()=%d, encoded %d offsets", dec.Size(), len(vals)), w(data))
			return
		}
		if dec.ValueWidth() != minWidth(mx) {
			ks.fail("width-not-minimal", fmt.Sprintf("ValueWidth()=%d, max offset %d needs %d", dec.ValueWidth(), mx, minWidth(mx)), w(data))
			return
		}
		for i, v := range vals {
			got, ok := dec.Get(i)
			if !ok || got != v {
				ks.fail("get", fmt.Sprintf("Get(%d)=(%d,%v), encoded %d", i, got, ok, v), w(data))
				return
			}
		}
		ks.k.count("offsets_compared", len(vals))
		for _, i := range []int{-1, len(vals), len(vals) + 1} {
			if got, ok := dec.Get(i); ok {
				ks.fail("get-out-of-range", fmt.Sprintf("Get(%d)=(%d,true) on a table of %d offsets", i, got, len(vals)), w(data))
				return
			}
		}
		if increasing && mx <= 80_000 {
			block := r.bytes(mx + r.intn(64))
			for i := range vals {
				endOff := len(block)
				if i+1 < len(vals) {
					endOff = vals[i+1]
				}
				got, err := dec.GetBlock(i, block)
				if err != nil || !bytes.Equal(got, block[vals[i]:endOff]) {
					ks.fail("get-block", fmt.Sprintf("GetBlock(%d) err=%v len=%d, want block[%d:%d]", i, err, len(got), vals[i], endOff), w(data))
					return
				}
			}
			ks.k.count("fixedoffset_blocks_sliced", len(vals))
		}
		if pooled {
			encoding.ReleaseFixedOffsetDecoder(dec)
			dec = nil
		}
		ks.k.nontrivial("fixedoffset", h)
		ks.k.sample(map[string]interface{}{"family": "fixedoffset", "case_idx": ks.idx, "offsets": len(vals), "max_offset": mx,
			"width": minWidth(mx), "increasing": increasing, "encoded_bytes": len(data)})
	}
}

// ---------------------------------------------------------------------------------------------
// family "bitmap"

func genBitmap(r *rng) (*roaring.Bitmap, string) {
	bm := roaring.New()
	desc := ""
	parts := 1 + r.intn(4)
	for p := 0; p < parts; p++ {
		var hi uint32
		switch r.intn(5) {
		case 0:
			hi = 0
		case 1:
			hi = 0xFFFF
		default:
			hi = uint32(r.intn(1 << 16))
		}
		base := hi << 16
		switch r.intn(7) {
		case 0: // nothing
			desc += "none,"
		case 1: // single
			bm.Add(base | uint32(r.intn(1<<16)))
			desc += "single,"
		case 2: // sparse array container
			n := 1 + r.intn(200)
			for i := 0; i < n; i++ {
				bm.Add(base | uint32(r.intn(1<<16)))
			}
			desc += "array,"
		case 3: // dense bitmap container
			n := 5000 + r.intn(30000)
			for i := 0; i < n; i++ {
				bm.Add(base | uint32(r.intn(1<<16)))
			}
			desc += "bitmap,"
		case 4: // ranges -> run containers
			k := 1 + r.intn(5)
			for i := 0; i < k; i++ {
				s := uint64(base) + uint64(r.intn(1<<16))
				e := s + uint64(1+r.intn(3000))
				if e > 1<<32 {
					e = 1 << 32
				}
				bm.AddRange(s, e)
			}
			desc += "runs,"
		case 5: // full container(s), possibly spanning container boundaries up to 2^32-1
			s := uint64(base)
			e := s + uint64(1+r.intn(3))<<16
			if e > 1<<32 {
				e = 1 << 32
			}
			bm.AddRange(s, e)
			desc += "full,"
		default: // the extreme values
			bm.Add(0)
			bm.Add(math.MaxUint32)
			bm.Add(base)
			bm.Add(base | 0xFFFF)
			desc += "extremes,"
		}
	}
	if r.chance(1, 2) {
		bm.RunOptimize()
		desc += "runopt"
	}
	return bm, desc
}

func caseBitmap(ks *kase) {
	r := ks.r
	bm, desc := genBitmap(r)
	want := bm.ToArray()
	data, err := encoding.BitmapMarshal(bm)
	w := func() map[string]interface{} {
		lim := want
		if len(lim) > 64 {
			lim = lim[:64]
		}
		return map[string]interface{}{"cardinality": len(want), "first_values": lim, "shape": desc, "encoded_hex": hexBytes(data)}
	}
	ks.k.eval(1)
	ks.k.count("bitmaps", 1)
	if err != nil {
		ks.fail("marshal-error", err.Error(), w())
		return
	}
	trailer := r.bytes(r.intn(2) * r.intn(16))
	in := append(append([]byte(nil), data...), trailer...)
	target := roaring.New()
	if r.chance(1, 3) { // a bitmap object that held something else before
		other, _ := genBitmap(r)
		od, _ := encoding.BitmapMarshal(other)
		if _, err := encoding.BitmapUnmarshal(target, od); err != nil {
			ks.fail("unmarshal-error", err.Error(), w())
			return
		}
		ks.k.count("bitmap_target_reused", 1)
	}
	n, err := encoding.BitmapUnmarshal(target, in)
	if err != nil {
		ks.fail("unmarshal-error", "unmarshal of what BitmapMarshal produced: "+err.Error(), w())
		return
	}
	if int(n) != len(data) {
		ks.fail("unmarshal-length", fmt.Sprintf("BitmapUnmarshal consumed %d bytes, marshalled %d", n, len(data)), w())
		return
	}
	got := target.ToArray()
	if len(got) != len(want) || target.GetCardinality() != uint64(len(want)) {
		ks.fail("cardinality", fmt.Sprintf("decoded %d values (GetCardinality=%d), encoded %d", len(got), target.GetCardinality(), len(want)), w())
		return
	}
	for i := range want {
		if got[i] != want[i] {
			ks.fail("value", fmt.Sprintf("value %d decoded %d, encoded %d", i, got[i], want[i]), w())
			return
		}
	}
	if !target.Equals(bm) {
		ks.fail("equals", "decoded bitmap lists the same values but Equals()=false", w())
		return
	}
	ks.k.count("bitmap_values_compared", len(want))
	if len(want) > 0 {
		h := uint64(len(want))
		for _, v := range want {
			h = hash64(h, uint64(v))
		}
		ks.k.nontrivial("bitmap", h)
	}
}

// ---------------------------------------------------------------------------------------------
// family "bitrw": bit writer/reader against a bit-string model; reads use a different partition than writes

func caseBitRW(ks *kase) {
	r := ks.r
	var buf bytes.Buffer
	bw := bit.NewWriter(&buf)
	rb := bufioutil.NewBuffer(nil)
	br := bit.NewReader(rb)
	rounds := 1 + r.intn(3)
	for round := 0; round < rounds; round++ {
		if round > 0 {
			// the writer may be left mid-byte; Reset must forget the pending bits
			buf.Reset()
			bw.Reset(&buf)
			ks.k.count("bit_writer_reused", 1)
		}
		var model []bool
		var ops []string
		nOps := 1 + r.intn(60)
		for i := 0; i < nOps; i++ {
			switch r.intn(4) {
			case 0:
				b := r.chance(1, 2)
				if err := bw.WriteBit(bit.Bit(b)); err != nil {
					ks.fail("write-error", err.Error(), nil)
					return
				}
				model = append(model, b)
				ops = append(ops, fmt.Sprintf("WriteBit(%v)", b))
			case 1:
				b := byte(r.u64())
				if err := bw.WriteByte(b); err != nil {
					ks.fail("write-error", err.Error(), nil)
					return
				}
				for k := 7; k >= 0; k-- {
					model = append(model, b>>uint(k)&1 == 1)
				}
				ops = append(ops, fmt.Sprintf("WriteByte(%02x)", b))
			default:
				n := r.intn(65)
				if r.chance(1, 4) {
					n = []int{0, 1, 7, 8, 9, 63, 64}[r.intn(7)]
				}
				u := r.u64() // bits above n are garbage on purpose (the delta encoder passes sign-extended values)
				if err := bw.WriteBits(u, n); err != nil {
					ks.fail("write-error", err.Error(), nil)
					return
				}
				for k := n - 1; k >= 0; k-- {
					model = append(model, u>>uint(k)&1 == 1)
				}
				ops = append(ops, fmt.Sprintf("WriteBits(%016x,%d)", u, n))
			}
		}
		if err := bw.Flush(); err != nil {
			ks.fail("flush-error", err.Error(), nil)
			return
		}
		data := append([]byte(nil), buf.Bytes()...)
		ks.k.eval(1)
		ks.k.count("bit_streams", 1)
		if len(ops) > 80 {
			ops = ops[:80]
		}
		w := func() map[string]interface{} {
			return map[string]interface{}{"write_ops": ops, "bits": len(model), "encoded_hex": hexBytes(data), "round": round}
		}
		if len(data) != (len(model)+7)/8 {
			ks.fail("length", fmt.Sprintf("%d bits written into %d bytes", len(model), len(data)), w())
			return
		}
		rb.SetBuf(data)
		br.Reset()
		pos := 0
		h := uint64(len(model))
		for pos < len(model) {
			rem := len(model) - pos
			switch k := r.intn(4); {
			case k == 0:
				got, err := br.ReadBit()
				if err != nil || bool(got) != model[pos] {
					ks.fail("read-bit", fmt.Sprintf("ReadBit at bit %d = (%v,%v), written %v", pos, got, err, model[pos]), w())
					return
				}
				pos++
			case k == 1 && rem >= 8:
				got, err := br.ReadByte()
				var want byte
				for i := 0; i < 8; i++ {
					want <<= 1
					if model[pos+i] {
						want |= 1
					}
				}
				if err != nil || got != want {
					ks.fail("read-byte", fmt.Sprintf("ReadByte at bit %d = (%02x,%v), written %02x", pos, got, err, want), w())
					return
				}
				pos += 8
			default:
				n := r.intn(min(rem, 64) + 1)
				got, err := br.ReadBits(n)
				var want uint64
				for i := 0; i < n; i++ {
					want <<= 1
					if model[pos+i] {
						want |= 1
					}
				}
				if err != nil || got != want {
					ks.fail("read-bits", fmt.Sprintf("ReadBits(%d) at bit %d = (%x,%v), written %x", n, pos, got, err, want), w())
					return
				}
				h = hash64(h, want)
				pos += n
			}
		}
		ks.k.count("bits_compared", len(model))
		if len(model) > 8 {
			ks.k.nontrivial("bitrw", h)
		}
	}
}

// ---------------------------------------------------------------------------------------------
// family "snappy": chunk writer / reader, both reused for several rounds like replica.chunk does

func genPayload(r *rng, maxSize int) ([]byte, string) {
	var n int
	switch r.intn(10) {
	case 0:
		n = 1 + r.intn(16)
	case 1, 2, 3:
		n = 1 + r.intn(4096)
	case 4, 5, 6:
		n = 1 + r.intn(200_000)
	case 7: // around the 64KiB snappy block size
		n = 65536*(1+r.intn(3)) + r.intn(5) - 2
	default:
		n = 1 + r.intn(maxSize)
	}
	if n > maxSize {
		n = maxSize
	}
	switch r.intn(5) {
	case 0:
		return r.bytes(n), "random"
	case 1:
		return make([]byte, n), "zeros"
	case 2: // text like rows
		row := []byte(fmt.Sprintf("cpu,host=h%d,dc=nj usage=%d,idle=%d\n", r.intn(100), r.intn(100), r.intn(100)))
		out := make([]byte, 0, n)
		for len(out) < n {
			out = append(out, row...)
			if r.chance(1, 8) {
				row = []byte(fmt.Sprintf("mem,host=h%d used=%d\n", r.intn(100), r.intn(1<<30)))
			}
		}
		return out[:n], "rows"
	case 3: // long repeats with random islands
		out := make([]byte, n)
		for i := 0; i < n; {
			l := 1 + r.intn(5000)
			if i+l > n {
				l = n - i
			}
			if r.chance(1, 2) {
				copy(out[i:i+l], r.bytes(l))
			} else {
				b := byte(r.u64())
				for j := i; j < i+l; j++ {
					out[j] = b
				}
			}
			i += l
		}
		return out, "islands"
	default: // low entropy
		out := make([]byte, n)
		for i := range out {
			out[i] = "abcd"[r.intn(4)]
		}
		return out, "low-entropy"
	}
}

func caseSnappy(ks *kase, maxSize int) {
	r := ks.r
	w := compress.NewSnappyWriter()
	defer func() { _ = w.Close() }() // Bytes() re-arms the writer: release its goroutine when the case ends
	rd := compress.NewSnappyReader()
	rounds := 1 + r.intn(5)
	type kept struct {
		compressed []byte
		payload    []byte
	}
	var earlier []kept
	for round := 0; round < rounds; round++ {
		payload, desc := genPayload(r, maxSize)
		wit := func() map[string]interface{} {
			return map[string]interface{}{"payload_len": len(payload), "payload_style": desc, "round": round,
				"payload_head_hex": hexBytes(payload[:min(len(payload), 64)])}
		}
		// written as a number of rows, like chunk.Write
		for off := 0; off < len(payload); {
			l := 1 + r.intn(1+r.intn(len(payload)))
			if off+l > len(payload) {
				l = len(payload) - off
			}
			n, err := w.Write(payload[off : off+l])
			if err != nil || n != l {
				ks.fail("write-error", fmt.Sprintf("Write returned (%d,%v) for %d bytes", n, err, l), wit())
				return
			}
			off += l
		}
		if err := w.Close(); err != nil {
			ks.fail("close-error", err.Error(), wit())
			return
		}
		comp := w.Bytes()
		got, err := rd.Uncompress(comp)
		ks.k.eval(1)
		ks.k.count("snappy_chunks", 1)
		ks.k.count("snappy_payload_bytes", len(payload))
		if round > 0 {
			ks.k.count("snappy_writer_reader_reused", 1)
		}
		if err != nil {
			ks.fail("uncompress-error", "Uncompress of what the writer produced: "+err.Error(), wit())
			return
		}
		if !bytes.Equal(got, payload) {
			ks.fail("payload", fmt.Sprintf("round %d: uncompressed %d bytes, written %d bytes, first difference at %d",
				round, len(got), len(payload), firstDiff(got, payload)), wit())
			return
		}
		// what Bytes() returned earlier must still be that chunk (it is handed to the replication queue)
		for i, e := range earlier {
			again, err := rd.Uncompress(e.compressed)
			if err != nil || !bytes.Equal(again, e.payload) {
				ks.fail("earlier-chunk-changed", fmt.Sprintf("chunk of round %d no longer uncompresses to its payload after round %d (err=%v)", i, round, err), wit())
				return
			}
		}
		if len(payload) <= 300_000 {
			earlier = append(earlier, kept{comp, payload})
		}
		ks.k.sample(map[string]interface{}{"family": "snappy", "case_idx": ks.idx, "round": round, "payload_bytes": len(payload),
			"payload_style": desc, "compressed_bytes": len(comp)})
		ks.k.nontrivial("snappy", hash64(hash64(uint64(len(payload)), uint64(len(comp))), r.s))
	}
}

// ---------------------------------------------------------------------------------------------
// family "stream": stream writer / reader, all primitive types and slices

type sop struct {
	kind int
	u    uint64
	b    []byte
	size int
}

const (
	opByte = iota
	opBytesSlice
	opBytesCopy
	opVarint32
	opVarint64
	opUvarint32
	opUvarint64
	opUint16
	opInt16
	opUint32
	opInt32
	opUint64
	opInt64
	opUntil
	opKinds
)

func (r *rng) intClass() uint64 {
	switch r.intn(6) {
	case 0:
		return []uint64{0, 1, 127, 128, 255, 256, 16383, 16384, 1<<31 - 1, 1 << 31, 1<<32 - 1, 1 << 32, 1<<63 - 1, 1 << 63, math.MaxUint64}[r.intn(15)]
	case 1:
		return uint64(1)<<uint(r.intn(64)) - uint64(r.intn(2))
	case 2:
		return -uint64(r.intn(1000)) // negative small
	case 3:
		return uint64(r.intn(300))
	default:
		return r.u64()
	}
}

func caseStream(ks *kase) {
	r := ks.r
	var backing bytes.Buffer
	bw := stream.NewBufferWriter(&backing)
	rd := stream.NewReader(nil)
	rounds := 1 + r.intn(3)
	for round := 0; round < rounds; round++ {
		nOps := 1 + r.intn(40)
		ops := make([]sop, nOps)
		total := 0
		for i := range ops {
			o := sop{kind: r.intn(opKinds), u: r.intClass()}
			var tmp [binary.MaxVarintLen64]byte
			switch o.kind {
			case opByte:
				o.size = 1
			case opBytesSlice, opBytesCopy:
				o.b = r.bytes(r.intn(1 + r.intn(300)))
				o.size = len(o.b)
			case opVarint32:
				o.size = binary.PutVarint(tmp[:], int64(int32(o.u)))
			case opVarint64:
				o.size = binary.PutVarint(tmp[:], int64(o.u))
			case opUvarint32:
				o.size = binary.PutUvarint(tmp[:], uint64(uint32(o.u)))
			case opUvarint64:
				o.size = binary.PutUvarint(tmp[:], o.u)
			case opUint16, opInt16:
				o.size = 2
			case opUint32, opInt32:
				o.size = 4
			case opUint64, opInt64:
				o.size = 8
			case opUntil: // payload without the terminator, then the terminator
				term := byte(o.u)
				o.b = r.bytes(r.intn(40))
				for j := range o.b {
					if o.b[j] == term {
						o.b[j] = term + 1
					}
				}
				o.b = append(o.b, term)
				o.size = len(o.b)
			}
			total += o.size
			ops[i] = o
		}
		// writer: BufferWriter (new / Reset / SwitchBuffer) or SliceWriter with enough room
		type writerI interface {
			PutByte(byte)
			PutBytes([]byte)
			PutVarint32(int32)
			PutVarint64(int64)
			PutUvarint32(uint32)
			PutUvarint64(uint64)
			PutUInt16(uint16)
			PutInt16(int16)
			PutUint32(uint32)
			PutInt32(int32)
			PutUint64(uint64)
			PutInt64(int64)
			Len() int
			Bytes() ([]byte, error)
		}
		var wr writerI
		wkind := r.intn(4)
		switch wkind {
		case 0:
			wr = stream.NewBufferWriter(nil)
		case 1:
			bw.Reset()
			wr = bw
			ks.k.count("stream_writer_reset_reused", 1)
		case 2:
			nb := &bytes.Buffer{}
			bw.SwitchBuffer(nb)
			wr = bw
			ks.k.count("stream_writer_switch_buffer", 1)
		default:
			wr = stream.NewSliceWriter(make([]byte, total+r.intn(8)))
			ks.k.count("stream_slice_writer", 1)
		}
		written := 0
		for i, o := range ops {
			switch o.kind {
			case opByte:
				wr.PutByte(byte(o.u))
			case opBytesSlice, opBytesCopy, opUntil:
				wr.PutBytes(o.b)
			case opVarint32:
				wr.PutVarint32(int32(o.u))
			case opVarint64:
				wr.PutVarint64(int64(o.u))
			case opUvarint32:
				wr.PutUvarint32(uint32(o.u))
			case opUvarint64:
				wr.PutUvarint64(o.u)
			case opUint16:
				wr.PutUInt16(uint16(o.u))
			case opInt16:
				wr.PutInt16(int16(o.u))
			case opUint32:
				wr.PutUint32(uint32(o.u))
			case opInt32:
				wr.PutInt32(int32(o.u))
			case opUint64:
				wr.PutUint64(o.u)
			case opInt64:
				wr.PutInt64(int64(o.u))
			}
			written += o.size
			if wr.Len() != written {
				ks.fail("writer-len", fmt.Sprintf("after op %d (kind %d) Len()=%d, expected %d", i, o.kind, wr.Len(), written), nil)
				return
			}
		}
		raw, err := wr.Bytes()
		if err != nil {
			ks.fail("writer-error", err.Error(), nil)
			return
		}
		data := append([]byte(nil), raw...)
		ks.k.eval(1)
		ks.k.count("stream_sequences", 1)
		if round == 0 || r.chance(1, 2) {
			rd = stream.NewReader(data)
		} else {
			rd.Reset(data)
			ks.k.count("stream_reader_reused", 1)
		}
		w := func(i int) map[string]interface{} {
			return map[string]interface{}{"op_index": i, "op_kind": ops[i].kind, "value_hex": fmt.Sprintf("%016x", ops[i].u),
				"bytes_len": len(ops[i].b), "encoded_hex": hexBytes(data), "writer_kind": wkind, "round": round}
		}
		starts := make([]int, nOps)
		readOp := func(i int) bool {
			o := ops[i]
			var got uint64
			var gb []byte
			switch o.kind {
			case opByte:
				got = uint64(rd.ReadByte())
				o.u = uint64(byte(o.u))
			case opBytesSlice:
				gb = rd.ReadSlice(len(o.b))
			case opBytesCopy:
				gb = rd.ReadBytes(len(o.b))
			case opUntil:
				gb = rd.ReadUntil(o.b[len(o.b)-1])
			case opVarint32:
				got = uint64(int64(rd.ReadVarint32()))
				o.u = uint64(int64(int32(o.u)))
			case opVarint64:
				got = uint64(rd.ReadVarint64())
			case opUvarint32:
				got = uint64(rd.ReadUvarint32())
				o.u = uint64(uint32(o.u))
			case opUvarint64:
				got = rd.ReadUvarint64()
			case opUint16:
				got = uint64(rd.ReadUint16())
				o.u = uint64(uint16(o.u))
			case opInt16:
				got = uint64(int64(rd.ReadInt16()))
				o.u = uint64(int64(int16(o.u)))
			case opUint32:
				got = uint64(rd.ReadUint32())
				o.u = uint64(uint32(o.u))
			case opInt32:
				got = uint64(int64(rd.ReadInt32()))
				o.u = uint64(int64(int32(o.u)))
			case opUint64:
				got = rd.ReadUint64()
			case opInt64:
				got = uint64(rd.ReadInt64())
			}
			if o.b != nil || o.kind == opBytesSlice || o.kind == opBytesCopy {
				if !bytes.Equal(gb, o.b) {
					ks.fail("bytes", fmt.Sprintf("op %d (kind %d) read %d bytes, written %d, first difference at %d", i, o.kind, len(gb), len(o.b), firstDiff(gb, o.b)), w(i))
					return false
				}
			} else if got != o.u {
				ks.fail("value", fmt.Sprintf("op %d (kind %d) read %016x, written %016x", i, o.kind, got, o.u), w(i))
				return false
			}
			if err := rd.Error(); err != nil {
				ks.fail("reader-error", fmt.Sprintf("op %d (kind %d): %v", i, o.kind, err), w(i))
				return false
			}
			return true
		}
		pos := 0
		for i := range ops {
			starts[i] = pos
			if rd.Position() != pos {
				ks.fail("position", fmt.Sprintf("before op %d Position()=%d, expected %d", i, rd.Position(), pos), w(i))
				return
			}
			if !readOp(i) {
				return
			}
			pos += ops[i].size
		}
		if !rd.Empty() || rd.Position() != len(data) {
			ks.fail("not-empty", fmt.Sprintf("after all ops Empty()=%v Position()=%d len=%d", rd.Empty(), rd.Position(), len(data)), w(nOps-1))
			return
		}
		// random access: jump back to the start of an earlier op and read it again
		for k := 0; k < 3; k++ {
			i := r.intn(nOps)
			if r.chance(1, 4) {
				rd.SeekStart()
				i = 0
			} else {
				rd.ReadAt(starts[i])
			}
			if !readOp(i) {
				return
			}
			if rd.Position() != starts[i]+ops[i].size {
				ks.fail("position-after-readat", fmt.Sprintf("ReadAt(%d)+op %d: Position()=%d, expected %d", starts[i], i, rd.Position(), starts[i]+ops[i].size), w(i))
				return
			}
		}
		ks.k.count("stream_values_compared", nOps)
		h := uint64(nOps)
		for _, o := range ops {
			h = hash64(hash64(h, uint64(o.kind)), o.u)
		}
		ks.k.nontrivial("stream", h)
	}
}

// ---------------------------------------------------------------------------------------------
// family "utils": the small helpers the codecs are built from

func caseUtils(ks *kase) {
	r := ks.r
	ks.k.eval(1)
	ks.k.count("util_cases", 1)
	x := r.intClass()
	fail := func(what, msg string) {
		ks.fail(what, msg, map[string]interface{}{"value_hex": fmt.Sprintf("%016x", x)})
	}
	// zig-zag
	if got := encoding.ZigZagDecode(encoding.ZigZagEncode(int64(x))); got != int64(x) {
		fail("zigzag", fmt.Sprintf("ZigZagDecode(ZigZagEncode(%d))=%d", int64(x), got))
		return
	}
	if e := encoding.ZigZagEncode(int64(x)); (int64(x) >= 0 && e != x<<1) || (int64(x) < 0 && e != ^(x<<1)) {
		fail("zigzag-order", fmt.Sprintf("ZigZagEncode(%d)=%d", int64(x), e))
		return
	}
	// min width
	u32 := uint32(x)
	if w := encoding.Uint32MinWidth(u32); w != minWidth(int(u32)) {
		fail("min-width", fmt.Sprintf("Uint32MinWidth(%d)=%d", u32, w))
		return
	}
	if v := encoding.ValueWithHighLowBits(uint32(encoding.HighBits(u32))<<16, encoding.LowBits(u32)); v != u32 {
		fail("high-low-bits", fmt.Sprintf("recomposed %d from high/low of %d", v, u32))
		return
	}
	// unsafe slice views
	n := r.intn(40)
	u32s := make([]uint32, n)
	u64s := make([]uint64, n)
	for i := 0; i < n; i++ {
		u32s[i] = uint32(r.intClass())
		u64s[i] = r.classValue()
	}
	b32 := encoding.U32SliceToBytes(u32s)
	b64 := encoding.U64SliceToBytes(u64s)
	if len(b32) != 4*n || len(b64) != 8*n {
		fail("slice-view-length", fmt.Sprintf("views of %d values have %d / %d bytes", n, len(b32), len(b64)))
		return
	}
	for i := 0; i < n; i++ {
		if binary.LittleEndian.Uint32(b32[4*i:]) != u32s[i] || binary.LittleEndian.Uint64(b64[8*i:]) != u64s[i] {
			fail("slice-view-bytes", fmt.Sprintf("byte view of element %d differs", i))
			return
		}
	}
	back32 := encoding.BytesToU32Slice(append([]byte(nil), b32...))
	back64 := encoding.BytesToU64Slice(append([]byte(nil), b64...))
	if len(back32) != n || len(back64) != n {
		fail("slice-view-back-length", fmt.Sprintf("%d values came back as %d / %d", n, len(back32), len(back64)))
		return
	}
	for i := 0; i < n; i++ {
		if back32[i] != u32s[i] || back64[i] != u64s[i] {
			fail("slice-view-back", fmt.Sprintf("element %d came back different", i))
			return
		}
	}
	fbits := r.classValue()
	fb := encoding.Float64ToBytes(math.Float64frombits(fbits))
	if binary.LittleEndian.Uint64(fb) != fbits || math.Float64bits(encoding.BytesToFloat64(append([]byte(nil), fb...))) != fbits {
		ks.fail("float-bytes", fmt.Sprintf("Float64ToBytes/BytesToFloat64 changed %016x", fbits), nil)
		return
	}
	{
		k := r.intn(5)
		short := r.bytes(k)
		var pad [4]byte
		copy(pad[:], short)
		if got := encoding.ByteSlice2Uint32(short); got != binary.LittleEndian.Uint32(pad[:]) {
			fail("byteslice2uint32", fmt.Sprintf("ByteSlice2Uint32(%x)=%d", short, got))
			return
		}
	}
	// varint helpers of pkg/stream
	var tmp [binary.MaxVarintLen64]byte
	if got, want := stream.UvariantSize(x), binary.PutUvarint(tmp[:], x); got != want {
		fail("uvariant-size", fmt.Sprintf("UvariantSize(%d)=%d, encoding takes %d", x, got, want))
		return
	}
	if got, want := stream.VariantSize(int64(x)), binary.PutVarint(tmp[:], int64(x)); got != want {
		fail("variant-size", fmt.Sprintf("VariantSize(%d)=%d, encoding takes %d", int64(x), got, want))
		return
	}
	pre := r.bytes(r.intn(6))
	for i := range pre {
		pre[i] &= 0x7f // bytes in front of the tail varint: terminators, so the backward scan stops at them
	}
	le := make([]byte, len(pre)+binary.MaxVarintLen64)
	copy(le, pre)
	ln := stream.PutUvariantLittleEndian(le[len(pre):], x)
	if got, rn := stream.UvarintLittleEndian(le[:len(pre)+ln]); got != x || rn != ln {
		fail("uvarint-little-endian", fmt.Sprintf("UvarintLittleEndian=(%d,%d), put (%d,%d)", got, rn, x, ln))
		return
	}
	off := r.intn(5)
	vb := make([]byte, off+binary.MaxVarintLen64+1)
	vn := binary.PutUvarint(vb[off:], x)
	if got, rn, err := stream.ReadUvarint(vb, off); err != nil || got != x || rn != vn {
		fail("read-uvarint", fmt.Sprintf("ReadUvarint=(%d,%d,%v), put (%d,%d)", got, rn, err, x, vn))
		return
	}
	fixed := make([]byte, off+8)
	stream.PutUint64(fixed, off, x)
	if stream.ReadUint64(fixed, off) != x {
		fail("fixed64", "PutUint64/ReadUint64")
		return
	}
	stream.PutUint32(fixed, off, uint32(x))
	if stream.ReadUint32(fixed, off) != uint32(x) {
		fail("fixed32", "PutUint32/ReadUint32")
		return
	}
	stream.PutUint16(fixed, off, uint16(x))
	if stream.ReadUint16(fixed, off) != uint16(x) {
		fail("fixed16", "PutUint16/ReadUint16")
		return
	}
	ks.k.nontrivial("utils", hash64(x, fbits))
}
