package main

import (
	"bytes"
	"fmt"
	"math"
	"sync"

	"github.com/lindb/lindb/pkg/bit"
	"github.com/lindb/lindb/pkg/bufioutil"
	"github.com/lindb/lindb/pkg/encoding"
)

const posInfBits = uint64(0x7ff0000000000000)

// kase is the context of one running case.
type kase struct {
	k   *coll
	r   *rng
	idx int
	ctx string // prefix of violation classes: how the codec objects were obtained (tsd, tsd-pooled, tsd-conc, ...)
}

func (ks *kase) fail(what, msg string, w map[string]interface{}) {
	ks.k.violation("C14/"+ks.ctx+"-"+what, msg, ks.idx, w)
}

// block is a TSD block: a window of slots, a mask saying which slot has a value and the value bits per slot.
type block struct {
	start uint16
	mask  []bool
	vals  []uint64 // len == len(mask); vals[i] is meaningful where mask[i]
	desc  string
}

func (b *block) width() int  { return len(b.mask) }
func (b *block) end() uint16 { return b.start + uint16(len(b.mask)) - 1 }
func (b *block) count() int {
	n := 0
	for _, m := range b.mask {
		if m {
			n++
		}
	}
	return n
}

func (b *block) hash() uint64 {
	h := hash64(uint64(b.start), uint64(len(b.mask)))
	for i, m := range b.mask {
		if m {
			h = hash64(h, uint64(i))
			h = hash64(h, b.vals[i])
		}
	}
	return h
}

func (b *block) witness() map[string]interface{} {
	present := make([]uint64, 0, b.count())
	for i, m := range b.mask {
		if m {
			present = append(present, b.vals[i])
		}
	}
	return map[string]interface{}{
		"start_slot": b.start, "width": len(b.mask), "mask": maskString(b.mask),
		"values_hex_of_present_slots": hexValues(present), "shape": b.desc,
	}
}

func genBlock(r *rng, big bool) *block {
	start, width := r.genWindow(big)
	mask, md := r.genMask(width)
	vals, vd := r.genValues(width)
	return &block{start: start, mask: mask, vals: vals, desc: md + "/" + vd}
}

// encodeInto appends slots [from,to) of b to enc the way lindb's writers do.
func encodeInto(enc *encoding.TSDEncoder, b *block, from, to int, emit bool) {
	for i := from; i < to; i++ {
		if emit {
			if b.mask[i] {
				enc.EmitDownSamplingValue(i, math.Float64frombits(b.vals[i]))
			} else {
				enc.EmitDownSamplingValue(i, math.Inf(1))
			}
			continue
		}
		if b.mask[i] {
			enc.AppendTime(bit.One)
			enc.AppendValue(b.vals[i])
		} else {
			enc.AppendTime(bit.Zero)
		}
	}
}

// emitView is what a block looks like after going through EmitDownSamplingValue: +Inf is "no value".
func emitView(b *block) *block {
	nb := &block{start: b.start, mask: append([]bool(nil), b.mask...), vals: b.vals, desc: b.desc + "/emit"}
	for i := range nb.mask {
		if nb.mask[i] && nb.vals[i] == posInfBits {
			nb.mask[i] = false
		}
	}
	return nb
}

// refEncode encodes b with a brand-new encoder; returns Bytes() copy.
func refEncode(b *block) ([]byte, error) {
	enc := encoding.NewTSDEncoder(b.start)
	encodeInto(enc, b, 0, b.width(), false)
	data, err := enc.Bytes()
	return append([]byte(nil), data...), err
}

// ---------------------------------------------------------------------------------------------
// decoder side checks; each returns false after reporting the first disagreement

func (ks *kase) checkSequential(d *encoding.TSDDecoder, b *block, data []byte) bool {
	w := func() map[string]interface{} { x := b.witness(); x["encoded_hex"] = hexBytes(data); return x }
	if d.StartTime() != b.start || d.EndTime() != b.end() {
		ks.fail("time-range", fmt.Sprintf("decoder range [%d,%d], encoded [%d,%d]", d.StartTime(), d.EndTime(), b.start, b.end()), w())
		return false
	}
	n := 0
	for d.Next() {
		if n >= b.width() {
			ks.fail("seq-next-overrun", fmt.Sprintf("Next() returned true more than %d times", b.width()), w())
			return false
		}
		has := d.HasValue()
		if has != b.mask[n] {
			ks.fail("seq-slot-mask", fmt.Sprintf("sequential read: slot %d (index %d) HasValue=%v, encoded %v",
				int(b.start)+n, n, has, b.mask[n]), w())
			return false
		}
		if has {
			if got := d.Slot(); got != b.start+uint16(n) {
				ks.fail("seq-slot-number", fmt.Sprintf("Slot()=%d at index %d of block starting %d", got, n, b.start), w())
				return false
			}
			if v := d.Value(); v != b.vals[n] {
				ks.fail("seq-value", fmt.Sprintf("sequential read: slot %d decoded %016x, encoded %016x",
					int(b.start)+n, v, b.vals[n]), w())
				return false
			}
			ks.k.count("values_compared_bit_exact", 1)
		}
		n++
	}
	if n != b.width() {
		ks.fail("seq-slot-count", fmt.Sprintf("sequential read yielded %d slots, encoded %d", n, b.width()), w())
		return false
	}
	if err := d.Error(); err != nil {
		ks.fail("seq-error", "decoder error on a valid block: "+err.Error(), w())
		return false
	}
	ks.k.count("tsd_sequential_reads", 1)
	return true
}

func (ks *kase) checkSlotAscending(d *encoding.TSDDecoder, b *block, data []byte) bool {
	w := func() map[string]interface{} { x := b.witness(); x["encoded_hex"] = hexBytes(data); return x }
	if b.width() == 0 {
		return true
	}
	lo := int(b.start) - 2
	if lo < 0 {
		lo = 0
	}
	hi := int(b.end()) + 2
	for s := lo; s <= hi; s++ {
		in := s >= int(b.start) && s <= int(b.end())
		want := in && b.mask[s-int(b.start)]
		var ok bool
		var v uint64
		how := "HasValueWithSlot+Value"
		if ks.r.chance(1, 2) {
			how = "GetValue"
			var f float64
			f, ok = d.GetValue(uint16(s))
			v = math.Float64bits(f)
		} else if ok = d.HasValueWithSlot(uint16(s)); ok {
			v = d.Value()
		}
		if ok != want {
			ks.fail("slot-mask", fmt.Sprintf("%s(%d) says has=%v, encoded has=%v (block [%d,%d])", how, s, ok, want, b.start, b.end()), w())
			return false
		}
		if ok {
			if v != b.vals[s-int(b.start)] {
				ks.fail("slot-value", fmt.Sprintf("%s(%d) decoded %016x, encoded %016x", how, s, v, b.vals[s-int(b.start)]), w())
				return false
			}
			ks.k.count("values_compared_bit_exact", 1)
		}
	}
	if err := d.Error(); err != nil {
		ks.fail("slot-error", "decoder error on a valid block: "+err.Error(), w())
		return false
	}
	ks.k.count("tsd_slot_addressed_reads", 1)
	return true
}

// checkCursor drives a random mix of Seek / HasValueWithSlot / GetValue / Next on one decoder and compares
// each answer with a cursor model over the encoded block (the cursor only moves forward, one slot per read).
func (ks *kase) checkCursor(d *encoding.TSDDecoder, b *block, data []byte) bool {
	r := ks.r
	width := b.width()
	if width == 0 {
		return true
	}
	var trace []string
	w := func() map[string]interface{} {
		x := b.witness()
		x["encoded_hex"] = hexBytes(data)
		if len(trace) > 64 {
			trace = trace[len(trace)-64:]
		}
		x["last_ops"] = trace
		return x
	}
	start, end := int(b.start), int(b.end())
	pos := 0 // slots consumed
	pickSlot := func() int {
		switch r.intn(6) {
		case 0:
			return r.between(max(0, start-3), min(65535, end+3))
		case 1:
			return start + r.intn(width)
		default:
			// ahead of the cursor, mostly near
			room := width - pos
			if room <= 0 {
				return end
			}
			if r.chance(1, 4) {
				return start + pos + r.intn(room) // anywhere ahead: crosses whatever gaps the mask has
			}
			return start + pos + r.intn(min(room, 1+r.intn(12)))
		}
	}
	readAt := func(s int, how int) bool { // returns false on violation
		in := s >= start && s <= end
		atCursor := in && s == start+pos
		want := atCursor && b.mask[pos]
		var ok bool
		var v uint64
		name := "HasValueWithSlot+Value"
		if how == 0 {
			name = "GetValue"
			var f float64
			f, ok = d.GetValue(uint16(s))
			v = math.Float64bits(f)
		} else if ok = d.HasValueWithSlot(uint16(s)); ok {
			v = d.Value()
		}
		trace = append(trace, fmt.Sprintf("%s(%d)=%v cursor=%d", name, s, ok, start+pos))
		if ok != want {
			ks.fail("cursor-slot-mask", fmt.Sprintf("%s(%d) says has=%v; cursor at slot %d, encoded has=%v", name, s, ok, start+pos, want), w())
			return false
		}
		if ok && v != b.vals[pos] {
			ks.fail("cursor-slot-value", fmt.Sprintf("%s(%d) decoded %016x, encoded %016x", name, s, v, b.vals[pos]), w())
			return false
		}
		if ok {
			ks.k.count("values_compared_bit_exact", 1)
		}
		if atCursor {
			pos++
		}
		return true
	}
	nOps := min(3*width, 60)
	for op := 0; op < nOps; op++ {
		switch r.intn(8) {
		case 0, 1, 2:
			if !readAt(pickSlot(), r.intn(2)) {
				return false
			}
		case 3, 4: // Seek
			s := pickSlot()
			got := d.Seek(uint16(s))
			trace = append(trace, fmt.Sprintf("Seek(%d)=%v cursor=%d", s, got, start+pos))
			in := s >= start && s <= end
			switch {
			case !in || s < start+pos:
				if got {
					ks.fail("seek-true-unreachable", fmt.Sprintf("Seek(%d)=true although block is [%d,%d] and cursor at %d", s, start, end, start+pos), w())
					return false
				}
			default:
				hole := -1
				for i := pos; i < s-start; i++ {
					if !b.mask[i] {
						hole = i
						break
					}
				}
				ks.k.count("tsd_seeks_forward", 1)
				if hole >= 0 {
					ks.k.count("tsd_seeks_across_empty_slots", 1)
				}
				if got {
					// the cursor must now be at the target, whether or not empty slots lie in between: the reads that
					// follow (and Slot()) are judged against that position
					pos = s - start
					if hole >= 0 {
						ks.k.count("tsd_seeks_across_empty_slots_positioned", 1)
					}
				} else {
					if hole < 0 {
						ks.fail("seek-false-no-gap", fmt.Sprintf("Seek(%d)=false; cursor at %d, all slots in between have values", s, start+pos), w())
						return false
					}
					// Seek gave up at an empty slot between the cursor and the target although the target is a valid slot
					// of the block: afterwards a slot-addressed read of `s` says "no value" while the sequential read has
					// one (defect fixed by e4b0ba5; the cursor used to stay just behind the empty slot).
					ks.k.count("tsd_seeks_across_empty_slot_failed", 1)
					if ks.k.seen("C14/tsd-seek-stops-at-empty-slot") {
						ks.k.violation("C14/tsd-seek-stops-at-empty-slot", "", ks.idx, nil)
					} else {
						ks.k.violation("C14/tsd-seek-stops-at-empty-slot", fmt.Sprintf(
							"Seek(%d)=false on block [%d,%d] with cursor at %d: slot %d between cursor and target is empty, Seek stops there",
							s, start, end, start+pos, start+hole), ks.idx, w())
					}
					pos = hole + 1
				}
			}
		case 5, 6: // sequential step on the same decoder
			got := d.Next()
			want := pos < width
			trace = append(trace, fmt.Sprintf("Next()=%v cursor=%d", got, start+pos))
			if got != want {
				ks.fail("cursor-next", fmt.Sprintf("Next()=%v with cursor at slot %d of [%d,%d]", got, start+pos, start, end), w())
				return false
			}
			if got {
				has := d.HasValue()
				if has != b.mask[pos] {
					ks.fail("cursor-next-mask", fmt.Sprintf("Next+HasValue at slot %d = %v, encoded %v", start+pos, has, b.mask[pos]), w())
					return false
				}
				if has {
					if v := d.Value(); v != b.vals[pos] {
						ks.fail("cursor-next-value", fmt.Sprintf("Next+Value at slot %d decoded %016x, encoded %016x", start+pos, v, b.vals[pos]), w())
						return false
					}
				}
				pos++
			}
		default:
			if pos > 0 {
				if got := d.Slot(); got != uint16(start+pos-1) {
					ks.fail("cursor-slot-number", fmt.Sprintf("Slot()=%d, cursor model says last consumed slot is %d", got, start+pos-1), w())
					return false
				}
			}
		}
	}
	// drain the remainder in ascending order
	for pos < width {
		if !readAt(start+pos, r.intn(2)) {
			return false
		}
	}
	if err := d.Error(); err != nil {
		ks.fail("cursor-error", "decoder error on a valid block: "+err.Error(), w())
		return false
	}
	ks.k.count("tsd_cursor_histories", 1)
	return true
}

// verifyWith resets d on the encoded data (with or without time header) and runs one of the three checks.
func (ks *kase) verifyWith(d *encoding.TSDDecoder, b *block, data []byte, kind int) bool {
	if b.width() == 0 {
		return true
	}
	if ks.r.chance(1, 3) {
		d.ResetWithTimeRange(data[4:], b.start, b.end())
		ks.k.count("tsd_decodes_without_time_header", 1)
	} else {
		d.Reset(data)
	}
	switch kind {
	case 0:
		return ks.checkSequential(d, b, data)
	case 1:
		return ks.checkSlotAscending(d, b, data)
	default:
		return ks.checkCursor(d, b, data)
	}
}

// ---------------------------------------------------------------------------------------------
// family "tsd": fresh encoder, fresh decoders, every read path

func caseTSD(ks *kase) {
	b := genBlock(ks.r, true)
	emit := ks.r.chance(1, 5)
	enc := encoding.NewTSDEncoder(b.start)
	encodeInto(enc, b, 0, b.width(), emit)
	raw, err := enc.Bytes()
	data := append([]byte(nil), raw...)
	view := b
	if emit {
		view = emitView(b)
		ks.k.count("tsd_blocks_via_downsampling_emitter", 1)
	}
	ks.k.eval(1)
	ks.k.count("tsd_blocks_encoded", 1)
	ks.k.count("tsd_mask_"+maskKind(view), 1)
	if err != nil {
		ks.fail("encode-error", "Bytes() error on valid appends: "+err.Error(), view.witness())
		return
	}
	if b.width() == 0 {
		if data != nil {
			ks.fail("empty-block-bytes", fmt.Sprintf("encoder without slots returned %d bytes", len(data)), view.witness())
		}
		return
	}
	if len(data) <= 4 {
		ks.fail("short-bytes", fmt.Sprintf("%d slots encoded into %d bytes", b.width(), len(data)), view.witness())
		return
	}
	if s, e := encoding.DecodeTSDTime(data); s != b.start || e != b.end() {
		ks.fail("header-range", fmt.Sprintf("DecodeTSDTime=[%d,%d], encoded window [%d,%d]", s, e, b.start, b.end()), view.witness())
		return
	}
	// second form: BytesWithoutTime must be the same stream without the 4 byte header
	enc2 := encoding.NewTSDEncoder(b.start)
	encodeInto(enc2, b, 0, b.width(), emit)
	raw2, err2 := enc2.BytesWithoutTime()
	if err2 != nil || !bytes.Equal(raw2, data[4:]) {
		ks.fail("bytes-forms-differ", fmt.Sprintf("BytesWithoutTime (err=%v) differs from Bytes()[4:]", err2), view.witness())
		return
	}
	if view.count() > 0 {
		ks.k.nontrivial("tsd", view.hash())
		ks.k.sample(view.witness())
	}
	for kind := 0; kind < 3; kind++ {
		var d *encoding.TSDDecoder
		if ks.r.chance(1, 2) {
			d = encoding.NewTSDDecoder(data)
			if kind != 0 && ks.r.chance(1, 2) {
				d.Reset(data)
			}
			var ok bool
			switch kind {
			case 0:
				ok = ks.checkSequential(d, view, data)
			case 1:
				ok = ks.checkSlotAscending(d, view, data)
			default:
				ok = ks.checkCursor(d, view, data)
			}
			if !ok {
				return
			}
			continue
		}
		d = encoding.NewTSDDecoder(nil)
		if !ks.verifyWith(d, view, data, kind) {
			return
		}
	}
}

func maskKind(b *block) string {
	c := b.count()
	switch {
	case b.width() == 0:
		return "zero_width"
	case c == 0:
		return "empty"
	case c == b.width():
		return "dense"
	case c == 1:
		return "single"
	case c*8 <= b.width():
		return "sparse"
	default:
		return "mixed"
	}
}

// ---------------------------------------------------------------------------------------------
// family "xor": the XOR codec on its own bit stream, encoder/decoder objects reused through Reset

func caseXOR(ks *kase) {
	r := ks.r
	var buf bytes.Buffer
	bw := bit.NewWriter(&buf)
	enc := encoding.NewXOREncoder(bw)
	rbuf := bufioutil.NewBuffer(nil)
	br := bit.NewReader(rbuf)
	dec := encoding.NewXORDecoder(br)
	rounds := 1 + r.intn(3)
	for round := 0; round < rounds; round++ {
		n := 1 + r.intn(1+r.intn(300))
		vals, desc := r.genValues(n)
		if round > 0 {
			buf.Reset()
			bw.Reset(&buf)
			enc.Reset()
			ks.k.count("xor_encoder_reused", 1)
		}
		for _, v := range vals {
			if err := enc.Write(v); err != nil {
				ks.fail("write-error", err.Error(), map[string]interface{}{"values_hex": hexValues(vals)})
				return
			}
		}
		if err := bw.Flush(); err != nil {
			ks.fail("flush-error", err.Error(), nil)
			return
		}
		data := append([]byte(nil), buf.Bytes()...)
		rbuf.SetBuf(data)
		br.Reset()
		dec.Reset()
		ks.k.eval(1)
		ks.k.count("xor_streams", 1)
		h := uint64(n)
		for i, v := range vals {
			h = hash64(h, v)
			if !dec.Next() {
				ks.fail("decode-short", fmt.Sprintf("XORDecoder.Next()=false at value %d of %d (round %d)", i, n, round),
					map[string]interface{}{"values_hex": hexValues(vals), "encoded_hex": hexBytes(data), "style": desc, "round": round})
				return
			}
			if got := dec.Value(); got != v {
				ks.fail("value", fmt.Sprintf("XOR value %d of %d decoded %016x, encoded %016x (round %d, previous %016x)", i, n, got, v, round, prev(vals, i)),
					map[string]interface{}{"values_hex": hexValues(vals), "encoded_hex": hexBytes(data), "style": desc, "round": round})
				return
			}
		}
		ks.k.count("values_compared_bit_exact", n)
		// size accounting: 64 bits for the first value, 1 bit per repeated value, 2+64 bits per changed value when
		// the encoder never narrows its window
		changed := 0
		for i := 1; i < n; i++ {
			if vals[i] != vals[i-1] {
				changed++
			}
		}
		ks.k.count("xor_changed_values", changed)
		if changed > 0 && len(data) == (64+(n-1-changed)+66*changed+7)/8 {
			ks.k.count("xor_streams_with_full_64bit_window_for_every_changed_value", 1)
		} else if changed > 0 {
			ks.k.count("xor_streams_with_narrowed_windows", 1)
		}
		if n > 1 {
			ks.k.nontrivial("xor", h)
		}
	}
}

func prev(v []uint64, i int) uint64 {
	if i == 0 {
		return 0
	}
	return v[i-1]
}

// ---------------------------------------------------------------------------------------------
// family "tsdstream": multi-field stream writer/reader (the reader borrows its decoder from the pool)

func caseTSDStream(ks *kase) {
	r := ks.r
	start, width := r.genWindow(false)
	if width == 0 {
		width = 1 + r.intn(60)
		if int(start)+width > 65535 {
			start = 0
		}
	}
	end := start + uint16(width) - 1
	nFields := 1 + r.intn(6)
	sw := encoding.NewTSDStreamWriter(start, end)
	type fld struct {
		id uint16
		b  *block
	}
	var fields []fld
	h := uint64(width)
	for i := 0; i < nFields; i++ {
		mask, md := r.genMask(width)
		vals, vd := r.genValues(width)
		b := &block{start: start, mask: mask, vals: vals, desc: md + "/" + vd}
		id := uint16(r.u64())
		enc := encoding.GetTSDEncoder(start)
		encodeInto(enc, b, 0, width, false)
		data, err := enc.BytesWithoutTime()
		if err != nil {
			ks.fail("encode-error", err.Error(), b.witness())
			return
		}
		sw.WriteField(id, data) // copies
		encoding.ReleaseTSDEncoder(enc)
		fields = append(fields, fld{id, b})
		h = hash64(h, b.hash())
	}
	raw, err := sw.Bytes()
	if err != nil {
		ks.fail("writer-error", err.Error(), nil)
		return
	}
	data := append([]byte(nil), raw...)
	ks.k.eval(1)
	ks.k.count("tsd_streams", 1)
	ks.k.nontrivial("tsdstream", h)
	sr := encoding.NewTSDStreamReader(data)
	defer sr.Close()
	if s, e := sr.TimeRange(); s != start || e != end {
		ks.fail("time-range", fmt.Sprintf("stream TimeRange=[%d,%d], written [%d,%d]", s, e, start, end), nil)
		return
	}
	for i, f := range fields {
		if !sr.HasNext() {
			ks.fail("fields-short", fmt.Sprintf("HasNext()=false after %d of %d fields", i, nFields), nil)
			return
		}
		id, d := sr.Next()
		if id != f.id {
			ks.fail("field-id", fmt.Sprintf("field %d id %d, written %d", i, id, f.id), f.b.witness())
			return
		}
		var ok bool
		switch r.intn(4) {
		case 0:
			ok = ks.checkSequential(d, f.b, data)
		case 1:
			ok = ks.checkSlotAscending(d, f.b, data)
		case 2:
			ok = ks.checkCursor(d, f.b, data)
		default: // abandon the field half-read: the next field must not see what was left behind
			for s := 0; s < width/2; s++ {
				if d.HasValueWithSlot(start + uint16(s)) {
					_ = d.Value()
				}
			}
			ok = true
			ks.k.count("tsd_stream_fields_abandoned_midway", 1)
		}
		if !ok {
			return
		}
		ks.k.count("tsd_stream_fields", 1)
	}
	if sr.HasNext() {
		ks.fail("fields-extra", fmt.Sprintf("HasNext()=true after all %d fields were read", nFields), nil)
	}
}

// ---------------------------------------------------------------------------------------------
// family "tsdpool": reuse histories over the package pools

var (
	seenMu  sync.Mutex
	seenEnc = map[*encoding.TSDEncoder]struct{}{}
	seenDec = map[*encoding.TSDDecoder]struct{}{}
)

func (ks *kase) getEnc(start uint16) *encoding.TSDEncoder {
	e := encoding.GetTSDEncoder(start)
	seenMu.Lock()
	if _, ok := seenEnc[e]; ok {
		ks.k.count("pool_encoder_reuse_observed", 1)
	} else if len(seenEnc) < 1<<16 {
		seenEnc[e] = struct{}{}
	}
	seenMu.Unlock()
	return e
}

func (ks *kase) getDec() *encoding.TSDDecoder {
	d := encoding.GetTSDDecoder()
	seenMu.Lock()
	if _, ok := seenDec[d]; ok {
		ks.k.count("pool_decoder_reuse_observed", 1)
	} else if len(seenDec) < 1<<16 {
		seenDec[d] = struct{}{}
	}
	seenMu.Unlock()
	return d
}

type heldEnc struct {
	enc  *encoding.TSDEncoder
	b    *block
	done int
}

func caseTSDPool(ks *kase) {
	r := ks.r
	nOps := r.between(8, 40)
	var held []*heldEnc
	var flusher []*encoding.TSDEncoder // like metricsdata.flusher: long-lived encoders reset per use
	type enc struct {
		b    *block
		data []byte
	}
	var history []enc
	h := uint64(nOps)

	finish := func(he *heldEnc) bool {
		encodeInto(he.enc, he.b, he.done, he.b.width(), false)
		raw, err := he.enc.Bytes()
		data := append([]byte(nil), raw...)
		encoding.ReleaseTSDEncoder(he.enc)
		return ks.comparePooled(he.b, data, err, &h) && func() bool {
			if he.b.width() > 0 {
				history = append(history, enc{he.b, data})
			}
			return true
		}()
	}

	for op := 0; op < nOps; op++ {
		switch r.intn(12) {
		case 0, 1, 2, 3: // encode a block with a pooled encoder, decode it with a pooled decoder
			b := genBlock(r, false)
			e := ks.getEnc(b.start)
			encodeInto(e, b, 0, b.width(), false)
			raw, err := e.Bytes()
			data := append([]byte(nil), raw...)
			encoding.ReleaseTSDEncoder(e)
			if !ks.comparePooled(b, data, err, &h) {
				return
			}
			if b.width() > 0 {
				history = append(history, enc{b, data})
			}
		case 4: // abandon an encoder half way (with or without flushing) and give it back
			b := genBlock(r, false)
			e := ks.getEnc(b.start)
			encodeInto(e, b, 0, b.width()/2+r.intn(2)*(b.width()-b.width()/2), false)
			if r.chance(1, 2) {
				_, _ = e.Bytes()
			} else if r.chance(1, 2) {
				_, _ = e.BytesWithoutTime()
			}
			encoding.ReleaseTSDEncoder(e)
			ks.k.count("pool_encoder_released_dirty", 1)
		case 5: // start a block and keep the encoder while others use the pool
			if len(held) < 3 {
				b := genBlock(r, false)
				e := ks.getEnc(b.start)
				half := b.width() / 2
				encodeInto(e, b, 0, half, false)
				held = append(held, &heldEnc{e, b, half})
				ks.k.count("pool_encoder_held_across_other_users", 1)
			}
		case 6: // finish a held block
			if len(held) > 0 {
				i := r.intn(len(held))
				he := held[i]
				held = append(held[:i], held[i+1:]...)
				if !finish(he) {
					return
				}
			}
		case 7, 8: // long-lived encoder reset per use (flusher / merger pattern), BytesWithoutTime then Reset
			if len(flusher) < 3 && (len(flusher) == 0 || r.chance(1, 3)) {
				flusher = append(flusher, ks.getEnc(0))
			}
			e := flusher[r.intn(len(flusher))]
			b := genBlock(r, false)
			emit := r.chance(1, 2)
			e.RestWithStartTime(b.start)
			encodeInto(e, b, 0, b.width(), emit)
			raw, err := e.BytesWithoutTime()
			view := b
			if emit {
				view = emitView(b)
			}
			full := make([]byte, 4, 4+len(raw))
			full = append(full, raw...)
			if b.width() > 0 {
				full[0], full[1] = byte(b.start), byte(b.start>>8)
				full[2], full[3] = byte(b.end()), byte(b.end()>>8)
			}
			if r.chance(1, 2) {
				e.Reset()
			}
			ks.k.count("pool_encoder_reset_with_start_time", 1)
			if b.width() == 0 {
				if len(raw) != 0 || err != nil {
					ks.fail("empty-block-bytes", fmt.Sprintf("reset encoder without slots returned %d bytes, err=%v", len(raw), err), b.witness())
					return
				}
				continue
			}
			if !ks.comparePooled(view, full, err, &h) {
				return
			}
			history = append(history, enc{view, full})
		case 9: // a pooled decoder is left half-read on an earlier block
			if len(history) > 0 {
				x := history[r.intn(len(history))]
				d := ks.getDec()
				d.Reset(x.data)
				n := r.intn(x.b.width() + 1)
				for i := 0; i < n; i++ {
					if r.chance(1, 2) {
						if d.Next() && d.HasValue() {
							_ = d.Value()
						}
					} else if d.HasValueWithSlot(x.b.start + uint16(i)) {
						_ = d.Value()
					}
				}
				encoding.ReleaseTSDDecoder(d)
				ks.k.count("pool_decoder_released_midway", 1)
			}
		case 10: // re-read an older block with a pooled decoder
			if len(history) > 0 {
				x := history[r.intn(len(history))]
				d := ks.getDec()
				ok := ks.verifyWith(d, x.b, x.data, r.intn(3))
				encoding.ReleaseTSDDecoder(d)
				if !ok {
					return
				}
				ks.k.count("pool_old_block_reread", 1)
			}
		default: // two decoders out of the pool at the same time on different blocks, read interleaved
			if len(history) > 1 {
				x, y := history[r.intn(len(history))], history[r.intn(len(history))]
				d1, d2 := ks.getDec(), ks.getDec()
				if d1 == d2 {
					ks.fail("pool-same-decoder-twice", "GetTSDDecoder returned the same object to two users", nil)
					return
				}
				d1.Reset(x.data)
				d2.Reset(y.data)
				ok := ks.interleaved(d1, x.b, x.data, d2, y.b, y.data)
				encoding.ReleaseTSDDecoder(d1)
				encoding.ReleaseTSDDecoder(d2)
				if !ok {
					return
				}
				ks.k.count("pool_two_decoders_interleaved", 1)
			}
		}
	}
	for _, he := range held {
		if !finish(he) {
			return
		}
	}
	for _, e := range flusher {
		encoding.ReleaseTSDEncoder(e)
	}
	ks.k.eval(1)
	ks.k.count("pool_histories", 1)
	if len(history) > 0 {
		ks.k.sample(map[string]interface{}{"family": "tsdpool", "case_idx": ks.idx, "pool_operations": nOps,
			"blocks_encoded_and_verified": len(history), "last_block": history[len(history)-1].b.witness()})
	}
	ks.k.nontrivial(ks.ctx, h)
}

// comparePooled checks the bytes a reused encoder produced against a brand-new encoder and decodes them with a pooled decoder.
func (ks *kase) comparePooled(b *block, data []byte, err error, h *uint64) bool {
	ks.k.count("pool_blocks_encoded", 1)
	if err != nil {
		ks.fail("encode-error", "Bytes() error on valid appends: "+err.Error(), b.witness())
		return false
	}
	if b.width() == 0 {
		if len(data) != 0 {
			ks.fail("empty-block-bytes", fmt.Sprintf("pooled encoder without slots returned %d bytes", len(data)), b.witness())
			return false
		}
		return true
	}
	*h = hash64(*h, b.hash())
	ref, rerr := refEncode(b)
	if rerr != nil || !bytes.Equal(ref, data) {
		w := b.witness()
		w["pooled_hex"] = hexBytes(data)
		w["fresh_hex"] = hexBytes(ref)
		ks.fail("encoder-differs-from-fresh", fmt.Sprintf(
			"reused encoder produced %d bytes, a new encoder %d bytes for the same block (first difference at byte %d)",
			len(data), len(ref), firstDiff(ref, data)), w)
		return false
	}
	d := ks.getDec()
	ok := ks.verifyWith(d, b, data, ks.r.intn(3))
	encoding.ReleaseTSDDecoder(d)
	return ok
}

func firstDiff(a, b []byte) int {
	n := min(len(a), len(b))
	for i := 0; i < n; i++ {
		if a[i] != b[i] {
			return i
		}
	}
	return n
}

// interleaved reads two blocks alternately through two decoders (ascending slot-addressed).
func (ks *kase) interleaved(d1 *encoding.TSDDecoder, b1 *block, data1 []byte, d2 *encoding.TSDDecoder, b2 *block, data2 []byte) bool {
	i1, i2 := 0, 0
	step := func(d *encoding.TSDDecoder, b *block, data []byte, i int) bool {
		s := b.start + uint16(i)
		ok := d.HasValueWithSlot(s)
		if ok != b.mask[i] {
			w := b.witness()
			w["encoded_hex"] = hexBytes(data)
			ks.fail("interleaved-slot-mask", fmt.Sprintf("two pooled decoders read alternately: slot %d has=%v, encoded %v", s, ok, b.mask[i]), w)
			return false
		}
		if ok {
			if v := d.Value(); v != b.vals[i] {
				w := b.witness()
				w["encoded_hex"] = hexBytes(data)
				ks.fail("interleaved-slot-value", fmt.Sprintf("two pooled decoders read alternately: slot %d decoded %016x, encoded %016x", s, v, b.vals[i]), w)
				return false
			}
			ks.k.count("values_compared_bit_exact", 1)
		}
		return true
	}
	for i1 < b1.width() || i2 < b2.width() {
		if i1 < b1.width() && (i2 >= b2.width() || ks.r.chance(1, 2)) {
			if !step(d1, b1, data1, i1) {
				return false
			}
			i1++
		} else {
			if !step(d2, b2, data2, i2) {
				return false
			}
			i2++
		}
	}
	return true
}

// ---------------------------------------------------------------------------------------------
// family "edge": windows that touch the last representable slot 65535 (deterministic list)

type edgeCase struct {
	start uint16
	width int
}

var edgeCases = []edgeCase{
	{65535, 1}, {65534, 2}, {65000, 536}, {1, 65535}, {60000, 5536}, {65528, 8}, {65527, 9},
}

func caseEdge(ks *kase) {
	ec := edgeCases[ks.idx%len(edgeCases)]
	mask, md := ks.r.genMask(ec.width)
	vals, vd := ks.r.genValues(ec.width)
	b := &block{start: ec.start, mask: mask, vals: vals, desc: md + "/" + vd}
	data, err := refEncode(b)
	ks.k.eval(1)
	ks.k.count("edge_blocks_ending_at_slot_65535", 1)
	if err != nil || len(data) <= 4 {
		ks.fail("encode", fmt.Sprintf("err=%v len=%d", err, len(data)), b.witness())
		return
	}
	if s, e := encoding.DecodeTSDTime(data); s != ec.start || e != 65535 {
		ks.fail("header-range", fmt.Sprintf("DecodeTSDTime=[%d,%d], encoded window [%d,65535]", s, e, ec.start), b.witness())
		return
	}
	// slot addressed, ascending (loop written so that it cannot wrap itself)
	d := encoding.NewTSDDecoder(data)
	for i := 0; i < ec.width; i++ {
		s := ec.start + uint16(i)
		ok := d.HasValueWithSlot(s)
		if ok != mask[i] {
			ks.fail("slot-mask", fmt.Sprintf("HasValueWithSlot(%d)=%v, encoded %v", s, ok, mask[i]), b.witness())
			return
		}
		if ok {
			if v := d.Value(); v != vals[i] {
				ks.fail("slot-value", fmt.Sprintf("slot %d decoded %016x, encoded %016x", s, v, vals[i]), b.witness())
				return
			}
		}
	}
	// sequential: Next() must become false after `width` slots; decided by counting calls, not by time
	d.Reset(data)
	n := 0
	for d.Next() {
		if n >= ec.width {
			ks.fail("next-never-false-when-end-is-65535", fmt.Sprintf(
				"block [%d,65535]: Next() is still true after all %d slots were read (startTime+idx wraps in uint16), `for d.Next()` never ends",
				ec.start, ec.width), map[string]interface{}{"start_slot": ec.start, "width": ec.width})
			return
		}
		has := d.HasValue()
		if has != mask[n] {
			ks.fail("seq-slot-mask", fmt.Sprintf("slot %d HasValue=%v, encoded %v", int(ec.start)+n, has, mask[n]), b.witness())
			return
		}
		if has {
			if v := d.Value(); v != vals[n] {
				ks.fail("seq-value", fmt.Sprintf("slot %d decoded %016x, encoded %016x", int(ec.start)+n, v, vals[n]), b.witness())
				return
			}
		}
		n++
	}
	if n != ec.width {
		ks.fail("seq-slot-count", fmt.Sprintf("sequential read yielded %d slots, encoded %d", n, ec.width), b.witness())
	}
}

// ---------------------------------------------------------------------------------------------
// family "xorref": blocks written by an independent encoder of the format documented at XOREncoder.Write.
//
// lindb's own XOREncoder starts with leading=trailing=0 and only changes them in the branch that needs
// `leading < e.leading || trailing < e.trailing`, i.e. never: every changed value is written with the full
// 64 bit window and the "new window" path of XORDecoder is never reached by blocks lindb writes today.
// This family reaches it: the reference encoder picks, among the encodings the documented format allows,
// a random one (new window whenever it likes, previous window when the delta fits).

type bitAppender struct {
	buf  []byte
	nbit int
}

func (a *bitAppender) bit(b bool) {
	if a.nbit%8 == 0 {
		a.buf = append(a.buf, 0)
	}
	if b {
		a.buf[len(a.buf)-1] |= 1 << uint(7-a.nbit%8)
	}
	a.nbit++
}

func (a *bitAppender) bits(u uint64, n int) {
	for k := n - 1; k >= 0; k-- {
		a.bit(u>>uint(k)&1 == 1)
	}
}

func refFormatEncode(r *rng, b *block) (data []byte, newWindows int) {
	a := &bitAppender{}
	first := true
	var prevVal uint64
	lead, trail := 0, 0 // what a decoder assumes before the first window is transmitted
	for i, m := range b.mask {
		a.bit(m)
		if !m {
			continue
		}
		v := b.vals[i]
		if first {
			first = false
			prevVal = v
			a.bits(v, 64)
			continue
		}
		delta := v ^ prevVal
		prevVal = v
		if delta == 0 {
			a.bit(false)
			continue
		}
		a.bit(true)
		lz, tz := leadingZeros(delta), trailingZeros(delta)
		fits := lz >= lead && tz >= trail
		if fits && r.chance(1, 2) {
			a.bit(true)
			a.bits(delta>>uint(trail), 64-lead-trail)
			continue
		}
		// new window; it may be wider than necessary as long as it covers the meaningful bits
		if r.chance(1, 4) {
			lz -= r.intn(lz + 1)
			tz -= r.intn(tz + 1)
		}
		size := 64 - lz - tz
		a.bit(false)
		a.bits(uint64(lz), 6)
		a.bits(uint64(size-1), 6)
		a.bits(delta>>uint(tz), size)
		lead, trail = lz, tz
		newWindows++
	}
	out := make([]byte, 4, 4+len(a.buf))
	out[0], out[1] = byte(b.start), byte(b.start>>8)
	out[2], out[3] = byte(b.end()), byte(b.end()>>8)
	return append(out, a.buf...), newWindows
}

func leadingZeros(x uint64) int {
	n := 0
	for k := 63; k >= 0 && x>>uint(k)&1 == 0; k-- {
		n++
	}
	return n
}

func trailingZeros(x uint64) int {
	n := 0
	for k := 0; k < 64 && x>>uint(k)&1 == 0; k++ {
		n++
	}
	return n
}

func caseXORRef(ks *kase) {
	b := genBlock(ks.r, false)
	if b.width() == 0 {
		return
	}
	data, nw := refFormatEncode(ks.r, b)
	ks.k.eval(1)
	ks.k.count("xorref_blocks", 1)
	ks.k.count("xorref_new_window_values", nw)
	if nw > 0 {
		ks.k.nontrivial("xorref", b.hash())
	}
	d := encoding.GetTSDDecoder()
	defer encoding.ReleaseTSDDecoder(d)
	if !ks.verifyWith(d, b, data, 0) {
		return
	}
	ks.verifyWith(d, b, data, 1+ks.r.intn(2))
}
