package main

import (
	"encoding/json"
	"fmt"
	"os"
	"sync"
)

// viol is one violation class observed in a child.
type viol struct {
	Class   string      `json:"class"`
	Message string      `json:"message"`
	Witness interface{} `json:"witness"`
	Count   int         `json:"count"`
}

// result is what a child hands back to the parent.
type result struct {
	Family     string           `json:"family"`
	Lo         int              `json:"lo"`
	Hi         int              `json:"hi"`
	Done       bool             `json:"done"`
	Evals      int64            `json:"evals"`
	Counters   map[string]int64 `json:"counters"`
	Nontrivial []string         `json:"nontrivial"`
	NTTotal    int64            `json:"nontrivial_total"`
	Samples    []interface{}    `json:"samples"`
	Viols      []*viol          `json:"viols"`
}

// coll collects observations in a child process (safe for concurrent use).
type coll struct {
	mu       sync.Mutex
	res      result
	viols    map[string]*viol
	ntSeen   map[string]struct{}
	ntCap    int
	family   string
	seed     int64
	curIdx   int // only meaningful in single-goroutine families
	maxViols int
}

func newColl(family string, lo, hi int, seed int64) *coll {
	return &coll{
		res:    result{Family: family, Lo: lo, Hi: hi, Counters: map[string]int64{}},
		viols:  map[string]*viol{},
		ntSeen: map[string]struct{}{},
		ntCap:  4000,
		family: family, seed: seed,
	}
}

func (k *coll) count(name string, n int) {
	k.mu.Lock()
	k.res.Counters[name] += int64(n)
	k.mu.Unlock()
}

func (k *coll) eval(n int) {
	k.mu.Lock()
	k.res.Evals += int64(n)
	k.mu.Unlock()
}

// nontrivial records a distinct non-trivial case by the hash of its input.
func (k *coll) nontrivial(family string, h uint64) {
	key := fmt.Sprintf("%s:%016x", family, h)
	k.mu.Lock()
	if _, ok := k.ntSeen[key]; !ok {
		k.res.NTTotal++
		if len(k.ntSeen) < k.ntCap {
			k.ntSeen[key] = struct{}{}
			k.res.Nontrivial = append(k.res.Nontrivial, key)
		}
	}
	k.mu.Unlock()
}

func (k *coll) sample(v interface{}) {
	k.mu.Lock()
	if len(k.res.Samples) < 1 {
		k.res.Samples = append(k.res.Samples, v)
	}
	k.mu.Unlock()
}

// violation records a violation; the witness is extended with what is needed to re-run the case.
func (k *coll) violation(class, msg string, idx int, witness map[string]interface{}) {
	k.mu.Lock()
	defer k.mu.Unlock()
	if v, ok := k.viols[class]; ok {
		v.Count++
		return
	}
	if witness == nil {
		witness = map[string]interface{}{}
	}
	witness["family"] = k.family
	witness["case_idx"] = idx
	witness["verif_seed"] = k.seed
	witness["rerun"] = fmt.Sprintf("VERIF_SEED=%d VERIF_TIER=%s bin/c14 child %s %d %d /dev/stdout /dev/null",
		k.seed, os.Getenv("VERIF_TIER"), k.family, idx, idx+1)
	v := &viol{Class: class, Message: msg, Witness: witness, Count: 1}
	k.viols[class] = v
	k.res.Viols = append(k.res.Viols, v)
}

// seen reports whether a violation of this class was already recorded (to skip building another witness).
func (k *coll) seen(class string) bool {
	k.mu.Lock()
	_, ok := k.viols[class]
	k.mu.Unlock()
	return ok
}

func (k *coll) write(path string, done bool) error {
	k.mu.Lock()
	defer k.mu.Unlock()
	k.res.Done = done
	data, err := json.Marshal(&k.res)
	if err != nil {
		return err
	}
	if path == "/dev/stdout" {
		_, err = os.Stdout.Write(append(data, '\n'))
		return err
	}
	return os.WriteFile(path, data, 0o644)
}
