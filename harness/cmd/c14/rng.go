package main

import (
	"fmt"
	"math"
	"strings"
)

// rng is a splitmix64 generator. One rng per case, seeded from a master key (drawn from
// core.Ctx.Rand(family)) and the case index, so that a case is a function of (VERIF_SEED, family, idx)
// only and does not depend on batching or on which child ran it.
type rng struct{ s uint64 }

func mix64(z uint64) uint64 {
	z = (z ^ (z >> 30)) * 0xbf58476d1ce4e5b9
	z = (z ^ (z >> 27)) * 0x94d049bb133111eb
	return z ^ (z >> 31)
}

func newRng(master uint64, idx int) *rng {
	return &rng{s: mix64(master ^ mix64(uint64(idx)+0x9e3779b97f4a7c15))}
}

func (r *rng) u64() uint64 {
	r.s += 0x9e3779b97f4a7c15
	return mix64(r.s)
}

func (r *rng) intn(n int) int {
	if n <= 0 {
		return 0
	}
	return int(r.u64() % uint64(n))
}

// between returns a value in [lo, hi].
func (r *rng) between(lo, hi int) int { return lo + r.intn(hi-lo+1) }

func (r *rng) chance(num, den int) bool { return r.intn(den) < num }

func (r *rng) bytes(n int) []byte {
	b := make([]byte, n)
	i := 0
	for ; i+8 <= n; i += 8 {
		v := r.u64()
		b[i], b[i+1], b[i+2], b[i+3] = byte(v), byte(v>>8), byte(v>>16), byte(v>>24)
		b[i+4], b[i+5], b[i+6], b[i+7] = byte(v>>32), byte(v>>40), byte(v>>48), byte(v>>56)
	}
	for ; i < n; i++ {
		b[i] = byte(r.u64())
	}
	return b
}

// ---------------------------------------------------------------------------------------------
// IEEE-754 value generators (bit level)

var specialBits = []uint64{
	0x0000000000000000,                 // +0
	0x8000000000000000,                 // -0
	0x7ff0000000000000,                 // +Inf
	0xfff0000000000000,                 // -Inf
	0x7ff8000000000000,                 // canonical quiet NaN
	0x7ff8000000000001,                 // quiet NaN, payload 1
	0x7ff0000000000001,                 // signalling NaN, smallest payload
	0x7ff7ffffffffffff,                 // signalling NaN, largest payload
	0xfff8000000000000,                 // negative quiet NaN
	0xffffffffffffffff,                 // all ones NaN
	0x7fffffffffffffff,                 // positive all-ones NaN
	0x0000000000000001,                 // smallest subnormal
	0x000fffffffffffff,                 // largest subnormal
	0x8000000000000001,                 // negative smallest subnormal
	0x0010000000000000,                 // smallest normal
	0x7fefffffffffffff,                 // max float
	0xffefffffffffffff,                 // -max float
	math.Float64bits(1.0),              // 1
	math.Float64bits(-1.0),             // -1
	math.Float64bits(0.1),              //
	math.Float64bits(1e308),            //
	math.Float64bits(4.9e-324),         //
	math.Float64bits(math.Pi),          //
	math.Float64bits(float64(1 << 53)), //
	0x8000000000000000 >> 1,            // 2.0 bit pattern (0x4000...)
	0x0000000080000000,                 // mid bit only
	0x5555555555555555,
	0xaaaaaaaaaaaaaaaa,
}

func (r *rng) classValue() uint64 {
	switch r.intn(10) {
	case 0, 1:
		return specialBits[r.intn(len(specialBits))]
	case 2: // NaN with random payload (quiet or signalling, either sign)
		v := uint64(0x7ff0000000000000) | (r.u64() & 0x000fffffffffffff)
		if v == 0x7ff0000000000000 {
			v |= 1
		}
		if r.chance(1, 2) {
			v |= 1 << 63
		}
		return v
	case 3: // subnormal
		v := r.u64() & 0x000fffffffffffff
		if r.chance(1, 2) {
			v |= 1 << 63
		}
		return v
	case 4: // small integer valued floats (counters)
		return math.Float64bits(float64(r.intn(1000)))
	case 5: // "metric like" decimals
		return math.Float64bits(float64(r.intn(1_000_000)) / 100)
	case 6: // one bit
		return uint64(1) << uint(r.intn(64))
	default:
		return r.u64()
	}
}

// xorDelta returns a non-zero delta with exactly lz leading and tz trailing zero bits (lz+tz<=63).
func (r *rng) xorDelta(lz, tz int) uint64 {
	size := 64 - lz - tz
	if size <= 0 {
		size = 1
		tz = 63 - lz
		if tz < 0 {
			lz, tz = 63, 0
		}
	}
	var mid uint64
	if size == 64 {
		mid = r.u64() | 1<<63 | 1
	} else if size == 1 {
		mid = 1
	} else {
		mid = (r.u64() & (uint64(1)<<uint(size) - 1)) | 1 | uint64(1)<<uint(size-1)
	}
	return mid << uint(tz)
}

// genValues generates n values (bit patterns) in one of several hostile styles.
func (r *rng) genValues(n int) ([]uint64, string) {
	out := make([]uint64, n)
	if n == 0 {
		return out, "none"
	}
	style := r.intn(9)
	switch style {
	case 0: // independent classes
		for i := range out {
			out[i] = r.classValue()
		}
		return out, "classes"
	case 1: // constant
		v := r.classValue()
		for i := range out {
			out[i] = v
		}
		return out, "constant"
	case 2: // counter
		base := float64(r.intn(1 << 20))
		step := float64(r.intn(100)) / 4
		for i := range out {
			out[i] = math.Float64bits(base + float64(i)*step)
		}
		return out, "counter"
	case 3: // random walk of floats
		v := float64(r.intn(1000))
		for i := range out {
			v += (float64(r.intn(2001)) - 1000) / 8
			out[i] = math.Float64bits(v)
		}
		return out, "walk"
	case 4: // targeted XOR windows: shrinking, growing, equal, boundary windows
		v := r.classValue()
		lz, tz := r.intn(64), 0
		tz = r.intn(64 - lz)
		for i := range out {
			out[i] = v
			switch r.intn(8) {
			case 0: // same value (delta 0)
			case 1: // same window
				v ^= r.xorDelta(lz, tz)
			case 2: // strictly inside the window
				if lz < 40 {
					lz += r.intn(3)
				}
				if lz+tz < 60 {
					tz += r.intn(3)
				}
				v ^= r.xorDelta(lz, tz)
			case 3: // wider window on the left
				if lz > 0 {
					lz -= 1 + r.intn(lz)
				}
				v ^= r.xorDelta(lz, tz)
			case 4: // wider window on the right
				if tz > 0 {
					tz -= 1 + r.intn(tz)
				}
				v ^= r.xorDelta(lz, tz)
			case 5: // boundary windows
				switch r.intn(5) {
				case 0:
					lz, tz = 0, 0
				case 1:
					lz, tz = 63, 0
				case 2:
					lz, tz = 0, 63
				case 3:
					lz = r.intn(64)
					tz = 63 - lz
				default:
					lz, tz = 31, 32
				}
				v ^= r.xorDelta(lz, tz)
			default: // fresh random window
				lz = r.intn(64)
				tz = r.intn(64 - lz)
				v ^= r.xorDelta(lz, tz)
			}
		}
		return out, "xor-windows"
	case 5: // pure random bits
		for i := range out {
			out[i] = r.u64()
		}
		return out, "random-bits"
	case 6: // specials cycling
		off := r.intn(len(specialBits))
		for i := range out {
			out[i] = specialBits[(off+i)%len(specialBits)]
		}
		return out, "specials"
	case 7: // few distinct values alternating
		k := 2 + r.intn(3)
		vals := make([]uint64, k)
		for i := range vals {
			vals[i] = r.classValue()
		}
		for i := range out {
			out[i] = vals[r.intn(k)]
		}
		return out, "alternating"
	default: // runs of equal values then a jump
		v := r.classValue()
		for i := range out {
			if r.chance(1, 6) {
				v = r.classValue()
			}
			out[i] = v
		}
		return out, "runs"
	}
}

// genMask generates a slot mask of the given width.
func (r *rng) genMask(width int) ([]bool, string) {
	m := make([]bool, width)
	if width == 0 {
		return m, "zero-width"
	}
	fill := func(num, den int) {
		for i := range m {
			m[i] = r.chance(num, den)
		}
	}
	switch r.intn(12) {
	case 0:
		for i := range m {
			m[i] = true
		}
		return m, "dense"
	case 1:
		return m, "empty"
	case 2:
		m[r.intn(width)] = true
		return m, "single"
	case 3:
		fill(1, 32)
		return m, "sparse"
	case 4:
		fill(1, 2)
		return m, "half"
	case 5:
		fill(15, 16)
		return m, "nearly-dense"
	case 6:
		for i := range m {
			m[i] = i%2 == 0
		}
		return m, "alternating"
	case 7: // leading holes then dense
		k := r.intn(width)
		for i := k; i < width; i++ {
			m[i] = true
		}
		return m, "leading-holes"
	case 8: // dense then trailing holes
		k := r.intn(width) + 1
		for i := 0; i < k; i++ {
			m[i] = true
		}
		return m, "trailing-holes"
	case 9: // runs
		v := r.chance(1, 2)
		for i := range m {
			if r.chance(1, 7) {
				v = !v
			}
			m[i] = v
		}
		return m, "runs"
	case 10: // first and last only
		m[0] = true
		m[width-1] = true
		return m, "ends"
	default:
		fill(1+r.intn(7), 8)
		return m, "random"
	}
}

// genWindow picks start slot and width with start+width-1 <= 65534.
func (r *rng) genWindow(big bool) (start uint16, width int) {
	switch r.intn(20) {
	case 0:
		width = 0
	case 1, 2:
		width = 1 + r.intn(8)
	case 3, 4, 5, 6, 7:
		width = 1 + r.intn(64)
	case 8, 9, 10, 11, 12, 13:
		width = 1 + r.intn(400)
	case 14, 15:
		width = 1 + r.intn(3600)
	case 16:
		width = 1 + r.intn(8928)
	case 17: // around byte boundaries of the bit stream
		width = 8*(1+r.intn(40)) + r.intn(3) - 1
	default:
		width = 1 + r.intn(200)
	}
	if big && r.chance(1, 250) {
		switch r.intn(3) {
		case 0:
			width = 65535
		case 1:
			width = 65535 - r.intn(16)
		default:
			width = 20000 + r.intn(45000)
		}
	}
	maxStart := 65535 - width // start+width-1 <= 65534
	if width == 0 {
		maxStart = 65534
	}
	switch r.intn(6) {
	case 0:
		start = 0
	case 1:
		start = uint16(maxStart)
	case 2:
		if maxStart > 0 {
			start = uint16(r.intn(min(maxStart, 16) + 1))
		}
	default:
		start = uint16(r.intn(maxStart + 1))
	}
	return start, width
}

// ---------------------------------------------------------------------------------------------
// witness helpers

func maskString(m []bool) string {
	const limit = 512
	var sb strings.Builder
	for i, b := range m {
		if i == limit {
			fmt.Fprintf(&sb, "...(%d more)", len(m)-limit)
			break
		}
		if b {
			sb.WriteByte('1')
		} else {
			sb.WriteByte('0')
		}
	}
	return sb.String()
}

func hexValues(v []uint64) []string {
	const limit = 96
	out := make([]string, 0, min(len(v), limit)+1)
	for i, x := range v {
		if i == limit {
			out = append(out, fmt.Sprintf("...(%d more)", len(v)-limit))
			break
		}
		out = append(out, fmt.Sprintf("%016x", x))
	}
	return out
}

func hexBytes(b []byte) string {
	const limit = 256
	if len(b) > limit {
		return fmt.Sprintf("%x...(%d bytes)", b[:limit], len(b))
	}
	return fmt.Sprintf("%x", b)
}

func hash64(h uint64, v uint64) uint64 {
	return mix64(h ^ (v + 0x9e3779b97f4a7c15 + (h << 6) + (h >> 2)))
}
