package main

// family "reuse": differential oracle "reused decoder == fresh decoder".
//
// One decoder object per case lives through a history of inputs: normal ones (what the encoders produced) interleaved
// with empty, minimal (1..4 bytes), truncated, corrupted and random inputs. After every input the reused object must
// behave exactly like a brand-new object given the same input with the same calls: same sizes, offsets, blocks, values,
// errors and panics. Nothing is said about WHAT a decoder answers on an invalid input - only that it does not depend
// on what the object decoded before. The critical pattern (counted per codec): an input that is rejected early
// (empty / too short) right after a successful decode of a non-empty input.

import (
	"bytes"
	"fmt"

	"github.com/lindb/lindb/pkg/bit"
	"github.com/lindb/lindb/pkg/bufioutil"
	"github.com/lindb/lindb/pkg/compress"
	"github.com/lindb/lindb/pkg/encoding"
	"github.com/lindb/lindb/pkg/stream"
)

// obs is a list of labelled observations; the label names the kind of observation (no case specific numbers).
type obs struct {
	labels []string
	vals   []string
}

func (o *obs) add(label string, format string, args ...interface{}) {
	o.labels = append(o.labels, label)
	o.vals = append(o.vals, fmt.Sprintf(format, args...))
}

// guard runs fn and records a panic as an observation (invalid inputs may panic; a fresh object must then panic too).
func (o *obs) guard(fn func()) {
	defer func() {
		if p := recover(); p != nil {
			o.add("panic", "%v", p)
		}
	}()
	fn()
}

func errText(err error) string {
	if err == nil {
		return "<nil>"
	}
	return err.Error()
}

// firstDifference returns the index of the first observation that differs, or -1.
func firstDifference(a, b *obs) int {
	n := min(len(a.vals), len(b.vals))
	for i := 0; i < n; i++ {
		if a.labels[i] != b.labels[i] || a.vals[i] != b.vals[i] {
			return i
		}
	}
	if len(a.vals) != len(b.vals) {
		return n
	}
	return -1
}

func (o *obs) at(i int) (string, string) {
	if i < len(o.vals) {
		return o.labels[i], o.vals[i]
	}
	return "end", "<no further observation>"
}

type reuseStep struct {
	kind  string // valid | empty | short | truncated | corrupt | random | badwidth | hugesize
	input []byte
	note  string
}

// compareStep reports a difference between the reused and the fresh object. Returns false on violation.
func (ks *kase) compareStep(codec string, stepNo int, hist []reuseStep, reused, fresh *obs) bool {
	ks.k.count("reuse_steps", 1)
	ks.k.count("reuse_steps_"+codec, 1)
	st := hist[stepNo]
	if stepNo > 0 && hist[stepNo-1].kind == "valid" && (st.kind == "empty" || st.kind == "short") {
		ks.k.count("reuse_"+codec+"_rejected_input_right_after_valid", 1)
	}
	if stepNo > 0 && st.kind == "valid" && hist[stepNo-1].kind != "valid" {
		ks.k.count("reuse_"+codec+"_valid_right_after_invalid", 1)
	}
	for _, l := range fresh.labels {
		if l == "panic" {
			ks.k.count("reuse_inputs_where_a_fresh_object_panics", 1)
			break
		}
	}
	i := firstDifference(reused, fresh)
	if i < 0 {
		return true
	}
	rl, rv := reused.at(i)
	fl, fv := fresh.at(i)
	var kinds []string
	var inputs []string
	for j := 0; j <= stepNo; j++ {
		kinds = append(kinds, hist[j].kind)
		if j >= stepNo-2 {
			inputs = append(inputs, fmt.Sprintf("step %d (%s %s): %s", j, hist[j].kind, hist[j].note, hexBytes(hist[j].input)))
		}
	}
	prev := "first"
	if stepNo > 0 {
		prev = hist[stepNo-1].kind
	}
	label := rl
	if rl != fl {
		label = rl + "-vs-" + fl
	}
	msg := fmt.Sprintf("reused %s decoder differs from a new one on the same %s input (%d bytes, previous input %s): observation %d %s: reused %s, new %s",
		codec, st.kind, len(st.input), prev, i, label, rv, fv)
	wit := func() map[string]interface{} {
		return map[string]interface{}{"codec": codec, "history_kinds": kinds, "last_inputs": inputs, "step": stepNo,
			"reused_observation": rl + "=" + rv, "fresh_observation": fl + "=" + fv}
	}
	if codec == "tsd" && (st.kind == "empty" || st.kind == "short") {
		// TSDDecoder.Reset(data) with len(data) <= 4 only sets the error and returns: time range, cursor, buffer and bit
		// reader of the block decoded before stay in place, so reads keep answering from the previous block.
		// One class whatever is observed first and wherever it runs; the history goes on (the next accepted input
		// resets everything).
		const class = "C14/reuse-tsd-reset-short-data-keeps-previous-block"
		ks.k.count("reuse_tsd_reset_short_data_kept_previous_block", 1)
		if ks.k.seen(class) {
			ks.k.violation(class, "", ks.idx, nil)
		} else {
			ks.k.violation(class, msg, ks.idx, wit())
		}
		return true
	}
	ks.fail(fmt.Sprintf("%s-%s-input-%s", codec, st.kind, label), msg, wit())
	return false
}

// mangle derives an invalid input from a valid one.
func mangle(r *rng, valid []byte, minShort, maxShort int) reuseStep {
	switch r.intn(6) {
	case 0:
		return reuseStep{kind: "empty", input: nil}
	case 1:
		n := r.between(minShort, maxShort)
		if n > len(valid) {
			return reuseStep{kind: "short", input: r.bytes(n), note: "random"}
		}
		return reuseStep{kind: "short", input: append([]byte(nil), valid[:n]...), note: "prefix"}
	case 2:
		if len(valid) > maxShort+1 {
			n := r.between(maxShort+1, len(valid)-1)
			return reuseStep{kind: "truncated", input: append([]byte(nil), valid[:n]...)}
		}
		return reuseStep{kind: "empty", input: []byte{}}
	case 3:
		if len(valid) > 0 {
			c := append([]byte(nil), valid...)
			for k := 0; k < 1+r.intn(3); k++ {
				c[r.intn(len(c))] ^= byte(1 + r.intn(255))
			}
			return reuseStep{kind: "corrupt", input: c}
		}
		return reuseStep{kind: "empty", input: nil}
	case 4:
		return reuseStep{kind: "random", input: r.bytes(r.between(maxShort+1, maxShort+40))}
	default:
		return reuseStep{kind: "empty", input: []byte{}}
	}
}

// nextKindValid decides whether the next step is a normal input; histories start with one and keep alternating enough
// that "rejected right after valid" and "valid right after invalid" both happen many times.
func nextKindValid(r *rng, step int) bool {
	return step == 0 || r.chance(1, 2)
}

func caseReuse(ks *kase) {
	switch ks.idx % 7 {
	case 0:
		reuseFixedOffset(ks)
	case 1:
		reuseDelta(ks)
	case 2:
		reuseTSD(ks)
	case 3:
		reuseBitReader(ks)
	case 4:
		reuseXOR(ks)
	case 5:
		reuseSnappy(ks)
	default:
		reuseStream(ks)
	}
	ks.k.eval(1)
	ks.k.count("reuse_histories", 1)
	ks.k.nontrivial("reuse", ks.r.s)
}

// caseReusePooled is the part of the family that goes through the package pools (used by the concurrent family).
func caseReusePooled(ks *kase) {
	if (ks.idx/7)%2 == 0 {
		reuseFixedOffset(ks)
	} else {
		reuseTSD(ks)
	}
	ks.k.count("reuse_histories", 1)
}

// ---------------------------------------------------------------------------------------------

func observeFixedOffset(d *encoding.FixedOffsetDecoder, in, block []byte) *obs {
	o := &obs{}
	o.guard(func() {
		left, err := d.Unmarshal(in)
		o.add("unmarshal-error", "%s", errText(err))
		o.add("unmarshal-left", "%d", len(left))
		o.add("size", "%d", d.Size())
		o.add("width", "%d", d.ValueWidth())
		for i := -1; i <= 24; i++ {
			v, ok := d.Get(i)
			o.add("get", "Get(%d)=(%d,%v)", i, v, ok)
		}
		for i := 0; i <= 8; i++ {
			b, err := d.GetBlock(i, block)
			if err != nil {
				o.add("getblock", "GetBlock(%d) error", i)
			} else {
				o.add("getblock", "GetBlock(%d)=%d bytes %x", i, len(b), b[:min(len(b), 8)])
			}
		}
	})
	return o
}

func reuseFixedOffset(ks *kase) {
	r := ks.r
	d := encoding.NewFixedOffsetDecoder()
	pooled := r.chance(1, 2)
	if pooled {
		d = encoding.GetFixedOffsetDecoder()
	}
	block := r.bytes(96)
	var hist []reuseStep
	steps := r.between(4, 14)
	for s := 0; s < steps; s++ {
		// a normal table (small offsets, so that GetBlock slices real bytes), marshalled by the real encoder
		n := 1 + r.intn(20)
		vals := make([]int, n)
		lim := []int{90, 90, 300, 70000, 1 << 24, 1 << 32}[r.intn(6)]
		for i := range vals {
			vals[i] = r.intn(lim)
		}
		sortInts(vals)
		enc := encoding.NewFixedOffsetEncoder(true)
		for _, v := range vals {
			enc.Add(v)
		}
		valid := append(enc.MarshalBinary(), r.bytes(r.intn(4))...)
		var st reuseStep
		switch {
		case nextKindValid(r, s):
			st = reuseStep{kind: "valid", input: valid, note: fmt.Sprintf("%d offsets", n)}
		case r.chance(1, 3):
			// the empty offset list as the real encoder writes it: zero bytes
			st = reuseStep{kind: "empty", input: encoding.NewFixedOffsetEncoder(true).MarshalBinary(), note: "empty list"}
		case r.chance(1, 5):
			c := append([]byte(nil), valid...)
			c[0] = byte(5 + r.intn(250))
			st = reuseStep{kind: "badwidth", input: c}
		case r.chance(1, 5):
			st = reuseStep{kind: "hugesize", input: []byte{byte(1 + r.intn(4)), 0xff, 0xff, 0xff, 0xff, 0xff, 0xff, 0xff, 0xff, 0x7f, 1, 2}}
		default:
			st = mangle(r, valid, 1, 1)
		}
		hist = append(hist, st)
		if pooled && r.chance(1, 2) {
			encoding.ReleaseFixedOffsetDecoder(d)
			d = encoding.GetFixedOffsetDecoder()
			ks.k.count("reuse_fixedoffset_through_pool", 1)
		}
		reused := observeFixedOffset(d, st.input, block)
		fresh := observeFixedOffset(encoding.NewFixedOffsetDecoder(), st.input, block)
		if !ks.compareStep("fixedoffset", s, hist, reused, fresh) {
			return
		}
	}
	if pooled {
		encoding.ReleaseFixedOffsetDecoder(d)
	}
}

// ---------------------------------------------------------------------------------------------

func observeDelta(get func() *encoding.DeltaBitPackingDecoder) *obs {
	o := &obs{}
	o.guard(func() {
		d := get()
		for i := 0; i < 80; i++ {
			has := d.HasNext()
			o.add("has-next", "%v", has)
			if !has {
				break
			}
			o.add("value", "%d", d.Next())
		}
	})
	return o
}

func reuseDelta(ks *kase) {
	r := ks.r
	enc := encoding.NewDeltaBitPackingEncoder()
	enc.Reset()
	enc.Add(1)
	d := encoding.NewDeltaBitPackingDecoder(append([]byte(nil), enc.Bytes()...))
	var hist []reuseStep
	steps := r.between(4, 14)
	for s := 0; s < steps; s++ {
		vals, _ := genInt32s(r)
		if len(vals) > 60 {
			vals = vals[:60]
		}
		enc.Reset()
		for _, v := range vals {
			enc.Add(v)
		}
		valid := append([]byte(nil), enc.Bytes()...)
		st := reuseStep{kind: "valid", input: valid, note: fmt.Sprintf("%d values", len(vals))}
		if !nextKindValid(r, s) {
			st = mangle(r, valid, 1, 3)
		}
		hist = append(hist, st)
		// leave the reused decoder somewhere in the middle of its previous input
		for i := r.intn(5); i > 0 && d.HasNext(); i-- {
			_ = d.Next()
		}
		reused := observeDelta(func() *encoding.DeltaBitPackingDecoder { d.Reset(st.input); return d })
		fresh := observeDelta(func() *encoding.DeltaBitPackingDecoder { return encoding.NewDeltaBitPackingDecoder(st.input) })
		if !ks.compareStep("delta", s, hist, reused, fresh) {
			return
		}
	}
}

// ---------------------------------------------------------------------------------------------

// observeTSD resets d the same way for both objects and then reads; mode 0 sequential, 1 slot addressed.
func observeTSD(d *encoding.TSDDecoder, in []byte, withRange bool, start, end uint16, mode int) *obs {
	o := &obs{}
	o.guard(func() {
		if withRange {
			d.ResetWithTimeRange(in, start, end)
		} else {
			d.Reset(in)
		}
		o.add("error-after-reset", "%s", errText(d.Error()))
		if mode == 0 {
			for i := 0; i < 150; i++ {
				nx := d.Next()
				o.add("next", "%v", nx)
				if !nx {
					break
				}
				has := d.HasValue()
				o.add("has-value", "%v", has)
				if has {
					o.add("value", "slot %d = %016x", d.Slot(), d.Value())
				}
			}
		} else {
			s0 := d.StartTime()
			for i := 0; i < 150; i++ {
				s := s0 + uint16(i)
				if i > 0 && s == s0 {
					break
				}
				if d.HasValueWithSlot(s) {
					o.add("slot-value", "slot %d = %016x", s, d.Value())
				} else {
					o.add("slot-value", "slot %d none", s)
				}
			}
		}
		o.add("time-range", "[%d,%d]", d.StartTime(), d.EndTime())
		o.add("error-after-reads", "%s", errText(d.Error()))
	})
	return o
}

func reuseTSD(ks *kase) {
	r := ks.r
	d := encoding.NewTSDDecoder(nil)
	pooled := r.chance(1, 2)
	if pooled {
		d = ks.getDec()
	}
	var hist []reuseStep
	steps := r.between(4, 14)
	for s := 0; s < steps; s++ {
		b := genBlock(r, false)
		for b.width() == 0 || b.width() > 120 {
			b = genBlock(r, false)
		}
		valid, _ := refEncode(b)
		withRange := r.chance(1, 3)
		st := reuseStep{kind: "valid", input: valid, note: b.desc}
		if !nextKindValid(r, s) {
			st = mangle(r, valid, 1, 4)
		}
		in := st.input
		start, end := b.start, b.end()
		if withRange {
			st.note += " ResetWithTimeRange"
			if st.kind == "valid" {
				in = valid[4:]
			}
			if st.kind == "short" {
				st.kind = "truncated" // ResetWithTimeRange has no minimum length: a short input is just a truncated stream
			}
		}
		hist = append(hist, st)
		if pooled && r.chance(1, 2) {
			encoding.ReleaseTSDDecoder(d)
			d = ks.getDec()
			ks.k.count("reuse_tsd_through_pool", 1)
		}
		mode := r.intn(2)
		reused := observeTSD(d, in, withRange, start, end, mode)
		fresh := observeTSD(encoding.NewTSDDecoder(nil), in, withRange, start, end, mode)
		if !ks.compareStep("tsd", s, hist, reused, fresh) {
			return
		}
	}
	if pooled {
		encoding.ReleaseTSDDecoder(d)
	}
}

// ---------------------------------------------------------------------------------------------

type bitOp struct{ kind, n int }

func observeBits(br *bit.Reader, ops []bitOp) *obs {
	o := &obs{}
	o.guard(func() {
		for _, op := range ops {
			switch op.kind {
			case 0:
				b, err := br.ReadBit()
				o.add("read-bit", "(%v,%s)", b, errText(err))
			case 1:
				b, err := br.ReadByte()
				o.add("read-byte", "(%02x,%s)", b, errText(err))
			default:
				u, err := br.ReadBits(op.n)
				o.add("read-bits", "ReadBits(%d)=(%x,%s)", op.n, u, errText(err))
			}
		}
	})
	return o
}

func reuseBitReader(ks *kase) {
	r := ks.r
	buf := bufioutil.NewBuffer(nil)
	br := bit.NewReader(buf)
	var hist []reuseStep
	steps := r.between(4, 14)
	for s := 0; s < steps; s++ {
		valid := r.bytes(r.between(6, 40))
		st := reuseStep{kind: "valid", input: valid}
		if !nextKindValid(r, s) {
			st = mangle(r, valid, 1, 2)
			if st.kind == "corrupt" || st.kind == "random" {
				st.kind = "valid" // any byte string is a valid bit stream
			}
		}
		hist = append(hist, st)
		ops := make([]bitOp, r.between(3, 30))
		for i := range ops {
			ops[i] = bitOp{r.intn(3), r.intn(65)}
		}
		buf.SetBuf(st.input)
		br.Reset()
		reused := observeBits(br, ops)
		fresh := observeBits(bit.NewReader(bufioutil.NewBuffer(st.input)), ops)
		if !ks.compareStep("bitreader", s, hist, reused, fresh) {
			return
		}
	}
}

// ---------------------------------------------------------------------------------------------

func observeXOR(d *encoding.XORDecoder, n int) *obs {
	o := &obs{}
	o.guard(func() {
		for i := 0; i < n; i++ {
			nx := d.Next()
			o.add("next", "%v", nx)
			if !nx {
				break
			}
			o.add("value", "%016x", d.Value())
		}
	})
	return o
}

func reuseXOR(ks *kase) {
	r := ks.r
	buf := bufioutil.NewBuffer(nil)
	br := bit.NewReader(buf)
	d := encoding.NewXORDecoder(br)
	var hist []reuseStep
	steps := r.between(4, 14)
	for s := 0; s < steps; s++ {
		vals, _ := r.genValues(r.between(1, 40))
		var wb bytes.Buffer
		bw := bit.NewWriter(&wb)
		enc := encoding.NewXOREncoder(bw)
		for _, v := range vals {
			_ = enc.Write(v)
		}
		_ = bw.Flush()
		valid := append([]byte(nil), wb.Bytes()...)
		st := reuseStep{kind: "valid", input: valid, note: fmt.Sprintf("%d values", len(vals))}
		if !nextKindValid(r, s) {
			st = mangle(r, valid, 1, 7)
		}
		hist = append(hist, st)
		n := len(vals) + r.intn(4)
		buf.SetBuf(st.input)
		br.Reset()
		d.Reset()
		reused := observeXOR(d, n)
		fresh := observeXOR(encoding.NewXORDecoder(bit.NewReader(bufioutil.NewBuffer(st.input))), n)
		if !ks.compareStep("xor", s, hist, reused, fresh) {
			return
		}
	}
}

// ---------------------------------------------------------------------------------------------

func observeSnappy(rd compress.Reader, in []byte) *obs {
	o := &obs{}
	o.guard(func() {
		out, err := rd.Uncompress(in)
		o.add("uncompress-error", "%s", errText(err))
		h := uint64(len(out))
		for _, b := range out {
			h = hash64(h, uint64(b))
		}
		o.add("payload", "%d bytes hash %016x", len(out), h)
	})
	return o
}

func reuseSnappy(ks *kase) {
	r := ks.r
	rd := compress.NewSnappyReader()
	var hist []reuseStep
	steps := r.between(3, 8)
	for s := 0; s < steps; s++ {
		payload, desc := genPayload(r, 150_000)
		w := compress.NewSnappyWriter()
		_, _ = w.Write(payload)
		_ = w.Close()
		valid := w.Bytes()
		_ = w.Close() // Bytes() re-arms the writer (a goroutine of the s2 stream writer): release it, the writer is dropped here
		st := reuseStep{kind: "valid", input: valid, note: desc}
		if !nextKindValid(r, s) {
			st = mangle(r, valid, 1, 9)
		}
		hist = append(hist, st)
		reused := observeSnappy(rd, st.input)
		fresh := observeSnappy(compress.NewSnappyReader(), st.input)
		if !ks.compareStep("snappy", s, hist, reused, fresh) {
			return
		}
		if len(hist[s].input) > 4096 { // keep witnesses small
			hist[s].input = hist[s].input[:4096]
		}
	}
}

// ---------------------------------------------------------------------------------------------

func observeStream(rd *stream.Reader, kinds []int, sizes []int) *obs {
	o := &obs{}
	o.guard(func() {
		for i, k := range kinds {
			switch k {
			case opByte:
				o.add("read", "byte %d", rd.ReadByte())
			case opBytesSlice:
				o.add("read", "slice(%d) %x", sizes[i], rd.ReadSlice(sizes[i]))
			case opBytesCopy:
				o.add("read", "bytes(%d) %x", sizes[i], rd.ReadBytes(sizes[i]))
			case opVarint32:
				o.add("read", "varint32 %d", rd.ReadVarint32())
			case opVarint64:
				o.add("read", "varint64 %d", rd.ReadVarint64())
			case opUvarint32:
				o.add("read", "uvarint32 %d", rd.ReadUvarint32())
			case opUvarint64:
				o.add("read", "uvarint64 %d", rd.ReadUvarint64())
			case opUint16:
				o.add("read", "uint16 %d", rd.ReadUint16())
			case opInt16:
				o.add("read", "int16 %d", rd.ReadInt16())
			case opUint32:
				o.add("read", "uint32 %d", rd.ReadUint32())
			case opInt32:
				o.add("read", "int32 %d", rd.ReadInt32())
			case opUint64:
				o.add("read", "uint64 %d", rd.ReadUint64())
			case opInt64:
				o.add("read", "int64 %d", rd.ReadInt64())
			default:
				o.add("read", "until %x", rd.ReadUntil(byte(sizes[i])))
			}
			o.add("reader-error", "%s", errText(rd.Error()))
			o.add("position", "%d empty=%v", rd.Position(), rd.Empty())
		}
		o.add("unread", "%d", len(rd.UnreadSlice()))
	})
	return o
}

func reuseStream(ks *kase) {
	r := ks.r
	rd := stream.NewReader(nil)
	var hist []reuseStep
	steps := r.between(4, 14)
	for s := 0; s < steps; s++ {
		nOps := r.between(2, 14)
		kinds := make([]int, nOps)
		sizes := make([]int, nOps)
		w := stream.NewBufferWriter(nil)
		for i := range kinds {
			kinds[i] = r.intn(opKinds)
			sizes[i] = r.intn(12)
			u := r.intClass()
			switch kinds[i] {
			case opByte:
				w.PutByte(byte(u))
			case opBytesSlice, opBytesCopy:
				w.PutBytes(r.bytes(sizes[i]))
			case opVarint32:
				w.PutVarint32(int32(u))
			case opVarint64:
				w.PutVarint64(int64(u))
			case opUvarint32:
				w.PutUvarint32(uint32(u))
			case opUvarint64:
				w.PutUvarint64(u)
			case opUint16, opInt16:
				w.PutUInt16(uint16(u))
			case opUint32, opInt32:
				w.PutUint32(uint32(u))
			case opUint64, opInt64:
				w.PutUint64(u)
			default:
				w.PutBytes(r.bytes(r.intn(6)))
				w.PutByte(byte(sizes[i]))
			}
		}
		raw, _ := w.Bytes()
		valid := append([]byte(nil), raw...)
		st := reuseStep{kind: "valid", input: valid, note: fmt.Sprintf("%d ops", nOps)}
		if !nextKindValid(r, s) {
			st = mangle(r, valid, 1, 2)
		}
		hist = append(hist, st)
		rd.Reset(st.input)
		reused := observeStream(rd, kinds, sizes)
		fresh := observeStream(stream.NewReader(st.input), kinds, sizes)
		if !ks.compareStep("stream", s, hist, reused, fresh) {
			return
		}
	}
}
