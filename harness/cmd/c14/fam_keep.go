package main

// family "keep": what an encoder / marshal function handed to its caller must not be changed by later calls.
//
// A case produces results 0..n with one kind of producer, KEEPS every returned slice itself (not a copy; a private
// copy is taken only for the comparison) and after every further production requires of every kept result: bytes
// unchanged; at the end: still decodes to its own input. Later productions use other objects (new ones and ones from
// the package pools) and, where the API returns a result of its own, also the same object again.
//
// What lindb's API promises, and what this family therefore does with the SAME object:
//   - encoding.BitmapMarshal, FixedOffsetEncoder.MarshalBinary, compress.Writer.Bytes return a slice of their own
//     (roaring MarshalBinary, a new bytes.Buffer, an explicit copy): the same function/object is called again while
//     earlier results are kept.
//   - TSDEncoder.Bytes/BytesWithoutTime, DeltaBitPackingEncoder.Bytes, stream.BufferWriter.Bytes and
//     TSDStreamWriter.Bytes return the object's internal buffer: the result is only good until the next call on that
//     object (lindb's callers copy or write it out at once, e.g. memdb MustCopy, flusher.FlushField). Respected:
//     the producing object is left untouched (and is not given back to its pool) while its result is kept; only
//     OTHER objects of the same type work in between.
//   - XOREncoder / bit.Writer / stream.SliceWriter / BufferWriter.SwitchBuffer write into a buffer the caller owns:
//     the encoder object is re-targeted to a new buffer and used again, the earlier buffer must stay as it was.

import (
	"bytes"
	"fmt"

	"github.com/lindb/roaring"

	"github.com/lindb/lindb/pkg/bit"
	"github.com/lindb/lindb/pkg/bufioutil"
	"github.com/lindb/lindb/pkg/compress"
	"github.com/lindb/lindb/pkg/encoding"
	"github.com/lindb/lindb/pkg/stream"
)

type keptResult struct {
	producer string
	no       int
	data     []byte        // the slice as returned (or the caller-owned buffer's bytes)
	snapshot []byte        // private copy taken when it was returned
	decode   func() string // "" when data still decodes to the input, else what differs
	release  func()        // gives the producing object back (after the checks)
	note     string
}

type keeper struct {
	ks   *kase
	kept []*keptResult
}

func (kp *keeper) keep(producer string, data []byte, note string, decode func() string, release func()) {
	kp.kept = append(kp.kept, &keptResult{producer: producer, no: len(kp.kept), data: data,
		snapshot: append([]byte(nil), data...), decode: decode, release: release, note: note})
	kp.ks.k.count("keep_results_kept_"+producer, 1)
}

// checkBytes compares every kept result with its snapshot. Returns false on violation.
func (kp *keeper) checkBytes(after string) bool {
	for _, r := range kp.kept {
		if !bytes.Equal(r.data, r.snapshot) {
			kp.ks.fail(r.producer+"-earlier-result-changed", fmt.Sprintf(
				"result %d of %s (%d bytes, %s) was changed by a later call (%s; %d results produced so far): first difference at byte %d",
				r.no, r.producer, len(r.snapshot), r.note, after, len(kp.kept), firstDiff(r.data, r.snapshot)),
				map[string]interface{}{"producer": r.producer, "result_no": r.no, "results_so_far": len(kp.kept), "later_call": after,
					"bytes_when_returned_hex": hexBytes(r.snapshot), "bytes_now_hex": hexBytes(r.data)})
			return false
		}
		kp.ks.k.count("keep_earlier_results_compared", 1)
	}
	return true
}

// finish checks bytes and decoding of every kept result, then releases the producing objects.
func (kp *keeper) finish() bool {
	ok := kp.checkBytes("end of history")
	if ok {
		for _, r := range kp.kept {
			if r.decode == nil {
				continue
			}
			if diff := r.decode(); diff != "" {
				kp.ks.fail(r.producer+"-earlier-result-decodes-differently", fmt.Sprintf(
					"result %d of %s (%s) no longer decodes to its input after %d later results: %s", r.no, r.producer, r.note, len(kp.kept)-r.no-1, diff),
					map[string]interface{}{"producer": r.producer, "result_no": r.no, "bytes_hex": hexBytes(r.data)})
				ok = false
				break
			}
			kp.ks.k.count("keep_earlier_results_decoded_"+r.producer, 1)
		}
	}
	for _, r := range kp.kept {
		if r.release != nil {
			r.release()
		}
	}
	return ok
}

func caseKeep(ks *kase) {
	kinds := []func(*kase){keepBitmap, keepFixedOffset, keepDelta, keepTSD, keepXOR, keepStream, keepSnappy}
	kinds[ks.idx%len(kinds)](ks)
	ks.k.eval(1)
	ks.k.count("keep_histories", 1)
	ks.k.nontrivial("keep", ks.r.s)
}

// caseKeepShared: the producers that go through package level state (pools), for the concurrent family.
func caseKeepShared(ks *kase) {
	kinds := []func(*kase){keepBitmap, keepTSD, keepFixedOffset}
	kinds[(ks.idx/7)%len(kinds)](ks)
	ks.k.count("keep_histories", 1)
}

// ---------------------------------------------------------------------------------------------

func smallBitmap(r *rng) *roaring.Bitmap {
	bm := roaring.New()
	parts := 1 + r.intn(3)
	for p := 0; p < parts; p++ {
		base := uint32(r.intn(1<<16)) << 16
		switch r.intn(4) {
		case 0:
			for i, n := 0, 1+r.intn(300); i < n; i++ {
				bm.Add(base | uint32(r.intn(1<<16)))
			}
		case 1:
			for i, n := 0, 4500+r.intn(3000); i < n; i++ {
				bm.Add(base | uint32(r.intn(1<<16)))
			}
		case 2:
			s := uint64(base) + uint64(r.intn(1<<15))
			bm.AddRange(s, s+uint64(1+r.intn(20000)))
		default:
			bm.Add(base)
			bm.Add(base | 0xFFFF)
		}
	}
	if r.chance(1, 2) {
		bm.RunOptimize()
	}
	return bm
}

func sameU32(a, b []uint32) string {
	if len(a) != len(b) {
		return fmt.Sprintf("%d values, input had %d", len(a), len(b))
	}
	for i := range a {
		if a[i] != b[i] {
			return fmt.Sprintf("value %d is %d, input had %d", i, a[i], b[i])
		}
	}
	return ""
}

func keepBitmap(ks *kase) {
	r := ks.r
	kp := &keeper{ks: ks}
	n := r.between(3, 9)
	for i := 0; i < n; i++ {
		bm := smallBitmap(r)
		want := bm.ToArray()
		data, err := encoding.BitmapMarshal(bm)
		if err != nil {
			ks.fail("bitmap-marshal-error", err.Error(), nil)
			return
		}
		// a bitmap decoded (zero-copy) right away from the result must keep its content as well
		early := roaring.New()
		if _, err := encoding.BitmapUnmarshal(early, data); err != nil {
			ks.fail("bitmap-unmarshal-error", err.Error(), nil)
			return
		}
		d := data
		kp.keep("bitmap", data, fmt.Sprintf("%d values", len(want)), func() string {
			if diff := sameU32(early.ToArray(), want); diff != "" {
				return "bitmap decoded right after the marshal now has " + diff
			}
			late := roaring.New()
			if _, err := encoding.BitmapUnmarshal(late, d); err != nil {
				return "unmarshal error: " + err.Error()
			}
			return sameU32(late.ToArray(), want)
		}, nil)
		if !kp.checkBytes("BitmapMarshal of another bitmap") {
			return
		}
	}
	kp.finish()
}

func keepFixedOffset(ks *kase) {
	r := ks.r
	kp := &keeper{ks: ks}
	enc := encoding.NewFixedOffsetEncoder(true)
	n := r.between(3, 9)
	for i := 0; i < n; i++ {
		e := enc
		if r.chance(1, 3) {
			e = encoding.NewFixedOffsetEncoder(true)
		} else {
			e.Reset() // MarshalBinary returns a buffer of its own: the same encoder goes on while earlier results are kept
		}
		vals := make([]int, 1+r.intn(60))
		lim := []int{200, 70000, 1 << 24, 1 << 32}[r.intn(4)]
		for j := range vals {
			vals[j] = r.intn(lim)
		}
		sortInts(vals)
		for _, v := range vals {
			e.Add(v)
		}
		data := e.MarshalBinary()
		kp.keep("fixedoffset", data, fmt.Sprintf("%d offsets", len(vals)), func() string {
			dec := encoding.NewFixedOffsetDecoder()
			if _, err := dec.Unmarshal(data); err != nil {
				return "unmarshal error: " + err.Error()
			}
			if dec.Size() != len(vals) {
				return fmt.Sprintf("size %d, input had %d", dec.Size(), len(vals))
			}
			for j, v := range vals {
				if got, ok := dec.Get(j); !ok || got != v {
					return fmt.Sprintf("offset %d is (%d,%v), input had %d", j, got, ok, v)
				}
			}
			return ""
		}, nil)
		if !kp.checkBytes("MarshalBinary of another offset list") {
			return
		}
	}
	kp.finish()
}

func keepDelta(ks *kase) {
	r := ks.r
	kp := &keeper{ks: ks}
	busy := encoding.NewDeltaBitPackingEncoder() // works in between, its results are not kept
	n := r.between(3, 9)
	for i := 0; i < n; i++ {
		vals, _ := genInt32s(r)
		if len(vals) > 80 {
			vals = vals[:80]
		}
		e := encoding.NewDeltaBitPackingEncoder()
		e.Reset()
		for _, v := range vals {
			e.Add(v)
		}
		data := e.Bytes() // internal buffer of e: e is not touched again
		kp.keep("delta", data, fmt.Sprintf("%d values", len(vals)), func() string {
			dec := encoding.NewDeltaBitPackingDecoder(data)
			for j, v := range vals {
				if !dec.HasNext() {
					return fmt.Sprintf("ends after %d of %d values", j, len(vals))
				}
				if got := dec.Next(); got != v {
					return fmt.Sprintf("value %d is %d, input had %d", j, got, v)
				}
			}
			return ""
		}, nil)
		other, _ := genInt32s(r)
		busy.Reset()
		for _, v := range other {
			busy.Add(v)
		}
		_ = busy.Bytes()
		if !kp.checkBytes("Bytes of other delta encoders") {
			return
		}
	}
	kp.finish()
}

func keepTSD(ks *kase) {
	r := ks.r
	kp := &keeper{ks: ks}
	n := r.between(3, 8)
	for i := 0; i < n; i++ {
		b := genBlock(r, false)
		for b.width() == 0 || b.width() > 200 {
			b = genBlock(r, false)
		}
		e := ks.getEnc(b.start)
		encodeInto(e, b, 0, b.width(), false)
		withTime := r.chance(1, 2)
		var data []byte
		var err error
		if withTime {
			data, err = e.Bytes()
		} else {
			data, err = e.BytesWithoutTime()
		}
		if err != nil {
			ks.fail("tsd-encode-error", err.Error(), b.witness())
			return
		}
		// e stays out of the pool and untouched while its result is kept
		kp.keep("tsd", data, b.desc, func() string {
			d := encoding.NewTSDDecoder(nil)
			if withTime {
				d.Reset(data)
			} else {
				d.ResetWithTimeRange(data, b.start, b.end())
			}
			for j := 0; j < b.width(); j++ {
				has := d.HasValueWithSlot(b.start + uint16(j))
				if has != b.mask[j] {
					return fmt.Sprintf("slot %d has=%v, input had %v", int(b.start)+j, has, b.mask[j])
				}
				if has {
					if v := d.Value(); v != b.vals[j] {
						return fmt.Sprintf("slot %d is %016x, input had %016x", int(b.start)+j, v, b.vals[j])
					}
				}
			}
			return ""
		}, func() { encoding.ReleaseTSDEncoder(e) })
		// pool churn by other users: full blocks, dirty releases
		for c := r.intn(4); c > 0; c-- {
			ob := genBlock(r, false)
			oe := ks.getEnc(ob.start)
			encodeInto(oe, ob, 0, ob.width()/(1+r.intn(2)), false)
			if r.chance(2, 3) {
				_, _ = oe.Bytes()
			}
			encoding.ReleaseTSDEncoder(oe)
		}
		if !kp.checkBytes("other TSD encoders taken from and given back to the pool") {
			return
		}
	}
	kp.finish()
}

func keepXOR(ks *kase) {
	r := ks.r
	kp := &keeper{ks: ks}
	bw := bit.NewWriter(&bytes.Buffer{})
	enc := encoding.NewXOREncoder(bw)
	n := r.between(3, 9)
	for i := 0; i < n; i++ {
		vals, _ := r.genValues(r.between(1, 60))
		buf := &bytes.Buffer{} // caller-owned; the same writer and encoder objects are re-targeted to it
		bw.Reset(buf)
		enc.Reset()
		for _, v := range vals {
			_ = enc.Write(v)
		}
		_ = bw.Flush()
		data := buf.Bytes()
		kp.keep("xor", data, fmt.Sprintf("%d values", len(vals)), func() string {
			dec := encoding.NewXORDecoder(bit.NewReader(bufioutil.NewBuffer(data)))
			for j, v := range vals {
				if !dec.Next() {
					return fmt.Sprintf("ends after %d of %d values", j, len(vals))
				}
				if got := dec.Value(); got != v {
					return fmt.Sprintf("value %d is %016x, input had %016x", j, got, v)
				}
			}
			return ""
		}, nil)
		if !kp.checkBytes("the XOR encoder and bit writer re-targeted to another buffer") {
			return
		}
	}
	kp.finish()
}

func keepStream(ks *kase) {
	r := ks.r
	kp := &keeper{ks: ks}
	switcher := stream.NewBufferWriter(nil) // one writer object switched from buffer to buffer
	n := r.between(3, 9)
	for i := 0; i < n; i++ {
		vals := make([]uint64, 1+r.intn(20))
		for j := range vals {
			vals[j] = r.intClass()
		}
		payload := r.bytes(r.intn(40))
		var w *stream.BufferWriter
		var data []byte
		how := r.intn(4)
		switch how {
		case 0: // a writer of its own, left untouched afterwards
			w = stream.NewBufferWriter(nil)
		case 1: // the shared writer object on a new caller-owned buffer
			switcher.SwitchBuffer(&bytes.Buffer{})
			w = switcher
		case 2: // slice writer on a caller-owned slice
			sl := make([]byte, 10*len(vals)+len(payload)+16)
			sw := stream.NewSliceWriter(sl)
			for _, v := range vals {
				sw.PutUvarint64(v)
			}
			sw.PutBytes(payload)
			data, _ = sw.Bytes()
		default: // multi-field TSD stream writer, left untouched afterwards
			tw := encoding.NewTSDStreamWriter(uint16(vals[0]), uint16(vals[0])+3)
			tw.WriteField(uint16(len(vals)), payload)
			tw.WriteField(7, payload)
			data, _ = tw.Bytes()
		}
		if w != nil {
			for _, v := range vals {
				w.PutUvarint64(v)
			}
			w.PutBytes(payload)
			data, _ = w.Bytes()
		}
		kp.keep("stream", data, fmt.Sprintf("writer kind %d, %d values", how, len(vals)), func() string {
			rd := stream.NewReader(data)
			if how == 3 {
				if s := rd.ReadUint16(); s != uint16(vals[0]) {
					return fmt.Sprintf("start %d, input had %d", s, uint16(vals[0]))
				}
				_ = rd.ReadUint16()
				if id := rd.ReadUint16(); id != uint16(len(vals)) {
					return fmt.Sprintf("field id %d, input had %d", id, len(vals))
				}
				if got := rd.ReadSlice(int(rd.ReadUvarint32())); !bytes.Equal(got, payload) {
					return "first field payload differs"
				}
				return ""
			}
			for j, v := range vals {
				if got := rd.ReadUvarint64(); got != v {
					return fmt.Sprintf("value %d is %d, input had %d", j, got, v)
				}
			}
			if got := rd.ReadSlice(len(payload)); !bytes.Equal(got, payload) {
				return "payload differs"
			}
			return ""
		}, nil)
		if !kp.checkBytes("other stream writers / the writer switched to another buffer") {
			return
		}
	}
	kp.finish()
}

func keepSnappy(ks *kase) {
	r := ks.r
	kp := &keeper{ks: ks}
	shared := compress.NewSnappyWriter()
	writers := []compress.Writer{shared}
	defer func() { // Bytes() re-arms a writer: release their goroutines when the case ends
		for _, w := range writers {
			_ = w.Close()
		}
	}()
	n := r.between(3, 6)
	for i := 0; i < n; i++ {
		payload, desc := genPayload(r, 120_000)
		w := shared // Bytes() copies: the same writer goes on while earlier chunks are kept
		if r.chance(1, 3) {
			w = compress.NewSnappyWriter()
			writers = append(writers, w)
		}
		_, _ = w.Write(payload)
		if err := w.Close(); err != nil {
			ks.fail("snappy-close-error", err.Error(), nil)
			return
		}
		data := w.Bytes()
		kp.keep("snappy", data, desc, func() string {
			got, err := compress.NewSnappyReader().Uncompress(data)
			if err != nil {
				return "uncompress error: " + err.Error()
			}
			if !bytes.Equal(got, payload) {
				return fmt.Sprintf("payload differs at byte %d", firstDiff(got, payload))
			}
			return ""
		}, nil)
		if !kp.checkBytes("later chunks of the same and other snappy writers") {
			return
		}
	}
	kp.finish()
}
