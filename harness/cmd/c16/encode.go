package main

// Wire encoders for the three ingestion formats, written against the raw wire libraries so that hostile
// shapes (unsorted / duplicated / empty tags, NaN, missing name, bogus hashes) can be produced. lindb's own
// client side builder (common RowBuilder) would refuse or repair most of them.

import (
	"bytes"
	"compress/gzip"
	"io"
	"net/http"
	"net/url"
	"strconv"
	"strings"

	flatbuffers "github.com/google/flatbuffers/go"
	"github.com/lindb/common/proto/gen/v1/flatMetricsV1"
	protoMetricsV1 "github.com/lindb/common/proto/gen/v1/linmetrics"
)

// ---- protobuf ----------------------------------------------------------------------------------

func toProto(m *Metric) *protoMetricsV1.Metric {
	pm := &protoMetricsV1.Metric{
		Namespace: m.NS,
		Name:      m.Name,
		Timestamp: m.TS,
		TagsHash:  0xDEADBEEF00000000 | uint64(m.UID&0xffff), // must be ignored by the converter
	}
	for i, t := range m.Tags {
		if i == m.NilTag {
			pm.Tags = append(pm.Tags, nil)
		}
		pm.Tags = append(pm.Tags, &protoMetricsV1.KeyValue{Key: t.K, Value: t.V})
	}
	if m.NilTag >= len(m.Tags) {
		pm.Tags = append(pm.Tags, nil)
	}
	for i, f := range m.Fields {
		if i == m.NilField {
			pm.SimpleFields = append(pm.SimpleFields, nil)
		}
		pm.SimpleFields = append(pm.SimpleFields, &protoMetricsV1.SimpleField{
			Name: f.Name, Type: protoMetricsV1.SimpleFieldType(f.Type), Value: f.Value,
		})
	}
	if m.NilField >= len(m.Fields) {
		pm.SimpleFields = append(pm.SimpleFields, nil)
	}
	if c := m.Compound; c != nil {
		pm.CompoundField = &protoMetricsV1.CompoundField{
			Min: c.Min, Max: c.Max, Sum: c.Sum, Count: c.Count,
			Values:         append([]float64(nil), c.Values...),
			ExplicitBounds: append([]float64(nil), c.Bounds...),
		}
	}
	return pm
}

func encodeProtoList(ms []*Metric) ([]byte, error) {
	var l protoMetricsV1.MetricList
	for _, m := range ms {
		l.Metrics = append(l.Metrics, toProto(m))
	}
	return l.Marshal()
}

// ---- flat ---------------------------------------------------------------------------------------

// encodeFlat builds one size prefixed flat row exactly as given (no sorting, no de-duplication, no validation).
func encodeFlat(b *flatbuffers.Builder, m *Metric) []byte {
	b.Reset()
	keys := make([]flatbuffers.UOffsetT, len(m.Tags))
	vals := make([]flatbuffers.UOffsetT, len(m.Tags))
	for i, t := range m.Tags {
		keys[i] = b.CreateString(t.K)
		vals[i] = b.CreateString(t.V)
	}
	kvs := make([]flatbuffers.UOffsetT, len(m.Tags))
	for i := range m.Tags {
		flatMetricsV1.KeyValueStart(b)
		flatMetricsV1.KeyValueAddKey(b, keys[i])
		flatMetricsV1.KeyValueAddValue(b, vals[i])
		kvs[i] = flatMetricsV1.KeyValueEnd(b)
	}
	names := make([]flatbuffers.UOffsetT, len(m.Fields))
	for i, f := range m.Fields {
		names[i] = b.CreateString(f.Name)
	}
	fields := make([]flatbuffers.UOffsetT, len(m.Fields))
	for i, f := range m.Fields {
		flatMetricsV1.SimpleFieldStart(b)
		flatMetricsV1.SimpleFieldAddName(b, names[i])
		flatMetricsV1.SimpleFieldAddType(b, flatMetricsV1.SimpleFieldType(int8(f.Type)))
		flatMetricsV1.SimpleFieldAddValue(b, f.Value)
		fields[i] = flatMetricsV1.SimpleFieldEnd(b)
	}
	var exemplars flatbuffers.UOffsetT
	if m.FlatPad > 0 {
		n := b.CreateString(strings.Repeat("x", m.FlatPad))
		tr := b.CreateString("t")
		sp := b.CreateString("s")
		flatMetricsV1.ExemplarStart(b)
		flatMetricsV1.ExemplarAddName(b, n)
		flatMetricsV1.ExemplarAddTraceId(b, tr)
		flatMetricsV1.ExemplarAddSpanId(b, sp)
		flatMetricsV1.ExemplarAddDuration(b, 1)
		ex := flatMetricsV1.ExemplarEnd(b)
		flatMetricsV1.MetricStartExemplarsVector(b, 1)
		b.PrependUOffsetT(ex)
		exemplars = b.EndVector(1)
	}
	flatMetricsV1.MetricStartKeyValuesVector(b, len(kvs))
	for i := len(kvs) - 1; i >= 0; i-- {
		b.PrependUOffsetT(kvs[i])
	}
	kvVec := b.EndVector(len(kvs))
	flatMetricsV1.MetricStartSimpleFieldsVector(b, len(fields))
	for i := len(fields) - 1; i >= 0; i-- {
		b.PrependUOffsetT(fields[i])
	}
	fVec := b.EndVector(len(fields))
	var compound flatbuffers.UOffsetT
	if c := m.Compound; c != nil {
		flatMetricsV1.CompoundFieldStartValuesVector(b, len(c.Values))
		for i := len(c.Values) - 1; i >= 0; i-- {
			b.PrependFloat64(c.Values[i])
		}
		vv := b.EndVector(len(c.Values))
		flatMetricsV1.CompoundFieldStartExplicitBoundsVector(b, len(c.Bounds))
		for i := len(c.Bounds) - 1; i >= 0; i-- {
			b.PrependFloat64(c.Bounds[i])
		}
		bv := b.EndVector(len(c.Bounds))
		flatMetricsV1.CompoundFieldStart(b)
		flatMetricsV1.CompoundFieldAddCount(b, c.Count)
		flatMetricsV1.CompoundFieldAddSum(b, c.Sum)
		flatMetricsV1.CompoundFieldAddMin(b, c.Min)
		flatMetricsV1.CompoundFieldAddMax(b, c.Max)
		flatMetricsV1.CompoundFieldAddValues(b, vv)
		flatMetricsV1.CompoundFieldAddExplicitBounds(b, bv)
		compound = flatMetricsV1.CompoundFieldEnd(b)
	}
	var name, ns flatbuffers.UOffsetT
	if !m.FlatOmitName {
		name = b.CreateString(m.Name)
	}
	if m.NS != "" {
		ns = b.CreateString(m.NS)
	}
	flatMetricsV1.MetricStart(b)
	if ns != 0 {
		flatMetricsV1.MetricAddNamespace(b, ns)
	}
	if name != 0 {
		flatMetricsV1.MetricAddName(b, name)
	}
	flatMetricsV1.MetricAddTimestamp(b, m.TS)
	// bogus hashes: the decoder must recompute both
	flatMetricsV1.MetricAddNameHash(b, 0x1111111111111111^uint64(m.UID))
	flatMetricsV1.MetricAddKvsHash(b, 0x2222222222222222^uint64(m.UID))
	flatMetricsV1.MetricAddKeyValues(b, kvVec)
	flatMetricsV1.MetricAddSimpleFields(b, fVec)
	if exemplars != 0 {
		flatMetricsV1.MetricAddExemplars(b, exemplars)
	}
	if compound != 0 {
		flatMetricsV1.MetricAddCompoundField(b, compound)
	}
	end := flatMetricsV1.MetricEnd(b)
	b.FinishSizePrefixed(end)
	return append([]byte(nil), b.FinishedBytes()...)
}

// ---- influx line protocol ---------------------------------------------------------------------

func escLineName(s string) string {
	s = strings.ReplaceAll(s, ",", `\,`)
	return strings.ReplaceAll(s, " ", `\ `)
}

func escLineTag(s string) string {
	s = strings.ReplaceAll(s, ",", `\,`)
	s = strings.ReplaceAll(s, " ", `\ `)
	return strings.ReplaceAll(s, "=", `\=`)
}

// lineSafe turns s into a string that line protocol can carry unambiguously with lindb's escaping rules:
// no newline, no backslash in front of a character that gets escaped, no trailing backslash.
func lineSafe(s string, isName bool) string {
	var b []byte
	for i := 0; i < len(s); i++ {
		ch := s[i]
		if ch == '\n' || ch == '\r' {
			continue
		}
		if ch == '\\' {
			if i == len(s)-1 {
				continue
			}
			nx := s[i+1]
			if nx == ',' || nx == ' ' || nx == '=' || nx == '\\' || nx == '\n' || nx == '\r' {
				continue
			}
		}
		b = append(b, ch)
	}
	if isName {
		for len(b) > 0 && (b[0] == '#' || b[0] == ' ') {
			b = b[1:]
		}
	}
	return string(b)
}

// precision: multiplier from milliseconds to the unit the request declares.
type precision struct {
	Query string // value of ?precision=
	Mul   int64  // rendered = ms * Mul (Mul>0) or ms / -Mul (Mul<0)
}

var precisions = []precision{
	{"ms", 1}, {"ns", 1_000_000}, {"us", 1000}, {"s", -1000}, {"m", -60_000}, {"", 1},
}

func (p precision) render(ms int64) string {
	if p.Mul > 0 {
		return strconv.FormatInt(ms*p.Mul, 10)
	}
	return strconv.FormatInt(ms/-p.Mul, 10)
}

// unitMs is the granularity timestamps must have to be expressible at this precision.
func (p precision) unitMs() int64 {
	if p.Mul < 0 {
		return -p.Mul
	}
	return 1
}

func encodeLine(m *Metric, p precision) string {
	var b strings.Builder
	b.WriteString(escLineName(m.Name))
	for _, t := range m.Tags {
		b.WriteByte(',')
		b.WriteString(escLineTag(t.K))
		b.WriteByte('=')
		b.WriteString(escLineTag(t.V))
	}
	if len(m.Line) == 0 {
		return b.String()
	}
	b.WriteByte(' ')
	for i, f := range m.Line {
		if i > 0 {
			b.WriteByte(',')
		}
		b.WriteString(escLineTag(f.Key))
		b.WriteByte('=')
		b.WriteString(f.Lit)
	}
	if m.TS != 0 {
		b.WriteByte(' ')
		b.WriteString(formatLineTS(p.render(m.TS), m.LineTSForm))
	}
	return b.String()
}

// ---- http requests -----------------------------------------------------------------------------

func newRequest(body []byte, gz bool, query string) *http.Request {
	h := http.Header{}
	if gz {
		var buf bytes.Buffer
		w := gzip.NewWriter(&buf)
		_, _ = w.Write(body)
		_ = w.Close()
		body = buf.Bytes()
		h.Set("Content-Encoding", "gzip")
	}
	return &http.Request{
		Method: http.MethodPut,
		URL:    &url.URL{Path: "/api/v1/write", RawQuery: query},
		Header: h,
		Body:   io.NopCloser(bytes.NewReader(body)),
	}
}

// formatLineTS rewrites a decimal integer literal in another notation.
func formatLineTS(dec string, form string) string {
	sign, digits := "", dec
	if strings.HasPrefix(dec, "-") {
		sign, digits = "-", dec[1:]
	}
	v, _ := strconv.ParseUint(digits, 10, 64)
	switch form {
	case "pad1":
		return sign + "0" + digits
	case "pad3":
		return sign + "000" + digits
	case "plus":
		if sign == "" {
			return "+" + digits
		}
	case "hex":
		return sign + "0x" + strconv.FormatUint(v, 16)
	case "bin":
		return sign + "0b" + strconv.FormatUint(v, 2)
	case "oct":
		return sign + "0o" + strconv.FormatUint(v, 8)
	case "underscore":
		if len(digits) > 1 {
			return sign + digits[:1] + "_" + digits[1:]
		}
		return sign + digits + "_0"
	}
	return dec
}
