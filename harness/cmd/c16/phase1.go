package main

// Phase "convert": every metric of a mini batch goes through the protobuf converter, the flat decoder and (when
// expressible) the line protocol parser, both by driving BrokerBatchRows.TryAppend directly (so that a rejected
// append can be compared with the batch content before it) and through the real ingestion Parse functions.

import (
	"bytes"
	"fmt"
	"math"
	"strings"
	"time"

	flatbuffers "github.com/google/flatbuffers/go"
	"go.uber.org/zap/zapcore"

	"github.com/lindb/common/pkg/fasttime"
	"github.com/lindb/common/pkg/logger"
	protoMetricsV1 "github.com/lindb/common/proto/gen/v1/linmetrics"

	"github.com/lindb/lindb/ingestion/flat"
	"github.com/lindb/lindb/ingestion/influx"
	"github.com/lindb/lindb/ingestion/proto"
	"github.com/lindb/lindb/models"
	"github.com/lindb/lindb/series/metric"
	"github.com/lindb/lindb/series/tag"
	"github.com/lindb/lindb/verif/internal/core"
)

func silenceLindbLogs() { logger.RunningAtomicLevel.SetLevel(zapcore.FatalLevel) }

func toModelsLimits(l Limits) *models.Limits {
	ml := models.NewDefaultLimits()
	ml.MaxNamespaceLength = l.NS
	ml.MaxMetricNameLength = l.Name
	ml.MaxFieldNameLength = l.FieldName
	ml.MaxTagNameLength = l.TagName
	ml.MaxTagValueLength = l.TagValue
	ml.MaxTagsPerMetric = l.TagsPerMetric
	ml.MaxFieldsPerMetric = l.FieldsPerMetric
	return ml
}

func toTagTags(ts []Tag) tag.Tags {
	var out tag.Tags
	for _, t := range ts {
		out = append(out, tag.NewTag([]byte(t.K), []byte(t.V)))
	}
	return out
}

// outcome of one metric in one format
type outcome struct {
	ran      bool
	accepted bool
	row      *Row
	errText  string
}

type miniBatch struct {
	env     *Env
	metrics []*Metric
	lineOK  bool
	prec    precision
	flatIn  [][]byte // encoded flat rows
}

type convertCtx struct {
	r    *rec
	fb   *flatbuffers.Builder
	dec  *storageDecoder
	base int64 // timestamp base of the unit
}

func runConvert(c *core.Ctx, r *rec, idx int) {
	g := &Gen{r: c.Rand(fmt.Sprintf("convert-%d", idx)), uid: int64(idx) * 10_000_000}
	cc := &convertCtx{r: r, fb: flatbuffers.NewBuilder(2048), dec: newStorageDecoder()}
	nBatches := c.Pick(3000, 18000)
	for b := 0; b < nBatches && !r.giveUp(); b++ {
		mb := genMiniBatch(g, cc)
		cc.runMiniBatch(g, mb)
	}
}

func genMiniBatch(g *Gen, cc *convertCtx) *miniBatch {
	mb := &miniBatch{lineOK: g.r.Intn(5) < 2}
	mb.env = g.env(mb.lineOK)
	mb.prec = precisions[g.r.Intn(len(precisions))]
	n := 1 + g.r.Intn(8)
	if g.r.Intn(10) == 0 {
		n = 9 + g.r.Intn(8)
	}
	// timestamps: unique inside the mini batch (they identify the rows of a parsed batch), within +-20h of now
	// so that the precision guessing of the line parser (no ?precision=) has one answer
	now := time.Now().UnixMilli()
	unitMs := int64(1)
	if mb.lineOK {
		unitMs = mb.prec.unitMs()
	}
	// (at least a minute away from now: an unset timestamp is stored as "now" and must not collide with a sent one)
	off := int64(60+g.r.Intn(20*3600-60)) * 1000
	if g.r.Intn(2) == 0 {
		off = -off
	}
	base := now + off
	base -= base % unitMs
	zeroUsed := false
	for i := 0; i < n; i++ {
		m := g.metric(mb.env, genOpt{LineOK: mb.lineOK})
		if m.TS == -1 && !zeroUsed {
			m.TS = 0
			zeroUsed = true
		} else {
			m.TS = base + int64(i+1)*unitMs
			for j, s := range m.Inject {
				if s == "ts-zero" {
					m.Inject[j] = "ts-zero-skipped"
				}
			}
		}
		m.finish()
		mb.metrics = append(mb.metrics, m)
		mb.flatIn = append(mb.flatIn, encodeFlat(cc.fb, m))
	}
	return mb
}

func snapshotBatch(b *metric.BrokerBatchRows) [][]byte {
	rows := b.Rows()
	out := make([][]byte, len(rows))
	for i := range rows {
		var buf bytes.Buffer
		_, _ = rows[i].WriteTo(&buf)
		out[i] = buf.Bytes()
	}
	return out
}

func sameSnapshot(a, b [][]byte) bool {
	if len(a) != len(b) {
		return false
	}
	for i := range a {
		if !bytes.Equal(a[i], b[i]) {
			return false
		}
	}
	return true
}

func (cc *convertCtx) witness(mb *miniBatch, m *Metric, format, mode string, extra map[string]interface{}) map[string]interface{} {
	w := map[string]interface{}{
		"format": format, "mode": mode, "metric": m, "limits": mb.env.Lim, "request_namespace": mb.env.ReqNS, "enriched_tags": mb.env.Enriched,
	}
	if format == fmtLine {
		w["line"] = encodeLine(m, mb.prec)
		w["precision"] = mb.prec.Query
	}
	for k, v := range extra {
		w[k] = v
	}
	return w
}

func (cc *convertCtx) runMiniBatch(g *Gen, mb *miniBatch) {
	r := cc.r
	freshClock()
	n := len(mb.metrics)
	results := map[string][]outcome{}
	directFirst := g.r.Intn(2) == 0
	// protobuf
	if directFirst {
		results[fmtProto] = cc.protoDirect(mb)
	} else {
		results[fmtProto] = cc.parseMode(mb, fmtProto, g.r.Intn(5) == 0)
	}
	// flat
	if g.r.Intn(2) == 0 {
		results[fmtFlat] = cc.flatDirect(mb)
	} else {
		results[fmtFlat] = cc.parseMode(mb, fmtFlat, g.r.Intn(5) == 0)
	}
	if mb.lineOK {
		results[fmtLine] = cc.parseMode(mb, fmtLine, g.r.Intn(5) == 0)
	}
	// per metric: cross format agreement
	for i := 0; i < n; i++ {
		m := mb.metrics[i]
		r.Eval(1)
		if len(m.Tags) >= 2 || len(m.Inject) > 0 || m.Compound != nil {
			fm := "pf"
			if mb.lineOK {
				fm = "pfl"
			}
			r.Nontrivial(featureKey("convert", m, mb.env, fm))
		}
		if i == 0 {
			r.Sample(map[string]interface{}{"phase": "convert", "metric": m, "limits": mb.env.Lim.Profile, "proto_accepted": results[fmtProto][i].accepted,
				"flat_accepted": results[fmtFlat][i].accepted})
		}
		neutral := m.NilTag < 0 && m.NilField < 0 && !m.FlatOmitName && m.FlatPad == 0 && len(mb.flatIn[i]) <= 10*1024 && !lineTSNotDecimal(m.LineTSForm) &&
			(m.NS == "" || (m.NS == mb.env.ReqNS))
		if !neutral || hasConflictingDuplicates(m, mb.env) || judge(m, mb.env, fmtProto, 0).Status == stInvalid {
			continue // (an invalid metric that one path accepts is reported by that path's oracle)
		}
		formats := []string{fmtProto, fmtFlat}
		if mb.lineOK {
			formats = append(formats, fmtLine)
		}
		ref := results[formats[0]][i]
		for _, f := range formats[1:] {
			o := results[f][i]
			if !o.ran || !ref.ran {
				continue
			}
			if f == fmtLine && (caseInfo{m: m, format: f}).taglessMultiField() {
				continue // reported by the per format oracle
			}
			if mb.hasOversize() {
				continue // flat framing is lost for the whole request, reported by the per format oracle
			}
			if o.accepted != ref.accepted {
				// Not a violation: the property does not demand that the formats agree on validity, and a rejection is never
				// one. Specified cases are decided by the per format oracle; the rest is only counted.
				if v := judge(m, mb.env, f, len(mb.flatIn[i])); v.Status == stUnspec && !v.FormatSpecific {
					r.Count("formats_disagree_on_unspecified_validity/"+v.Reason, 1)
				}
				// for specified cases the per format accept/reject classes already fired
				continue
			}
			if !o.accepted {
				r.Count("cross_format_both_rejected", 1)
				continue
			}
			a, b := *ref.row, *o.row
			if m.TS == 0 { // "now" differs by a few ms between the conversions
				a.TS, b.TS = 1, 1
			}
			if f == fmtFlat && m.NS == "" && b.NS == "default-ns" && a.NS != b.NS {
				// C16/flat-request-namespace-ignored, reported by the per format oracle
				b.NS, b.NameHash = a.NS, a.NameHash
			}
			if d := sameRow(&a, &b, false); d != "" {
				r.Violation("C16/format-disagree-row/"+formats[0]+"-vs-"+f,
					fmt.Sprintf("%s and %s forms of one metric are stored differently: %s", formats[0], f, d),
					cc.witness(mb, m, f, "cross", map[string]interface{}{"row_" + formats[0]: ref.row, "row_" + f: o.row}))
			} else {
				r.Count("cross_format_rows_equal", 1)
				if f == fmtLine {
					r.Count("cross_format_rows_equal_incl_line_protocol", 1)
				}
			}
		}
	}
	// metamorphic: tag order and batch neighbours must not change identity
	cc.permutationCheck(g, mb)
	cc.tagHelpers(mb)
}

// judgeOutcome applies the per format oracles to one outcome.
func (cc *convertCtx) judgeOutcome(mb *miniBatch, i int, format, mode string, o outcome, nb nowBracket) {
	m := mb.metrics[i]
	ci := caseInfo{m: m, env: mb.env, format: format, flatSize: len(mb.flatIn[i]), mode: mode, flatDesyncing: mode == "parse" && mb.hasOversize()}
	evalOutcome(cc.r, ci, o.accepted, o.row, o.errText, nb, func(extra map[string]interface{}) map[string]interface{} {
		return cc.witness(mb, m, format, mode, extra)
	})
}

func (mb *miniBatch) hasOversize() bool {
	for _, f := range mb.flatIn {
		if len(f) > 10*1024 {
			return true
		}
	}
	return false
}

func showRow(r *Row) string {
	if r == nil {
		return "<nil>"
	}
	return fmt.Sprintf("{ns:%q name:%q ts:%d tags:%v fields:%s hist:%v}", r.NS, r.Name, r.TS, r.Tags, showFields(r.Fields), r.Compound)
}

// checkAppend verifies the "as a whole" clause around one TryAppend.
func (cc *convertCtx) checkAppend(mb *miniBatch, i int, format string, batch *metric.BrokerBatchRows, before [][]byte, err error) (outcome, bool) {
	r := cc.r
	m := mb.metrics[i]
	after := snapshotBatch(batch)
	if err != nil {
		if !sameSnapshot(before, after) {
			r.Violation("C16/"+format+"-rejected-append-changed-batch",
				fmt.Sprintf("TryAppend returned %q but the batch changed: %d rows before, %d after", err, len(before), len(after)),
				cc.witness(mb, m, format, "direct", nil))
			return outcome{ran: true}, false
		}
		r.Count("rejected_append_left_batch_unchanged", 1)
		return outcome{ran: true, accepted: false, errText: err.Error()}, true
	}
	if len(after) != len(before)+1 || !sameSnapshot(before, after[:len(before)]) {
		r.Violation("C16/"+format+"-append-disturbed-earlier-rows",
			fmt.Sprintf("TryAppend succeeded but the batch went from %d to %d rows or earlier rows changed", len(before), len(after)),
			cc.witness(mb, m, format, "direct", nil))
		return outcome{ran: true}, false
	}
	rows := batch.Rows()
	row := rowFromFlat(rows[len(rows)-1].Metric())
	// the same row through the storage side readers
	srows, problem := cc.dec.decodeBlock(after[len(after)-1])
	if problem != "" || len(srows) != 1 {
		r.Violation("C16/storage-reader-inconsistent", fmt.Sprintf("StorageBatchRows/StorageRow readers: %s (%d rows from one row block)", problem, len(srows)),
			cc.witness(mb, m, format, "direct", map[string]interface{}{"row": row}))
		return outcome{ran: true}, false
	}
	if d := sameRow(row, srows[0], true); d != "" {
		r.Violation("C16/storage-reader-differs-from-broker-row", "row read through StorageRow differs from the BrokerRow: "+d,
			cc.witness(mb, m, format, "direct", map[string]interface{}{"row": row, "storage_row": srows[0]}))
		return outcome{ran: true}, false
	}
	r.Count("rows_read_through_storage_readers", 1)
	return outcome{ran: true, accepted: true, row: row}, true
}

// bracket for "now": lindb reads the approximate clock of lindb/common fasttime, which lags behind the real clock
// when its ticker goroutine is starved (GOMAXPROCS=1); freshClock bounds that lag before the call.
func bracket(lo, hi int64) nowBracket { return nowBracket{lo - 5000, hi + 3000} }

// freshClock waits until lindb's approximate clock is within a second of the real one.
func freshClock() {
	for i := 0; i < 2000 && time.Now().UnixMilli()-fasttime.UnixMilliseconds() > 1000; i++ {
		time.Sleep(5 * time.Millisecond)
	}
}

func (cc *convertCtx) protoDirect(mb *miniBatch) []outcome {
	out := make([]outcome, len(mb.metrics))
	batch := metric.NewBrokerBatchRows()
	conv, release := metric.NewBrokerRowProtoConverter([]byte(heapString(mb.env.ReqNS)), toTagTags(mb.env.Enriched), toModelsLimits(mb.env.Lim))
	for i, m := range mb.metrics {
		pm := toProto(m)
		before := snapshotBatch(batch)
		lo := time.Now().UnixMilli()
		err := batch.TryAppend(func(row *metric.BrokerRow) error { return conv.ConvertTo(pm, row) })
		hi := time.Now().UnixMilli()
		o, ok := cc.checkAppend(mb, i, fmtProto, batch, before, err)
		out[i] = o
		if ok {
			cc.judgeOutcome(mb, i, fmtProto, "direct", o, bracket(lo, hi))
		}
	}
	release(conv)
	batch.Release()
	return out
}

func (cc *convertCtx) flatDirect(mb *miniBatch) []outcome {
	out := make([]outcome, len(mb.metrics))
	for i := range mb.flatIn {
		if len(mb.flatIn[i]) > 10*1024 { // framing of oversize rows is the subject of the flatstream phase
			return cc.parseMode(mb, fmtFlat, false)
		}
	}
	batch := metric.NewBrokerBatchRows()
	data := bytes.Join(mb.flatIn, nil)
	dec, release := metric.NewBrokerRowFlatDecoder(bytes.NewReader(data), []byte(heapString(mb.env.ReqNS)), toTagTags(mb.env.Enriched), toModelsLimits(mb.env.Lim))
	i := 0
	for dec.HasNext() {
		if i >= len(mb.metrics) {
			cc.r.Violation("C16/flat-decoder-framing", fmt.Sprintf("decoder found more than the %d rows that were sent", len(mb.metrics)), cc.witness(mb, mb.metrics[0], fmtFlat, "direct", nil))
			break
		}
		before := snapshotBatch(batch)
		lo := time.Now().UnixMilli()
		err := batch.TryAppend(dec.DecodeTo)
		hi := time.Now().UnixMilli()
		o, ok := cc.checkAppend(mb, i, fmtFlat, batch, before, err)
		out[i] = o
		if ok {
			cc.judgeOutcome(mb, i, fmtFlat, "direct", o, bracket(lo, hi))
		}
		i++
	}
	if i != len(mb.metrics) {
		cc.r.Violation("C16/flat-decoder-framing", fmt.Sprintf("decoder stopped after %d of %d rows", i, len(mb.metrics)), cc.witness(mb, mb.metrics[0], fmtFlat, "direct", nil))
	}
	if dec.ReadLen() != len(data) {
		cc.r.Violation("C16/flat-decoder-framing", fmt.Sprintf("decoder read %d of %d bytes", dec.ReadLen(), len(data)), cc.witness(mb, mb.metrics[0], fmtFlat, "direct", nil))
	}
	release(dec)
	batch.Release()
	return out
}

// parseMode sends the whole mini batch through the real ingestion Parse function of the format and maps the rows
// of the returned batch back to the metrics by their (unique) timestamps.
func (cc *convertCtx) parseMode(mb *miniBatch, format string, gz bool) []outcome {
	r := cc.r
	out := make([]outcome, len(mb.metrics))
	lim := toModelsLimits(mb.env.Lim)
	enriched := toTagTags(mb.env.Enriched)
	ns := heapString(mb.env.ReqNS)
	var batch *metric.BrokerBatchRows
	var err error
	lo := time.Now().UnixMilli()
	switch format {
	case fmtProto:
		var ms []*Metric
		for _, m := range mb.metrics {
			if m.NilTag >= 0 || m.NilField >= 0 { // nil elements cannot be marshalled; they exist only in direct mode
				continue
			}
			ms = append(ms, m)
		}
		data, merr := encodeProtoList(ms)
		if merr != nil {
			r.Inconclusive("cannot marshal protobuf list: " + merr.Error())
			return out
		}
		batch, err = proto.Parse(newRequest(data, gz, ""), enriched, ns, lim)
	case fmtFlat:
		batch, err = flat.Parse(newRequest(bytes.Join(mb.flatIn, nil), gz, ""), enriched, ns, lim)
	case fmtLine:
		var sb strings.Builder
		for i, m := range mb.metrics {
			if i%3 == 1 {
				sb.WriteString("# a comment line\n\n")
			}
			sb.WriteString(encodeLine(m, mb.prec))
			sb.WriteByte('\n')
		}
		q := ""
		if mb.prec.Query != "" {
			q = "precision=" + mb.prec.Query
		}
		batch, err = influx.Parse(newRequest([]byte(sb.String()), gz, q), enriched, ns, lim)
	}
	hi := time.Now().UnixMilli()
	r.Count("parse_requests_"+format, 1)
	if gz {
		r.Count("parse_requests_gzip", 1)
	}
	byTS := map[int64]int{}
	zeroIdx := -1
	for i, m := range mb.metrics {
		if format == fmtProto && (m.NilTag >= 0 || m.NilField >= 0) {
			continue
		}
		out[i].ran = true
		if m.TS == 0 {
			zeroIdx = i
		} else {
			byTS[m.TS] = i
		}
	}
	if batch == nil {
		if err == nil {
			r.Violation("C16/"+format+"-parse-nil-batch", "Parse returned neither a batch nor an error", cc.witness(mb, mb.metrics[0], format, "parse", nil))
			return out
		}
		// proto/flat report "empty metrics" when nothing was accepted: every metric counts as rejected
		for i := range out {
			if out[i].ran {
				out[i].errText = err.Error()
				cc.judgeOutcome(mb, i, format, "parse", out[i], bracket(lo, hi))
			}
		}
		return out
	}
	rows := batch.Rows()
	srows, problem := cc.dec.decodeBrokerRows(rows)
	if problem != "" || len(srows) != len(rows) {
		r.Violation("C16/storage-reader-inconsistent", fmt.Sprintf("StorageBatchRows/StorageRow readers: %s (%d of %d rows)", problem, len(srows), len(rows)),
			cc.witness(mb, mb.metrics[0], format, "parse", nil))
		srows = nil
	}
	prev := -1
	for k := range rows {
		row := rowFromFlat(rows[k].Metric())
		if rows[k].IsOutOfTimeRange {
			r.Count("stale_out_of_range_flag_on_fresh_batch", 1)
		}
		if srows != nil {
			if d := sameRow(row, srows[k], true); d != "" {
				r.Violation("C16/storage-reader-differs-from-broker-row", "row read through StorageRow differs from the BrokerRow: "+d,
					cc.witness(mb, mb.metrics[0], format, "parse", map[string]interface{}{"row": row, "storage_row": srows[k]}))
			} else {
				r.Count("rows_read_through_storage_readers", 1)
			}
		}
		i, ok := byTS[row.TS]
		if !ok {
			i = zeroIdx
			if i < 0 || math.Abs(float64(row.TS-hi)) > 10_000 {
				r.Violation("C16/"+format+"-row-from-nowhere", fmt.Sprintf("parsed batch holds a row that matches no metric of the request: %s", showRow(row)),
					cc.witness(mb, mb.metrics[0], format, "parse", map[string]interface{}{"row": row}))
				continue
			}
		}
		if out[i].accepted {
			r.Violation("C16/"+format+"-row-duplicated", fmt.Sprintf("one metric produced two rows in the parsed batch: %s", showRow(row)),
				cc.witness(mb, mb.metrics[i], format, "parse", map[string]interface{}{"row": row}))
			continue
		}
		if i < prev {
			r.Count("parsed_rows_out_of_request_order", 1)
		}
		prev = i
		out[i].accepted = true
		out[i].row = row
	}
	for i := range out {
		if out[i].ran {
			cc.judgeOutcome(mb, i, format, "parse", out[i], bracket(lo, hi))
		}
	}
	batch.Release() // ChannelManager.Write releases every parsed batch
	return out
}

// permutationCheck: for the valid metrics of the mini batch, convert tag-permuted / duplicate-padded variants in a
// different batch composition and position; series hash, stored tags and shard (for a few shard counts) must not move.
func (cc *convertCtx) permutationCheck(g *Gen, mb *miniBatch) {
	r := cc.r
	type cand struct {
		i int
		e *Expect
	}
	var cands []cand
	for i, m := range mb.metrics {
		if len(m.Tags) < 2 || m.NilTag >= 0 || m.NilField >= 0 || len(mb.flatIn[i]) > 10*1024 {
			continue
		}
		if judge(m, mb.env, fmtProto, 0).Status != stValid || judge(m, mb.env, fmtFlat, len(mb.flatIn[i])).Status != stValid {
			continue
		}
		e := canonical(m, mb.env, fmtProto)
		conflict := false
		for _, t := range e.Tags {
			for _, cnd := range t.Candidates {
				if cnd != t.Last {
					conflict = true // the resolved value legitimately depends on the order
				}
			}
		}
		if conflict {
			continue
		}
		cands = append(cands, cand{i, e})
	}
	if len(cands) == 0 {
		return
	}
	// variants in reverse order, each preceded by an unrelated filler row
	batchP := metric.NewBrokerBatchRows()
	batchF := metric.NewBrokerBatchRows()
	conv, release := metric.NewBrokerRowProtoConverter([]byte(heapString(mb.env.ReqNS)), toTagTags(mb.env.Enriched), toModelsLimits(mb.env.Lim))
	lim := toModelsLimits(mb.env.Lim)
	type pos struct{ p, f int }
	where := map[int]pos{}
	var flatData [][]byte
	variants := map[int]*Metric{}
	for k := len(cands) - 1; k >= 0; k-- {
		m := mb.metrics[cands[k].i]
		v := m.clone()
		g.r.Shuffle(len(v.Tags), func(a, b int) { v.Tags[a], v.Tags[b] = v.Tags[b], v.Tags[a] })
		room := mb.env.Lim.TagsPerMetric == 0 || len(v.Tags)+len(mb.env.Enriched) < mb.env.Lim.TagsPerMetric
		if room && g.r.Intn(2) == 0 { // repeat one pair verbatim
			d := v.Tags[g.r.Intn(len(v.Tags))]
			at := g.r.Intn(len(v.Tags) + 1)
			v.Tags = append(v.Tags, Tag{})
			copy(v.Tags[at+1:], v.Tags[at:])
			v.Tags[at] = d
		}
		v.finish()
		if len(encodeFlat(cc.fb, v)) > 10*1024 {
			continue
		}
		variants[cands[k].i] = v
		filler := &Metric{UID: -1, Name: "filler", TS: m.TS - 777_777_777, Tags: []Tag{{K: "f", V: fmt.Sprint(k)}}, Fields: []SField{{Name: "x", Type: 2, Value: 1}}, NilTag: -1, NilField: -1}
		if mb.env.Lim.Name > 0 && len(filler.Name) > mb.env.Lim.Name {
			filler.Name = "f"
		}
		if mb.env.Lim.TagsPerMetric > 0 && 1+len(mb.env.Enriched) > mb.env.Lim.TagsPerMetric {
			filler.Tags = nil
		}
		_ = batchP.TryAppend(func(row *metric.BrokerRow) error { return conv.ConvertTo(toProto(filler), row) })
		pErr := batchP.TryAppend(func(row *metric.BrokerRow) error { return conv.ConvertTo(toProto(v), row) })
		if pErr != nil {
			r.Violation("C16/tag-permutation-changes-validity", fmt.Sprintf("a tag permutation of an accepted metric was rejected by the protobuf converter: %v", pErr),
				cc.witness(mb, v, fmtProto, "permutation", map[string]interface{}{"original": m}))
			continue
		}
		flatData = append(flatData, encodeFlat(cc.fb, filler), encodeFlat(cc.fb, v))
		where[cands[k].i] = pos{p: batchP.Len() - 1}
	}
	dec, relDec := metric.NewBrokerRowFlatDecoder(bytes.NewReader(bytes.Join(flatData, nil)), []byte(heapString(mb.env.ReqNS)), toTagTags(mb.env.Enriched), lim)
	for dec.HasNext() {
		_ = batchF.TryAppend(dec.DecodeTo)
	}
	relDec(dec)
	// map flat rows by timestamp (fillers live far away on the time axis)
	flatRows := map[int64]*Row{}
	for _, br := range batchF.Rows() {
		row := rowFromFlat(br.Metric())
		flatRows[row.TS] = row
	}
	for _, cd := range cands {
		w, ok := where[cd.i]
		if !ok {
			continue
		}
		m := mb.metrics[cd.i]
		v := variants[cd.i]
		want := make([]Tag, len(cd.e.Tags))
		for j, t := range cd.e.Tags {
			want[j] = Tag{K: t.K, V: t.Last}
		}
		h := hashOfTags(want)
		for _, got := range []struct {
			f   string
			row *Row
		}{{fmtProto, rowFromFlat(batchP.Rows()[w.p].Metric())}, {fmtFlat, flatRows[m.TS]}} {
			if m.TS == 0 {
				continue
			}
			if got.row == nil {
				r.Violation("C16/tag-permutation-changes-validity", "a tag permutation of an accepted metric was rejected by the "+got.f+" path",
					cc.witness(mb, v, got.f, "permutation", map[string]interface{}{"original": m}))
				continue
			}
			if got.row.KvsHash != h || fmt.Sprint(got.row.Tags) != fmt.Sprint(want) {
				r.Violation("C16/series-identity-depends-on-tag-order",
					fmt.Sprintf("%s: permuted tags %v gave hash %#x tags %v; the original order gives hash %#x tags %v", got.f, v.Tags, got.row.KvsHash, got.row.Tags, h, want),
					cc.witness(mb, v, got.f, "permutation", map[string]interface{}{"original": m, "row": got.row}))
				continue
			}
			r.Count("tag_permutation_pairs_same_hash", 1)
		}
	}
	// shard of the permuted rows inside the other batch, through the real sharding iterator
	for _, shards := range []int32{1, 2, 3, 7, 16, 64} {
		it := batchP.NewShardGroupIterator(shards)
		seen := 0
		for it.HasRowsForNextShard() {
			shardIdx, fit := it.FamilyRowsForNextShard(10_000)
			for fit.HasNextFamily() {
				_, frows := fit.NextFamily()
				for k := range frows {
					seen++
					fm := frows[k].Metric()
					hh := fm.KvsHash()
					if int32(shardIdx) != jumpHash(hh, shards) || shardIdx < 0 || int32(shardIdx) >= shards {
						r.Violation("C16/shard-differs-from-jump-hash-of-series",
							fmt.Sprintf("row with series hash %#x was grouped into shard %d of %d, jump hash gives %d", hh, shardIdx, shards, jumpHash(hh, shards)),
							cc.witness(mb, mb.metrics[0], fmtProto, "permutation", nil))
					}
				}
			}
		}
		if seen != batchP.Len() {
			r.Violation("C16/iterator-lost-or-duplicated-rows", fmt.Sprintf("shard/family iterators yielded %d rows of a batch of %d (shards=%d)", seen, batchP.Len(), shards),
				cc.witness(mb, mb.metrics[0], fmtProto, "permutation", nil))
		}
		r.Count("permuted_rows_sharded", seen)
	}
	release(conv)
	batchP.Release()
	batchF.Release()
}

// tagHelpers checks the exported helpers of series/tag/tag.go on the raw tag lists of the mini batch:
// DeDup (sorted, one pair per key, value one of the given ones), XXHashOfKeyValues and ConcatKeyValues.
func (cc *convertCtx) tagHelpers(mb *miniBatch) {
	r := cc.r
	for _, m := range mb.metrics {
		if len(m.Tags) == 0 {
			continue
		}
		var kvs tag.KeyValues
		for _, t := range m.Tags {
			kvs = append(kvs, &protoMetricsV1.KeyValue{Key: t.K, Value: t.V})
		}
		e := canonical(m, &Env{}, fmtProto)
		dd := kvs.DeDup()
		got := make([]Tag, len(dd))
		for i, kv := range dd {
			got[i] = Tag{K: kv.Key, V: kv.Value}
		}
		bad := len(got) != len(e.Tags)
		for i := 0; !bad && i < len(got); i++ {
			ok := false
			for _, c := range e.Tags[i].Candidates {
				ok = ok || c == got[i].V
			}
			bad = got[i].K != e.Tags[i].K || !ok
		}
		if bad {
			r.Violation("C16/tag-dedup-wrong", fmt.Sprintf("tag.KeyValues.DeDup of %v gave %v, expected keys %v", m.Tags, got, expKeys(e)), map[string]interface{}{"metric": m})
			continue
		}
		want := hashOfTags(got)
		if h := tag.XXHashOfKeyValues(dd); h != want {
			r.Violation("C16/tag-hash-wrong", fmt.Sprintf("tag.XXHashOfKeyValues(%v) = %#x, xxhash of the joined sorted pairs is %#x", got, h, want), map[string]interface{}{"metric": m})
			continue
		}
		// unsorted input must hash like the sorted one
		shuffled := append(tag.KeyValues(nil), dd...)
		for i := len(shuffled) - 1; i > 0; i-- {
			j := (i * 7) % (i + 1)
			shuffled[i], shuffled[j] = shuffled[j], shuffled[i]
		}
		if h := tag.XXHashOfKeyValues(shuffled); h != want {
			r.Violation("C16/tag-hash-wrong", fmt.Sprintf("tag.XXHashOfKeyValues of a permutation of %v = %#x, expected %#x", got, h, want), map[string]interface{}{"metric": m})
			continue
		}
		var parts []string
		for _, t := range got {
			parts = append(parts, t.K+"="+t.V)
		}
		if c := tag.ConcatKeyValues(shuffled); c != strings.Join(parts, ",") {
			r.Violation("C16/tag-concat-wrong", fmt.Sprintf("tag.ConcatKeyValues = %q, expected %q", c, strings.Join(parts, ",")), map[string]interface{}{"metric": m})
			continue
		}
		r.Count("tag_helper_checks", 1)
	}
}
