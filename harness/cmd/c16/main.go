// Engine of property C16: ingestion canonicalises rows and routes them deterministically.
//
// The parent process derives a list of work units from (VERIF_SEED, tier) and runs each in a child process
// (GOMAXPROCS=1, so that lindb's sync.Pool based object reuse is reproducible; TZ=UTC). Children drive the real
// parsers, converters, pooled batches, shard/family iterators and the real ChannelManager / databaseChannel /
// shardChannel / familyChannel stack with a recording write stream, and judge every observation with the
// independent oracles of model.go.
package main

import (
	"encoding/json"
	"fmt"
	"os"
	"path/filepath"
	"sort"
	"strconv"
	"sync"
	"time"

	"github.com/lindb/lindb/verif/internal/core"
)

// childResult is what a child hands back to the parent.
type childResult struct {
	Unit         string           `json:"unit"`
	Evals        int              `json:"evals"`
	Counters     map[string]int   `json:"counters"`
	Nontrivial   []string         `json:"nontrivial"`
	Samples      []interface{}    `json:"samples"`
	Violations   []childViolation `json:"violations"`
	Inconclusive []string         `json:"inconclusive"`
	Done         bool             `json:"done"`
}

type childViolation struct {
	Class   string      `json:"class"`
	Message string      `json:"message"`
	Witness interface{} `json:"witness"`
	Count   int         `json:"count"`
}

// rec is the child side recorder (same shape as core.Ctx, serialised at the end).
type rec struct {
	total int
	res   childResult
	nt    map[string]struct{}
	viols map[string]*childViolation
}

func newRec(unit string) *rec {
	return &rec{res: childResult{Unit: unit, Counters: map[string]int{}}, nt: map[string]struct{}{}, viols: map[string]*childViolation{}}
}

func (r *rec) Eval(n int)               { r.res.Evals += n }
func (r *rec) Count(name string, n int) { r.res.Counters[name] += n }
func (r *rec) Nontrivial(key string)    { r.nt[key] = struct{}{} }
func (r *rec) Inconclusive(s string)    { r.res.Inconclusive = append(r.res.Inconclusive, s) }
func (r *rec) Sample(v interface{}) {
	if len(r.res.Samples) < 2 {
		r.res.Samples = append(r.res.Samples, v)
	}
}

// giveUp: the verdict of this unit is decided many times over; a broken tree can make the remaining work explode
// (rows piling up in a batch that is never reset), so the unit stops early instead of running into the watchdog.
func (r *rec) giveUp() bool {
	if r.total > 3000 {
		r.res.Counters["units_stopped_early_after_3000_violations"] = 1
		return true
	}
	return false
}

func (r *rec) Violation(class, msg string, witness interface{}) {
	r.total++
	if v, ok := r.viols[class]; ok {
		v.Count++
		return
	}
	r.viols[class] = &childViolation{Class: class, Message: msg, Witness: witness, Count: 1}
}

func (r *rec) write(path string) {
	for k := range r.nt {
		r.res.Nontrivial = append(r.res.Nontrivial, k)
	}
	sort.Strings(r.res.Nontrivial)
	var classes []string
	for k := range r.viols {
		classes = append(classes, k)
	}
	sort.Strings(classes)
	for _, k := range classes {
		r.res.Violations = append(r.res.Violations, *r.viols[k])
	}
	r.res.Done = true
	data, err := json.Marshal(&r.res)
	if err != nil {
		fmt.Println("cannot marshal child result:", err)
		os.Exit(3)
	}
	if err := os.WriteFile(path, data, 0o644); err != nil {
		fmt.Println("cannot write child result:", err)
		os.Exit(3)
	}
}

type unit struct {
	Phase string
	Index int
}

func main() {
	if len(os.Args) > 1 && os.Args[1] == "child" {
		childMain(os.Args[2:])
		return
	}
	c := core.New("C16", "exploration")
	c.SetRule("cases are generated from (seed, tier): abstract metrics (tag sets with permutations, duplicate and conflicting keys, " +
		"escape/unicode characters, every simple field type, histograms, NaN/Inf, one or two injected defects at the limit edges, four limit profiles) " +
		"encoded as protobuf, flat and line protocol; batches of random composition through the real parsers and pooled BrokerBatchRows; " +
		"routing scenarios (shard count 1-64, three family granularities, write windows). A case is non-trivial when the metric has >=2 tags, " +
		"a duplicate key, an injected defect, a histogram, or takes part in a routed batch; distinct = distinct feature signature " +
		"(phase, limit profile, tag count bucket, duplicates, escapes, unicode, field type set, histogram, formats, injection, outcome)")
	c.Assume("xxhash64 (cespare) and encoding of protobuf/flatbuffers wire libraries are trusted primitives")
	c.Assume("the process runs with TZ=UTC; family boundaries in other zones are C13's subject")
	c.Assume("generated timestamps keep >= 1 min distance from write-window edges relative to the real clock; unset timestamps are checked against a bracket around the call")

	var units []unit
	n1 := c.Pick(16, 256) // conversion units (phase 1)
	n2 := c.Pick(16, 256) // routing units (phase 2)
	n3 := c.Pick(4, 32)   // flat stream framing units
	for i := 0; i < n1; i++ {
		units = append(units, unit{"convert", i})
	}
	for i := 0; i < n2; i++ {
		units = append(units, unit{"route", i})
	}
	for i := 0; i < n3; i++ {
		units = append(units, unit{"flatstream", i})
	}
	for i := 0; i < c.Pick(4, 32); i++ {
		units = append(units, unit{"fuzz", i})
	}
	for i := 0; i < c.Pick(4, 32); i++ {
		units = append(units, unit{"reuse", i})
	}
	for i := 0; i < c.Pick(4, 32); i++ {
		units = append(units, unit{"sequence", i})
	}
	scratch := c.Scratch()
	timeout := time.Duration(c.Pick(600, 3600)) * time.Second
	var mu sync.Mutex
	merge := func(res *childResult) {
		c.Eval(res.Evals)
		for k, v := range res.Counters {
			c.Count(k, v)
		}
		for _, k := range res.Nontrivial {
			c.Nontrivial(k)
		}
		for _, s := range res.Samples {
			c.Sample(s)
		}
		for _, v := range res.Violations {
			for j := 0; j < v.Count; j++ {
				c.Violation(v.Class, v.Message, v.Witness)
			}
		}
		for _, s := range res.Inconclusive {
			c.Inconclusive("%s: %s", res.Unit, s)
		}
	}
	// samples and first witnesses are taken in unit order so that the evidence does not depend on scheduling
	pending := map[int]*childResult{}
	next := 0
	core.Parallel(len(units), 16, func(i int) {
		u := units[i]
		name := fmt.Sprintf("%s-%d", u.Phase, u.Index)
		out := filepath.Join(scratch, name+".json")
		logf := filepath.Join(scratch, name+".log")
		cr := core.RunChild("", []string{"child", u.Phase, strconv.Itoa(u.Index), out},
			[]string{"GOMAXPROCS=1", "TZ=UTC", "LOG_LEVEL=fatal", "VERIF_TIER=" + c.Tier}, timeout, logf)
		res := &childResult{}
		data, err := os.ReadFile(out)
		if err == nil {
			err = json.Unmarshal(data, res)
		}
		_ = os.Remove(out)
		_ = os.Remove(logf)
		mu.Lock()
		defer mu.Unlock()
		if err != nil || !res.Done {
			res = &childResult{Unit: name}
			if cr.TimedOut {
				res.Inconclusive = append(res.Inconclusive, fmt.Sprintf("child hit the watchdog (%v)", timeout))
			} else {
				// a crash of the real code under generated input
				res.Violations = append(res.Violations, childViolation{Class: "C16/child-crashed/" + u.Phase, Count: 1,
					Message: fmt.Sprintf("child %s exited with code %d without a result: %s", name, cr.ExitCode, tail(cr.Output, 1500)),
					Witness: map[string]interface{}{"unit": name, "output": tail(cr.Output, 6000)}})
			}
		}
		pending[i] = res
		for pending[next] != nil {
			merge(pending[next])
			delete(pending, next)
			next++
		}
	})
	// the workload must have observed what the oracles rely on
	need := map[string]int64{
		"rows_read_back_and_compared":          1000,
		"rejected_append_left_batch_unchanged": 100,
		"pooled_batch_reused":                  100,
		"routed_rows_checked_at_wire":          1000,
		"iterator_groups_checked":              100,
		"out_of_window_rows_evicted":           50,
		"tag_permutation_pairs_same_hash":      100,
		"cross_format_rows_equal":              500,
		"batches_crossing_family_boundary":     10,
		"reused_batch_after_eviction":          10,
		"flat_streams_with_oversize_row":       4,
	}
	for k, min := range need {
		if c.Counter(k) < min {
			c.Inconclusive("too few observations of %s: %d < %d", k, c.Counter(k), min)
		}
	}
	c.Finish()
}

func tail(s string, n int) string {
	if len(s) > n {
		return s[len(s)-n:]
	}
	return s
}

func childMain(args []string) {
	if len(args) != 3 {
		fmt.Println("usage: child <phase> <index> <out>")
		os.Exit(3)
	}
	idx, _ := strconv.Atoi(args[1])
	c := core.New("C16", "exploration") // only for Rand/tier: children never call Finish
	r := newRec(fmt.Sprintf("%s-%d", args[0], idx))
	curRec = r
	silenceLindbLogs()
	switch args[0] {
	case "convert":
		runConvert(c, r, idx)
	case "route":
		runRoute(c, r, idx)
	case "flatstream":
		runFlatStream(c, r, idx)
	case "fuzz":
		runFuzz(c, r, idx)
	case "reuse":
		runReuse(c, r, idx)
	case "sequence":
		runSequence(c, r, idx)
	default:
		fmt.Println("unknown phase", args[0])
		os.Exit(3)
	}
	r.write(args[2])
}
