package main

// Reading rows back out of lindb's own structures: the flat accessors of a BrokerRow and, the way the storage
// side does it, StorageBatchRows.UnmarshalRows + the StorageRow iterators (series/metric/row_readonly.go).

import (
	"bytes"
	"encoding/json"
	"fmt"
	"math"

	"github.com/lindb/common/proto/gen/v1/flatMetricsV1"

	"github.com/lindb/lindb/series/metric"
)

// curRec is the recorder of this child (for observations made deep inside helpers).
var curRec *rec

// rowFromFlat reads a row through the flat accessors. A BrokerRow that was never filled (or holds garbage) makes the
// accessors panic: that is recorded as a violation of its own and a placeholder row is returned.
func rowFromFlat(m flatMetricsV1.Metric) (out *Row) {
	defer func() {
		if p := recover(); p != nil {
			if curRec != nil {
				curRec.Violation("C16/batch-holds-unreadable-row", fmt.Sprintf("a row of a BrokerBatchRows cannot be read (empty or corrupt flat buffer): %v", p), nil)
			}
			out = &Row{Name: "<unreadable row>"}
		}
	}()
	return rowFromFlatUnsafe(m)
}

func rowFromFlatUnsafe(m flatMetricsV1.Metric) *Row {
	r := &Row{
		NS:       string(m.Namespace()),
		Name:     string(m.Name()),
		TS:       m.Timestamp(),
		KvsHash:  m.KvsHash(),
		NameHash: m.NameHash(),
	}
	var kv flatMetricsV1.KeyValue
	for i := 0; i < m.KeyValuesLength(); i++ {
		if m.KeyValues(&kv, i) {
			r.Tags = append(r.Tags, Tag{K: string(kv.Key()), V: string(kv.Value())})
		}
	}
	var sf flatMetricsV1.SimpleField
	for i := 0; i < m.SimpleFieldsLength(); i++ {
		if m.SimpleFields(&sf, i) {
			r.Fields = append(r.Fields, SField{Name: string(sf.Name()), Type: int(sf.Type()), Value: sf.Value()})
		}
	}
	var cf flatMetricsV1.CompoundField
	if m.CompoundField(&cf) != nil {
		c := &Compound{Min: cf.Min(), Max: cf.Max(), Sum: cf.Sum(), Count: cf.Count()}
		for i := 0; i < cf.ValuesLength(); i++ {
			c.Values = append(c.Values, cf.Values(i))
		}
		for i := 0; i < cf.ExplicitBoundsLength(); i++ {
			c.Bounds = append(c.Bounds, cf.ExplicitBounds(i))
		}
		r.Compound = c
	}
	return r
}

// rowFromStorage reads a row through the readers the storage side uses.
func rowFromStorage(sr *metric.StorageRow) (*Row, string) {
	r := &Row{
		NS:       string(sr.NameSpace()),
		Name:     string(sr.Name()),
		TS:       sr.Timestamp(),
		KvsHash:  sr.TagsHash(),
		NameHash: sr.NameHash(),
	}
	kvItr := sr.NewKeyValueIterator()
	n := 0
	for kvItr.HasNext() {
		r.Tags = append(r.Tags, Tag{K: string(kvItr.NextKey()), V: string(kvItr.NextValue())})
		n++
	}
	if n != sr.TagsLen() || n != kvItr.Len() {
		return r, fmt.Sprintf("key value iterator yielded %d tags, TagsLen()=%d Len()=%d", n, sr.TagsLen(), kvItr.Len())
	}
	sfItr := sr.NewSimpleFieldIterator()
	n = 0
	for sfItr.HasNext() {
		f := SField{Name: string(sfItr.NextRawName()), Type: int(sfItr.NextRawType()), Value: sfItr.NextValue()}
		if string(sfItr.NextName()) != f.Name {
			return r, fmt.Sprintf("NextName %q differs from NextRawName %q", sfItr.NextName(), f.Name)
		}
		r.Fields = append(r.Fields, f)
		n++
	}
	if n != sr.SimpleFieldsLen() || n != sfItr.Len() {
		return r, fmt.Sprintf("simple field iterator yielded %d fields, SimpleFieldsLen()=%d", n, sr.SimpleFieldsLen())
	}
	if cItr, ok := sr.NewCompoundFieldIterator(); ok {
		c := &Compound{Min: cItr.Min(), Max: cItr.Max(), Sum: cItr.Sum(), Count: cItr.Count()}
		for cItr.HasNextBucket() {
			c.Bounds = append(c.Bounds, cItr.NextExplicitBound())
			c.Values = append(c.Values, cItr.NextValue())
		}
		if len(c.Values) != cItr.BucketLen() {
			return r, fmt.Sprintf("compound iterator yielded %d buckets, BucketLen()=%d", len(c.Values), cItr.BucketLen())
		}
		r.Compound = c
	}
	return r, ""
}

// sameRow compares two observed rows bit for bit. nsDefaulted: b was read through StorageRow.NameSpace(), which
// maps an empty namespace to "default-ns".
func sameRow(a, b *Row, nsDefaulted bool) string {
	if a.Name != b.Name {
		return fmt.Sprintf("name %q vs %q", a.Name, b.Name)
	}
	if a.NS != b.NS && !(nsDefaulted && a.NS == "" && b.NS == "default-ns") {
		return fmt.Sprintf("namespace %q vs %q", a.NS, b.NS)
	}
	if a.TS != b.TS {
		return fmt.Sprintf("timestamp %d vs %d", a.TS, b.TS)
	}
	if a.KvsHash != b.KvsHash || a.NameHash != b.NameHash {
		return fmt.Sprintf("hashes %#x/%#x vs %#x/%#x", a.KvsHash, a.NameHash, b.KvsHash, b.NameHash)
	}
	if len(a.Tags) != len(b.Tags) {
		return fmt.Sprintf("tags %v vs %v", a.Tags, b.Tags)
	}
	for i := range a.Tags {
		if a.Tags[i] != b.Tags[i] {
			return fmt.Sprintf("tags %v vs %v", a.Tags, b.Tags)
		}
	}
	if len(a.Fields) != len(b.Fields) {
		return fmt.Sprintf("fields %s vs %s", showFields(a.Fields), showFields(b.Fields))
	}
	for i := range a.Fields {
		x, y := a.Fields[i], b.Fields[i]
		if x.Name != y.Name || x.Type != y.Type || math.Float64bits(x.Value) != math.Float64bits(y.Value) {
			return fmt.Sprintf("fields %s vs %s", showFields(a.Fields), showFields(b.Fields))
		}
	}
	if (a.Compound == nil) != (b.Compound == nil) || (a.Compound != nil && !sameCompound(a.Compound, b.Compound)) {
		return fmt.Sprintf("histogram %v vs %v", a.Compound, b.Compound)
	}
	return ""
}

// storageRows serialises broker rows the way familyChannel.Write does (BrokerRow.WriteTo into one block) and
// decodes the block the way the storage side does.
type storageDecoder struct {
	batch *metric.StorageBatchRows
	buf   bytes.Buffer
}

func newStorageDecoder() *storageDecoder {
	return &storageDecoder{batch: metric.NewStorageBatchRows()}
}

func (d *storageDecoder) decodeBlock(block []byte) ([]*Row, string) {
	d.batch.UnmarshalRows(block)
	var out []*Row
	for _, sr := range d.batch.Rows() {
		r, problem := rowFromStorage(sr)
		if problem != "" {
			return out, problem
		}
		out = append(out, r)
	}
	return out, ""
}

func (d *storageDecoder) decodeBrokerRows(rows []metric.BrokerRow) ([]*Row, string) {
	d.buf.Reset()
	for i := range rows {
		if _, err := rows[i].WriteTo(&d.buf); err != nil {
			return nil, err.Error()
		}
	}
	return d.decodeBlock(append([]byte(nil), d.buf.Bytes()...))
}

// MarshalJSON keeps witnesses printable: NaN/Inf are not JSON numbers.
func (r *Row) MarshalJSON() ([]byte, error) { return json.Marshal(showRow(r)) }
