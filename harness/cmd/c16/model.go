package main

// Abstract metrics, the independent canonicaliser (what a stored row must look like), the validity
// specification per ingestion format, and the independent routing oracle (series hash, jump hash,
// family range).  Nothing in this file calls lindb code.

import (
	"bytes"
	"fmt"
	"math"
	"sort"
	"strings"
	"time"

	"github.com/cespare/xxhash/v2"
)

// ---- abstract input ---------------------------------------------------------------------------

type Tag struct {
	K string `json:"k"`
	V string `json:"v"`
}

// SField is a simple field. Type uses the numeric values shared by the protobuf and the flat enums
// (0 unspecified, 1 last, 2 delta-sum, 3 min, 4 max, 5 first; anything else is an unknown enumerator).
type SField struct {
	Name  string  `json:"name"`
	Type  int     `json:"type"`
	Value float64 `json:"-"`
	Bits  string  `json:"value"` // printable form of Value (NaN/Inf are not valid JSON numbers)
}

type Compound struct {
	Min, Max, Sum, Count float64
	Values, Bounds       []float64
}

func (c *Compound) String() string {
	if c == nil {
		return "nil"
	}
	return fmt.Sprintf("{min:%v max:%v sum:%v count:%v values:%v bounds:%v}", c.Min, c.Max, c.Sum, c.Count, c.Values, c.Bounds)
}

// LineField is one key=literal pair of an influx line (only for metrics generated "line first").
type LineField struct {
	Key string `json:"key"`
	Lit string `json:"lit"`
}

type Metric struct {
	UID      int64       `json:"uid"`
	NS       string      `json:"ns"`
	Name     string      `json:"name"`
	TS       int64       `json:"ts"`
	Tags     []Tag       `json:"tags"`
	Fields   []SField    `json:"fields"`
	Compound *Compound   `json:"-"`
	CompStr  string      `json:"compound,omitempty"`
	Line     []LineField `json:"line,omitempty"` // non nil: the metric is expressible as line protocol with exactly these pairs
	// LineTSForm: how the timestamp is written in the line: "" plain decimal, "pad1"/"pad3" zero padded, "plus" with a
	// leading '+' (all decimal, same value), "hex"/"bin"/"oct"/"underscore" (not decimal: the line is invalid)
	LineTSForm string   `json:"lineTsForm,omitempty"`
	NilTag     int      `json:"nilTag"`   // protobuf only: index of a nil *KeyValue (-1 none)
	NilField   int      `json:"nilField"` // protobuf only: index of a nil *SimpleField (-1 none)
	Inject     []string `json:"inject,omitempty"`
	// flat only knobs
	FlatOmitName bool `json:"flatOmitName,omitempty"`
	FlatPad      int  `json:"flatPad,omitempty"` // extra bytes (as exemplars) to inflate the input row
}

func (m *Metric) clone() *Metric {
	c := *m
	c.Tags = append([]Tag(nil), m.Tags...)
	c.Fields = append([]SField(nil), m.Fields...)
	c.Line = append([]LineField(nil), m.Line...)
	if m.Line == nil {
		c.Line = nil
	}
	if m.Compound != nil {
		cc := *m.Compound
		cc.Values = append([]float64(nil), m.Compound.Values...)
		cc.Bounds = append([]float64(nil), m.Compound.Bounds...)
		c.Compound = &cc
	}
	c.Inject = append([]string(nil), m.Inject...)
	return &c
}

func (m *Metric) finish() {
	for i := range m.Fields {
		m.Fields[i].Bits = fmtFloat(m.Fields[i].Value)
	}
	if m.Compound != nil {
		m.CompStr = m.Compound.String()
	}
}

func fmtFloat(v float64) string { return fmt.Sprintf("%v(0x%016x)", v, math.Float64bits(v)) }

// Limits mirrors models.Limits (only the write limits the ingestion path consults). 0 disables a limit.
type Limits struct {
	Profile         string
	NS              int
	Name            int
	FieldName       int
	TagName         int
	TagValue        int
	TagsPerMetric   int
	FieldsPerMetric int
}

// Env is the request level context of a conversion.
type Env struct {
	Lim      Limits
	ReqNS    string
	Enriched []Tag
}

const (
	fmtProto = "proto"
	fmtFlat  = "flat"
	fmtLine  = "influx"
)

// ---- expected (canonical) row -----------------------------------------------------------------

type ExpTag struct {
	K          string
	Candidates []string // every value given for this key (the stored one must be one of them)
	Last       string   // the value of the last occurrence (documented intent: "high index key has higher priority")
}

type Row struct {
	NS       string
	Name     string
	TS       int64
	Tags     []Tag
	Fields   []SField
	Compound *Compound
	KvsHash  uint64
	NameHash uint64
}

type Expect struct {
	NS       string
	Name     string
	TS       int64 // 0: "now" (checked against a bracket taken around the call)
	Tags     []ExpTag
	Fields   []SField
	Compound *Compound
}

func sanitizeName(s string) string { return strings.ReplaceAll(s, "|", "_") }

func sanitizeField(s string) string {
	switch {
	case strings.HasPrefix(s, "Histogram"):
		return "_" + s
	case strings.HasPrefix(s, "__bucket_"):
		return s[1:]
	}
	return s
}

func effectiveNS(m *Metric, env *Env, format string) string {
	switch format {
	case fmtProto: // request namespace replaces the metric's
		if env.ReqNS != "" {
			return env.ReqNS
		}
		return m.NS
	case fmtFlat: // the row's namespace wins, request namespace is the default
		if m.NS != "" {
			return m.NS
		}
		return env.ReqNS
	default:
		return env.ReqNS
	}
}

// canonical computes what must be stored for an accepted metric.
func canonical(m *Metric, env *Env, format string) *Expect {
	e := &Expect{Name: sanitizeName(m.Name), TS: m.TS}
	e.NS = sanitizeName(effectiveNS(m, env, format))
	all := make([]Tag, 0, len(m.Tags)+len(env.Enriched))
	all = append(all, m.Tags...)
	all = append(all, env.Enriched...)
	idx := map[string]int{}
	for _, t := range all {
		i, ok := idx[t.K]
		if !ok {
			idx[t.K] = len(e.Tags)
			e.Tags = append(e.Tags, ExpTag{K: t.K, Candidates: []string{t.V}, Last: t.V})
			continue
		}
		e.Tags[i].Candidates = append(e.Tags[i].Candidates, t.V)
		e.Tags[i].Last = t.V
	}
	sort.Slice(e.Tags, func(i, j int) bool { return bytes.Compare([]byte(e.Tags[i].K), []byte(e.Tags[j].K)) < 0 })
	for _, f := range m.Fields {
		e.Fields = append(e.Fields, SField{Name: sanitizeField(f.Name), Type: f.Type, Value: f.Value})
	}
	if m.Compound != nil {
		c := *m.Compound
		e.Compound = &c
	}
	return e
}

// hashOfTags is the series identity: xxhash64 of "k1=v1,k2=v2" over the sorted unique tags.
func hashOfTags(tags []Tag) uint64 {
	var b bytes.Buffer
	for i, t := range tags {
		if i > 0 {
			b.WriteByte(',')
		}
		b.WriteString(t.K)
		b.WriteByte('=')
		b.WriteString(t.V)
	}
	return xxhash.Sum64(b.Bytes())
}

func hashOfName(ns, name string) uint64 { return xxhash.Sum64String(ns + name) }

// jumpHash is Lamping & Veach's jump consistent hash, written out independently of the library lindb uses.
func jumpHash(key uint64, buckets int32) int32 {
	var b, j int64 = -1, 0
	for j < int64(buckets) {
		b = j
		key = key*2862933555777941757 + 1
		j = int64(float64(b+1) * (float64(int64(1)<<31) / float64((key>>33)+1)))
	}
	return int32(b)
}

// familyRange returns [start,end) of the family containing ts for the interval type of the smallest interval.
// Written with time.Date arithmetic only (no lindb calculator).
func familyRange(ts int64, intervalMs int64) (start, end int64) {
	t := time.UnixMilli(ts).In(time.Local)
	var s, e time.Time
	switch {
	case intervalMs >= 3600_000: // year segments, month families
		s = time.Date(t.Year(), t.Month(), 1, 0, 0, 0, 0, time.Local)
		e = s.AddDate(0, 1, 0)
	case intervalMs >= 300_000: // month segments, day families
		s = time.Date(t.Year(), t.Month(), t.Day(), 0, 0, 0, 0, time.Local)
		e = s.AddDate(0, 0, 1)
	default: // day segments, hour families
		s = time.Date(t.Year(), t.Month(), t.Day(), t.Hour(), 0, 0, 0, time.Local)
		e = s.Add(time.Hour)
	}
	return s.UnixMilli(), e.UnixMilli()
}

// ---- validity specification -------------------------------------------------------------------

const (
	stValid = iota
	stInvalid
	stUnspec // the statement of the property does not say; only "as a whole" and well-formedness are checked
)

type Verdict struct {
	Status int
	Reason string
	// FormatSpecific: the reason is about the syntax of one format, the abstract metric is not the same thing in the others
	FormatSpecific bool
}

func lenOver(s string, max int) bool { return max > 0 && len(s) > max }

// lastWins de-duplicates tags the way a map filled in order does.
func lastWins(tags []Tag) []Tag {
	idx := map[string]int{}
	var out []Tag
	for _, t := range tags {
		if i, ok := idx[t.K]; ok {
			out[i].V = t.V
			continue
		}
		idx[t.K] = len(out)
		out = append(out, t)
	}
	return out
}

// judge decides whether the metric is valid in the given format. The rules are the validation intent
// shared by the three ingestion paths (series/metric/row_proto_converter.go validateMetric,
// lindb/common RowBuilder, ingestion/influx parseInfluxLine); where the paths disagree the stricter
// rule is the specification and the disagreement surfaces as its own violation class.
// A metric is invalid if any rule says so; otherwise unspecified if it touches a point the property does
// not decide; otherwise valid.
func judge(m *Metric, env *Env, format string, flatInputSize int) Verdict {
	if r := invalidReason(m, env, format, flatInputSize); r != "" {
		return Verdict{Status: stInvalid, Reason: r}
	}
	if format == fmtLine {
		for i, lf := range m.Line {
			if lf.Key == "" && i != len(m.Line)-1 {
				// the field scanner stops at a pair without a key: what happens to the pairs behind it is not specified
				return Verdict{stUnspec, "line-empty-field-key-in-the-middle", true}
			}
		}
	}
	if c := m.Compound; c != nil {
		for _, b := range c.Bounds {
			if math.IsNaN(b) {
				return Verdict{stUnspec, "histogram-nan-bound", false}
			}
		}
		if len(c.Values) == 2 {
			// the protobuf path demands more than two buckets, the flat path at least two
			return Verdict{stUnspec, "histogram-2-buckets", false}
		}
	}
	return Verdict{Status: stValid}
}

func invalidReason(m *Metric, env *Env, format string, flatInputSize int) string {
	l := env.Lim
	if format == fmtFlat && flatInputSize > 10*1024 {
		return "flat-row-over-10KiB"
	}
	if format == fmtLine && m.TS != 0 && lineTSNotDecimal(m.LineTSForm) {
		return "line-timestamp-not-decimal" // line protocol integers are decimal: ErrBadTimestamp, the whole line is rejected
	}
	if m.Name == "" || (format == fmtFlat && m.FlatOmitName) {
		return "empty-name"
	}
	if lenOver(m.Name, l.Name) {
		return "name-too-long"
	}
	if len(m.Fields) == 0 && m.Compound == nil {
		return "no-fields"
	}
	if format == fmtProto && m.NilTag >= 0 {
		return "nil-tag"
	}
	if format == fmtProto && m.NilField >= 0 {
		return "nil-field"
	}
	tags := m.Tags
	if format == fmtLine {
		// the line parser collects the tags of a line into a map first: limits can only apply to what is left
		tags = lastWins(m.Tags)
		for _, t := range m.Tags {
			if t.K == "" || t.V == "" {
				return "empty-tag"
			}
		}
	}
	// protobuf and flat count the metric's tags plus the enriched ones (before de-duplication); the line parser limits
	// the line's own (map de-duplicated) tags, enriched tags are added afterwards by influx.Parse and are not counted
	nTags := len(tags) + len(env.Enriched)
	if format == fmtLine {
		nTags = len(tags)
	}
	if l.TagsPerMetric > 0 && nTags > l.TagsPerMetric {
		return "too-many-tags"
	}
	for _, t := range append(append([]Tag(nil), tags...), env.Enriched...) {
		if t.K == "" || t.V == "" {
			return "empty-tag"
		}
	}
	for _, t := range tags { // enriched tags are limited by the http handler, not by the converters
		if lenOver(t.K, l.TagName) {
			return "tag-key-too-long"
		}
		if lenOver(t.V, l.TagValue) {
			return "tag-value-too-long"
		}
	}
	if l.FieldsPerMetric > 0 && len(m.Fields) > l.FieldsPerMetric {
		return "too-many-fields"
	}
	for _, f := range m.Fields {
		if f.Name == "" {
			return "empty-field-name"
		}
		if lenOver(f.Name, l.FieldName) {
			return "field-name-too-long"
		}
		if f.Type == 0 {
			return "field-type-unspecified"
		}
		if f.Type < 0 || f.Type > 5 {
			return "field-type-unknown"
		}
		if math.IsNaN(f.Value) {
			return "nan-field"
		}
		if math.IsInf(f.Value, 0) {
			return "inf-field"
		}
	}
	if c := m.Compound; c != nil {
		if len(c.Values) != len(c.Bounds) {
			return "histogram-length-mismatch"
		}
		if len(c.Values) < 2 {
			return "histogram-too-few-buckets"
		}
		if !(c.Min >= 0 && c.Max >= 0 && c.Sum >= 0 && c.Count >= 0) {
			for _, v := range []float64{c.Min, c.Max, c.Sum, c.Count} {
				if math.IsNaN(v) {
					return "histogram-nan"
				}
			}
			return "histogram-negative"
		}
		for i, v := range c.Values {
			if math.IsNaN(v) || math.IsInf(v, 0) {
				return "histogram-nonfinite-value"
			}
			if v < 0 {
				return "histogram-negative"
			}
			b := c.Bounds[i]
			if b < 0 {
				return "histogram-negative"
			}
			if i > 0 && b < c.Bounds[i-1] {
				return "histogram-bounds-decreasing"
			}
		}
		if last := c.Bounds[len(c.Bounds)-1]; !math.IsNaN(last) && !math.IsInf(last, 1) {
			return "histogram-last-bound-not-inf"
		}
	}
	// namespace length: only the flat decoder limits the resulting namespace; through the http handler the
	// request namespace is limited for every format, so only a row-supplied namespace can be too long.
	if format == fmtFlat && lenOver(effectiveNS(m, env, format), l.NS) {
		return "namespace-too-long"
	}
	return ""
}

// ---- comparison of an observed row with the expectation --------------------------------------

type nowBracket struct{ lo, hi int64 }

// compareRow returns "" if the observed row is what must be stored, else a short kind + message.
// notLast reports duplicate keys resolved to a value other than the last given one (allowed, counted).
func compareRow(e *Expect, r *Row, nb nowBracket) (kind, msg string, notLast int) {
	if r.Name != e.Name {
		return "name", fmt.Sprintf("name %q, expected %q", r.Name, e.Name), 0
	}
	if e.TS != 0 {
		if r.TS != e.TS {
			return "timestamp", fmt.Sprintf("timestamp %d, expected %d", r.TS, e.TS), 0
		}
	} else if r.TS < nb.lo || r.TS > nb.hi {
		return "timestamp-now", fmt.Sprintf("timestamp %d for an unset timestamp, expected within [%d,%d]", r.TS, nb.lo, nb.hi), 0
	}
	if len(r.Tags) != len(e.Tags) {
		return "tags", fmt.Sprintf("%d tags %v, expected %d distinct keys %v", len(r.Tags), r.Tags, len(e.Tags), expKeys(e)), 0
	}
	for i, t := range r.Tags {
		if t.K != e.Tags[i].K {
			return "tags", fmt.Sprintf("tag %d has key %q, expected %q (sorted unique keys %v, got %v)", i, t.K, e.Tags[i].K, expKeys(e), r.Tags), 0
		}
		ok := false
		for _, c := range e.Tags[i].Candidates {
			if c == t.V {
				ok = true
			}
		}
		if !ok {
			return "tags", fmt.Sprintf("tag %q stored with value %q which is none of the given values %q", t.K, t.V, e.Tags[i].Candidates), 0
		}
		if t.V != e.Tags[i].Last {
			notLast++
		}
	}
	if len(r.Fields) != len(e.Fields) {
		return "fields", fmt.Sprintf("%d simple fields %v, expected %d %v", len(r.Fields), showFields(r.Fields), len(e.Fields), showFields(e.Fields)), notLast
	}
	for i, f := range r.Fields {
		x := e.Fields[i]
		// numeric equality: flatbuffers elides a field equal to its default, so -0 is read back as +0
		if f.Name != x.Name || f.Type != x.Type || f.Value != x.Value {
			return "fields", fmt.Sprintf("simple field %d is %s, expected %s", i, showFields([]SField{f}), showFields([]SField{x})), notLast
		}
	}
	if (r.Compound == nil) != (e.Compound == nil) {
		return "histogram", fmt.Sprintf("compound field %v, expected %v", r.Compound, e.Compound), notLast
	}
	if e.Compound != nil && !sameCompound(r.Compound, e.Compound) {
		return "histogram", fmt.Sprintf("compound field %v, expected %v", r.Compound, e.Compound), notLast
	}
	if r.NS != e.NS { // last: everything else of the row is as sent
		return "namespace", fmt.Sprintf("namespace %q, expected %q", r.NS, e.NS), notLast
	}
	return "", "", notLast
}

func sameCompound(a, b *Compound) bool {
	eq := func(x, y float64) bool { return x == y || math.Float64bits(x) == math.Float64bits(y) }
	if !eq(a.Min, b.Min) || !eq(a.Max, b.Max) || !eq(a.Sum, b.Sum) || !eq(a.Count, b.Count) {
		return false
	}
	if len(a.Values) != len(b.Values) || len(a.Bounds) != len(b.Bounds) {
		return false
	}
	for i := range a.Values {
		if !eq(a.Values[i], b.Values[i]) {
			return false
		}
	}
	for i := range a.Bounds {
		if !eq(a.Bounds[i], b.Bounds[i]) {
			return false
		}
	}
	return true
}

func expKeys(e *Expect) []string {
	var ks []string
	for _, t := range e.Tags {
		ks = append(ks, t.K)
	}
	return ks
}

func showFields(fs []SField) string {
	var b strings.Builder
	b.WriteByte('[')
	for i, f := range fs {
		if i > 0 {
			b.WriteByte(' ')
		}
		fmt.Fprintf(&b, "%q/type=%d/%s", f.Name, f.Type, fmtFloat(f.Value))
	}
	b.WriteByte(']')
	return b.String()
}

// wellFormed checks what every stored row must satisfy whatever the input was.
func wellFormed(r *Row) string {
	if r.Name == "" {
		return "empty metric name"
	}
	if strings.Contains(r.Name, "|") || strings.Contains(r.NS, "|") {
		return fmt.Sprintf("'|' left in name %q / namespace %q", r.Name, r.NS)
	}
	for i, t := range r.Tags {
		if t.K == "" || t.V == "" {
			return fmt.Sprintf("empty tag key/value in %v", r.Tags)
		}
		if i > 0 && bytes.Compare([]byte(r.Tags[i-1].K), []byte(t.K)) >= 0 {
			return fmt.Sprintf("tag keys not strictly ascending: %q then %q", r.Tags[i-1].K, t.K)
		}
	}
	if h := hashOfTags(r.Tags); h != r.KvsHash {
		return fmt.Sprintf("series hash %#x is not xxhash of the stored sorted tags %v (%#x)", r.KvsHash, r.Tags, h)
	}
	if h := hashOfName(r.NS, r.Name); h != r.NameHash {
		return fmt.Sprintf("name hash %#x is not xxhash(namespace+name) of %q %q (%#x)", r.NameHash, r.NS, r.Name, h)
	}
	if len(r.Fields) == 0 && r.Compound == nil {
		return "no field at all"
	}
	for _, f := range r.Fields {
		if f.Name == "" {
			return "empty field name"
		}
		if math.IsNaN(f.Value) || math.IsInf(f.Value, 0) {
			return fmt.Sprintf("non finite simple field value %v", f.Value)
		}
	}
	return ""
}

func lineTSNotDecimal(form string) bool {
	switch form {
	case "hex", "bin", "oct", "underscore":
		return true
	}
	return false
}
