package main

// Seeded generators: strings (ascii, escape characters, unicode), tag sets with duplicates and
// permutations, simple fields of every type, histograms, limit profiles, and the catalogue of injected defects.

import (
	"fmt"
	"math"
	"math/rand"
	"strconv"
	"strings"
)

type Gen struct {
	r   *rand.Rand
	uid int64
}

var (
	plainAlpha   = []string{"a", "b", "c", "d", "e", "h", "o", "s", "t", "x", "z", "A", "Z", "0", "1", "7", "9", "_", ".", "-"}
	escapeAlpha  = []string{",", " ", "=", "\\", "\"", "|", ":", "/", "#", "'", ";"}
	unicodeAlpha = []string{"é", "ß", "中", "文", "😀", "é", " ", "İ", "ö", "Ж", "​", "日本"}
	controlAlpha = []string{"\t", "\n"}
)

// str returns a random string of at most maxBytes bytes (at least 1) mixing the alphabets by class weights.
func (g *Gen) str(maxBytes int, esc, uni, ctl float64) string {
	if maxBytes < 1 {
		maxBytes = 1
	}
	n := 1 + g.r.Intn(minInt(maxBytes, 12))
	if g.r.Intn(10) == 0 {
		n = 1 + g.r.Intn(maxBytes)
	}
	var b strings.Builder
	for b.Len() < n {
		var s string
		p := g.r.Float64()
		switch {
		case p < esc:
			s = escapeAlpha[g.r.Intn(len(escapeAlpha))]
		case p < esc+uni:
			s = unicodeAlpha[g.r.Intn(len(unicodeAlpha))]
		case p < esc+uni+ctl:
			s = controlAlpha[g.r.Intn(len(controlAlpha))]
		default:
			s = plainAlpha[g.r.Intn(len(plainAlpha))]
		}
		if b.Len()+len(s) > maxBytes {
			if b.Len() == 0 {
				b.WriteString("q")
			}
			break
		}
		b.WriteString(s)
	}
	return b.String()
}

// exact returns a plain string of exactly n bytes.
func (g *Gen) exact(n int) string {
	var b strings.Builder
	for b.Len() < n {
		b.WriteString(plainAlpha[g.r.Intn(len(plainAlpha)-3)]) // no '_' '.' '-' to keep it simple
	}
	return b.String()[:n]
}

func minInt(a, b int) int {
	if a < b {
		return a
	}
	return b
}

func capOr(limit, dflt int) int {
	if limit > 0 && limit < dflt {
		return limit
	}
	return dflt
}

var limitProfiles = []Limits{
	{Profile: "default", NS: 256, Name: 256, FieldName: 128, TagName: 128, TagValue: 1024, TagsPerMetric: 32, FieldsPerMetric: 256},
	{Profile: "tight", NS: 12, Name: 16, FieldName: 14, TagName: 8, TagValue: 10, TagsPerMetric: 4, FieldsPerMetric: 4},
	{Profile: "off"},
}

func (g *Gen) limits() Limits {
	switch p := g.r.Intn(10); {
	case p < 4:
		return limitProfiles[0]
	case p < 7:
		return limitProfiles[1]
	case p < 8:
		return limitProfiles[2]
	}
	// mixed: every limit drawn independently from default / tight / off
	d, t := limitProfiles[0], limitProfiles[1]
	l := Limits{Profile: "mixed"}
	sel := func(dv, tv int) int {
		switch g.r.Intn(3) {
		case 0:
			return dv
		case 1:
			return tv
		}
		return 0
	}
	l.NS, l.Name, l.FieldName = sel(d.NS, t.NS), sel(d.Name, t.Name), sel(d.FieldName, t.FieldName)
	l.TagName, l.TagValue = sel(d.TagName, t.TagName), sel(d.TagValue, t.TagValue)
	l.TagsPerMetric, l.FieldsPerMetric = sel(d.TagsPerMetric, t.TagsPerMetric), sel(d.FieldsPerMetric, t.FieldsPerMetric)
	return l
}

// heapString returns a copy of s that lives on the heap: lindb sanitises request namespaces in place through
// an unsafe string->[]byte cast, which must never hit a string constant of the harness binary.
// (strings.Builder, not string([]byte): the runtime serves one byte conversions from a shared static table.)
func heapString(s string) string {
	var sb strings.Builder
	sb.Grow(len(s) + 8)
	sb.WriteString(s)
	return sb.String()
}

func (g *Gen) env(lineOK bool) *Env {
	e := &Env{Lim: g.limits()}
	nsMax := capOr(e.Lim.NS, 20)
	switch g.r.Intn(6) {
	case 0:
		e.ReqNS = "default-ns"
		if len(e.ReqNS) > nsMax {
			e.ReqNS = "dns"
		}
	case 1:
		e.ReqNS = g.str(nsMax, 0.2, 0.2, 0)
	case 2:
		e.ReqNS = g.str(nsMax-1, 0, 0, 0) + "|"
	default:
		e.ReqNS = "ns" + strconv.Itoa(g.r.Intn(3))
	}
	if len(e.ReqNS) > nsMax {
		e.ReqNS = g.exact(nsMax)
	}
	e.ReqNS = heapString(e.ReqNS)
	if g.r.Intn(4) == 0 {
		n := 1 + g.r.Intn(2)
		for i := 0; i < n; i++ {
			k := []string{"region", "host", "zz", "a"}[g.r.Intn(4)]
			if len(k) > capOr(e.Lim.TagName, 99) {
				k = "r"
			}
			e.Enriched = append(e.Enriched, Tag{K: k, V: g.str(capOr(e.Lim.TagValue, 8), 0.1, 0.1, 0)})
		}
	}
	_ = lineOK
	return e
}

var valuePool = []float64{0, math.Copysign(0, -1), 1, -1, 0.5, 2.5, 1e-300, 5e-324, math.MaxFloat64, -math.MaxFloat64,
	float64(1<<53 + 2), 1234567.875, -42, 3.141592653589793, 1e21, 1e-7}

func (g *Gen) value() float64 {
	switch g.r.Intn(4) {
	case 0:
		return valuePool[g.r.Intn(len(valuePool))]
	case 1:
		return float64(g.r.Intn(100000) - 1000)
	default:
		return math.Round((g.r.Float64()*2e6-1e3)*1000) / 1000
	}
}

var keyPool = []string{"host", "zone", "a", "b", "ab", "a b", "a,b", "k=v", "región", "主机", "z", "A", "Host", "ho st", "h\\x", "dc", "rack", "ip", "app", "env", "é", "é", "_", "-", "0"}

type genOpt struct {
	LineOK   bool // generate "line first": the metric is expressible in all three formats
	NoInject bool
	WithUID  bool
	MaxTags  int // 0: default distribution
}

func (g *Gen) tagKey(lim Limits, opt genOpt) string {
	max := capOr(lim.TagName, 24)
	var k string
	if g.r.Intn(10) < 7 {
		k = keyPool[g.r.Intn(len(keyPool))]
	} else {
		k = g.str(max, 0.25, 0.2, 0.02)
	}
	if opt.LineOK {
		k = lineSafe(k, false)
	}
	if len(k) > max || k == "" {
		k = g.exact(1 + g.r.Intn(minInt(max, 3)))
	}
	return k
}

func (g *Gen) tagValue(lim Limits, opt genOpt) string {
	max := capOr(lim.TagValue, 30)
	v := g.str(max, 0.2, 0.2, 0.02)
	if opt.LineOK {
		v = lineSafe(v, false)
	}
	if len(v) > max || v == "" {
		v = g.exact(1 + g.r.Intn(minInt(max, 4)))
	}
	return v
}

func (g *Gen) tags(env *Env, opt genOpt) []Tag {
	lim := env.Lim
	room := 40
	if lim.TagsPerMetric > 0 {
		room = lim.TagsPerMetric - len(env.Enriched)
		if room < 0 {
			room = 0
		}
	}
	var n int
	switch p := g.r.Intn(100); {
	case p < 10:
		n = 0
	case p < 55:
		n = 1 + g.r.Intn(4)
	case p < 82:
		n = 5 + g.r.Intn(8)
	case p < 96:
		n = 13 + g.r.Intn(16)
	default:
		n = 29 + g.r.Intn(4)
	}
	if opt.MaxTags > 0 && n > opt.MaxTags {
		n = g.r.Intn(opt.MaxTags + 1)
	}
	if n > room {
		n = room
	}
	var tags []Tag
	used := map[string]bool{}
	for len(tags) < n {
		k := g.tagKey(lim, opt)
		if used[k] && g.r.Intn(4) != 0 { // duplicates are injected deliberately below, keep accidental ones rarer
			k = g.tagKey(lim, opt)
		}
		used[k] = true
		tags = append(tags, Tag{K: k, V: g.tagValue(lim, opt)})
	}
	// duplicate keys: same value or a conflicting one, at a random position
	if len(tags) > 0 && len(tags) < room && g.r.Intn(4) == 0 {
		dups := 1 + g.r.Intn(2)
		for d := 0; d < dups && len(tags) < room; d++ {
			src := tags[g.r.Intn(len(tags))]
			nt := Tag{K: src.K, V: src.V}
			if g.r.Intn(2) == 0 {
				nt.V = g.tagValue(lim, opt)
			}
			pos := g.r.Intn(len(tags) + 1)
			tags = append(tags, Tag{})
			copy(tags[pos+1:], tags[pos:])
			tags[pos] = nt
		}
	}
	g.r.Shuffle(len(tags), func(i, j int) { tags[i], tags[j] = tags[j], tags[i] })
	return tags
}

func (g *Gen) name(lim Limits, opt genOpt) string {
	max := capOr(lim.Name, 30)
	var s string
	switch g.r.Intn(6) {
	case 0:
		s = []string{"cpu", "mem.used", "disk|io", "net-rx", "a", "系统.cpu"}[g.r.Intn(6)]
	case 1:
		s = g.str(max, 0.3, 0.2, 0.02)
	default:
		s = "m" + strconv.Itoa(g.r.Intn(50)) + g.str(6, 0.1, 0.1, 0)
	}
	if opt.LineOK {
		s = lineSafe(s, true)
	}
	if len(s) > max || s == "" {
		s = g.exact(1 + g.r.Intn(minInt(max, 6)))
	}
	return s
}

// fmtLit renders a float so that strconv.ParseFloat gives back the same bits.
func fmtLit(v float64) string {
	s := strconv.FormatFloat(v, 'g', -1, 64)
	return s
}

// expandLine is the specification of how one key=literal pair of a line becomes simple fields:
// integer (i/u suffix), boolean and float literals; the type comes from the key suffix, a key without a
// recognised suffix yields a _sum and a _last field; anything else (strings, garbage) is not representable
// and the pair is dropped.
func expandLine(f LineField) (fields []SField, dropped bool) {
	key, lit := f.Key, f.Lit
	if lit == "" || key == "" {
		return nil, true
	}
	mk := func(v float64) []SField {
		switch {
		case strings.HasSuffix(key, "last"):
			return []SField{{Name: key, Type: 1, Value: v}}
		case strings.HasSuffix(key, "first"):
			return []SField{{Name: key, Type: 5, Value: v}}
		case strings.HasSuffix(key, "sum"):
			return []SField{{Name: key, Type: 2, Value: v}}
		}
		return []SField{{Name: key + "_sum", Type: 2, Value: v}, {Name: key + "_last", Type: 1, Value: v}}
	}
	switch lit {
	case "t", "T", "true", "True", "TRUE":
		return []SField{{Name: key, Type: 1, Value: 1}}, false
	case "f", "F", "false", "False", "FALSE":
		return []SField{{Name: key, Type: 1, Value: 0}}, false
	}
	switch lit[len(lit)-1] {
	case 'i', 'I', 'u', 'U':
		v, err := strconv.ParseInt(lit[:len(lit)-1], 10, 64)
		if err != nil {
			return nil, true
		}
		return mk(float64(v)), false
	case 't', 'T', 'f', 'F':
		return nil, true
	}
	v, err := strconv.ParseFloat(lit, 64)
	if err != nil {
		return nil, true
	}
	return mk(v), false
}

func (g *Gen) lineFields(lim Limits, n int) []LineField {
	maxName := capOr(lim.FieldName, 24)
	var out []LineField
	for i := 0; i < n; i++ {
		suffix := []string{"_sum", "_last", "_first", "sum", "last", "", "", "_max", "_sum"}[g.r.Intn(9)]
		room := maxName - len(suffix)
		if suffix == "" || suffix == "_max" {
			room = maxName - len(suffix) - 5 // the expansion appends _sum/_last
		}
		if room < 1 {
			suffix = "sum"
			room = maxName - 3
		}
		base := lineSafe(g.str(minInt(room, 10), 0.15, 0.15, 0), false)
		if strings.TrimSpace(base) == "" || len(base) > room {
			base = g.exact(1 + g.r.Intn(minInt(room, 4)))
		}
		if g.r.Intn(12) == 0 {
			base = []string{"Histogram", "__bucket_"}[g.r.Intn(2)] + base
			if len(base) > room {
				base = g.exact(minInt(room, 3))
			}
		}
		key := base + suffix
		var lit string
		switch p := g.r.Intn(100); {
		case p < 43:
			lit = fmtLit(g.value())
		case p < 55:
			lit = g.numericForm()
		case p < 75:
			lit = strconv.Itoa(g.r.Intn(1_000_000)-5000) + []string{"i", "u", "I", "U"}[g.r.Intn(4)]
		case p < 90:
			lit = []string{"t", "T", "true", "True", "TRUE", "f", "F", "false", "False", "FALSE"}[g.r.Intn(10)]
		case p < 95:
			lit = `"str"` // string field: not representable, dropped
		default:
			lit = fmtLit(float64(g.r.Intn(100)))
		}
		out = append(out, LineField{Key: key, Lit: lit})
	}
	return out
}

// numericForm returns an unusual spelling of a number. Line protocol integers (i/u suffix) are decimal, optionally signed
// and zero padded; anything else (base prefixes, underscores, overflow) is not a representable value and the pair is
// dropped. Floats are decimal with optional sign, exponent, leading or trailing dot.
func (g *Gen) numericForm() string {
	suffix := []string{"i", "u", "I", "U"}[g.r.Intn(4)]
	switch g.r.Intn(5) {
	case 0: // zero padded, digits 0-7 only
		return []string{"010", "0012", "00", "0777", "000017", "-0012", "-010", "+010", "01234567"}[g.r.Intn(9)] + suffix
	case 1: // zero padded with 8 / 9
		return []string{"08", "0009", "0189", "-0098", "+09", "00080"}[g.r.Intn(6)] + suffix
	case 2: // random padded / signed decimal
		n := strconv.Itoa(g.r.Intn(100000))
		return []string{"", "-", "+"}[g.r.Intn(3)] + strings.Repeat("0", g.r.Intn(4)) + n + suffix
	case 3: // not decimal: must be dropped
		return []string{"0x10", "0X1F", "0b11", "0B101", "0o17", "0O7", "1_000", "0_1", "0x_1f", "9223372036854775808", "-9223372036854775809", "--5", "1e3", "1.0"}[g.r.Intn(14)] + suffix
	}
	// floats
	return []string{"1e3", "1E-2", "+1.5", "-.5", ".5", "5.", "1e+06", "-0.0", "+0", "1e999", "-1e999", "1_0.5", "2.5E+3", "00012.50", "-007", "1e-400", "0e0"}[g.r.Intn(17)]
}

func (g *Gen) simpleFields(lim Limits, n int) []SField {
	maxName := capOr(lim.FieldName, 24)
	var out []SField
	for i := 0; i < n; i++ {
		var name string
		switch g.r.Intn(8) {
		case 0:
			name = "Histogram" + g.str(4, 0, 0, 0)
		case 1:
			name = "__bucket_" + g.str(4, 0, 0, 0)
		case 2:
			name = g.str(maxName, 0.25, 0.2, 0.02)
		default:
			name = []string{"f", "count", "v", "lat", "值"}[g.r.Intn(5)] + strconv.Itoa(g.r.Intn(30))
		}
		if len(name) > maxName || name == "" {
			name = g.exact(1 + g.r.Intn(minInt(maxName, 5)))
		}
		out = append(out, SField{Name: name, Type: 1 + g.r.Intn(5), Value: g.value()})
	}
	return out
}

func (g *Gen) compound() *Compound {
	n := 3 + g.r.Intn(6)
	c := &Compound{}
	b := 0.0
	for i := 0; i < n-1; i++ {
		if g.r.Intn(5) != 0 { // equal neighbouring bounds are allowed
			b += float64(1+g.r.Intn(50)) / 2
		}
		c.Bounds = append(c.Bounds, b)
		c.Values = append(c.Values, float64(g.r.Intn(1000)))
	}
	c.Bounds = append(c.Bounds, math.Inf(1))
	c.Values = append(c.Values, float64(g.r.Intn(10)))
	c.Min, c.Max = float64(g.r.Intn(5)), float64(5+g.r.Intn(500))
	c.Count = float64(g.r.Intn(100000))
	c.Sum = c.Count * 1.5
	return c
}

var injectionsAll = []string{
	"empty-name", "name-too-long", "name-at-limit", "no-fields", "empty-tag-key", "empty-tag-value",
	"tag-key-too-long", "tag-key-at-limit", "tag-value-too-long", "tag-value-at-limit",
	"too-many-tags", "tags-at-limit", "too-many-fields", "fields-at-limit",
	"field-name-too-long", "field-name-at-limit", "empty-field-name", "nan", "+inf", "-inf", "ts-zero",
	"own-namespace", "own-namespace-too-long",
	"line-ts-zero-padded", "line-ts-zero-padded", "line-ts-plus-sign", "line-ts-not-decimal",
}

var injectionsBinaryOnly = []string{ // not expressible in line protocol
	"nil-tag", "nil-field", "field-type-unspecified", "field-type-unknown",
	"hist-len-mismatch-bound", "hist-len-mismatch-value", "hist-0-buckets", "hist-1-bucket", "hist-2-buckets",
	"hist-negative", "hist-decreasing", "hist-last-not-inf", "hist-nan-mmsc", "hist-nan-value", "hist-inf-value",
	"hist-nan-bound", "hist-inf-mmsc", "flat-omit-name",
}

// metric generates one abstract metric. ts is assigned by the caller.
func (g *Gen) metric(env *Env, opt genOpt) *Metric {
	g.uid++
	m := &Metric{UID: g.uid, NilTag: -1, NilField: -1}
	lim := env.Lim
	m.Name = g.name(lim, opt)
	m.Tags = g.tags(env, opt)
	nf := 1 + g.r.Intn(3)
	if g.r.Intn(12) == 0 {
		nf = 4 + g.r.Intn(6)
	}
	uidFields := 0
	if opt.WithUID {
		uidFields = 1
	}
	if lim.FieldsPerMetric > 0 {
		// a line pair may expand to two fields
		room := lim.FieldsPerMetric - uidFields
		if opt.LineOK {
			room /= 2
		}
		if nf > room {
			nf = room
		}
		if nf < 0 {
			nf = 0
		}
	}
	if opt.LineOK {
		m.Line = []LineField{}
		if opt.WithUID {
			m.Line = append(m.Line, LineField{Key: "uid_sum", Lit: strconv.FormatInt(m.UID, 10) + "i"})
		}
		if nf == 0 && !opt.WithUID {
			nf = 1
		}
		m.Line = append(m.Line, g.lineFields(lim, nf)...)
		g.syncFromLine(m)
		if len(m.Fields) == 0 { // every pair was a dropped one: add a representable pair
			m.Line = append(m.Line, LineField{Key: "v_sum", Lit: "1"})
			g.syncFromLine(m)
		}
	} else {
		if opt.WithUID {
			m.Fields = append(m.Fields, SField{Name: "uid_sum", Type: 2, Value: float64(m.UID)})
		}
		withCompound := g.r.Intn(4) == 0
		if withCompound && g.r.Intn(3) == 0 && !opt.WithUID {
			nf = 0 // histogram only
		} else if nf == 0 && !opt.WithUID {
			nf = 1
		}
		m.Fields = append(m.Fields, g.simpleFields(lim, nf)...)
		if withCompound {
			m.Compound = g.compound()
		}
	}
	if !opt.NoInject {
		if p := g.r.Intn(100); p < 38 {
			g.inject(m, env, opt)
			if p < 4 {
				g.inject(m, env, opt)
			}
		}
	}
	if m.Line != nil {
		// a pair without a key ends the field scan of the line parser: keep such a pair last so that the line and the
		// abstract metric describe the same fields
		var keyed, unkeyed []LineField
		for _, lf := range m.Line {
			if lf.Key == "" {
				unkeyed = append(unkeyed, lf)
			} else {
				keyed = append(keyed, lf)
			}
		}
		if len(unkeyed) > 0 {
			m.Line = append(keyed, unkeyed[:1]...)
			g.syncFromLine(m)
		}
	}
	return m
}

func (g *Gen) syncFromLine(m *Metric) {
	m.Fields = m.Fields[:0]
	for _, lf := range m.Line {
		fs, dropped := expandLine(lf)
		if !dropped {
			m.Fields = append(m.Fields, fs...)
		}
	}
}

func (g *Gen) inject(m *Metric, env *Env, opt genOpt) {
	lim := env.Lim
	list := injectionsAll
	if !opt.LineOK && g.r.Intn(2) == 0 {
		list = injectionsBinaryOnly
	}
	kind := list[g.r.Intn(len(list))]
	over := func(limit int) int {
		if limit > 0 {
			return limit + 1 + g.r.Intn(2)*g.r.Intn(4)
		}
		return 300 + g.r.Intn(50)
	}
	applied := true
	switch kind {
	case "empty-name":
		m.Name = ""
	case "name-too-long":
		m.Name = g.exact(over(lim.Name))
	case "name-at-limit":
		if lim.Name > 0 {
			m.Name = g.exact(lim.Name)
		} else {
			applied = false
		}
	case "no-fields":
		if opt.WithUID {
			applied = false
			break
		}
		m.Fields, m.Compound = nil, nil
		if opt.LineOK {
			m.Line = []LineField{}
		}
	case "empty-tag-key":
		m.Tags = append(m.Tags, Tag{K: "", V: "v"})
		g.r.Shuffle(len(m.Tags), func(i, j int) { m.Tags[i], m.Tags[j] = m.Tags[j], m.Tags[i] })
	case "empty-tag-value":
		m.Tags = append(m.Tags, Tag{K: "ek", V: ""})
		g.r.Shuffle(len(m.Tags), func(i, j int) { m.Tags[i], m.Tags[j] = m.Tags[j], m.Tags[i] })
	case "tag-key-too-long", "tag-key-at-limit", "tag-value-too-long", "tag-value-at-limit":
		if len(m.Tags) == 0 {
			m.Tags = append(m.Tags, Tag{K: "k", V: "v"})
		}
		i := g.r.Intn(len(m.Tags))
		switch kind {
		case "tag-key-too-long":
			m.Tags[i].K = g.exact(over(lim.TagName))
		case "tag-key-at-limit":
			if lim.TagName > 0 {
				m.Tags[i].K = g.exact(lim.TagName)
			}
		case "tag-value-too-long":
			m.Tags[i].V = g.exact(over(lim.TagValue))
		case "tag-value-at-limit":
			if lim.TagValue > 0 {
				m.Tags[i].V = g.exact(lim.TagValue)
			}
		}
	case "too-many-tags", "tags-at-limit":
		if lim.TagsPerMetric <= 0 {
			applied = false
			break
		}
		want := lim.TagsPerMetric - len(env.Enriched)
		if kind == "too-many-tags" {
			want++
		}
		// distinct keys so that the count is the same before and after de-duplication
		m.Tags = m.Tags[:0]
		for i := 0; i < want; i++ {
			k := "t" + strconv.Itoa(i)
			if lim.TagName > 0 && len(k) > lim.TagName {
				k = k[len(k)-lim.TagName:]
			}
			m.Tags = append(m.Tags, Tag{K: k, V: g.tagValue(lim, opt)})
		}
		g.r.Shuffle(len(m.Tags), func(i, j int) { m.Tags[i], m.Tags[j] = m.Tags[j], m.Tags[i] })
	case "too-many-fields", "fields-at-limit":
		if lim.FieldsPerMetric <= 0 || lim.FieldsPerMetric > 300 {
			applied = false
			break
		}
		want := lim.FieldsPerMetric
		if kind == "too-many-fields" {
			want++
		}
		if opt.LineOK {
			for len(m.Fields) < want {
				m.Line = append(m.Line, LineField{Key: "x" + strconv.Itoa(len(m.Line)) + "_sum", Lit: "1"})
				g.syncFromLine(m)
			}
			for len(m.Fields) > want && len(m.Line) > 1 {
				m.Line = m.Line[:len(m.Line)-1]
				g.syncFromLine(m)
			}
			if len(m.Fields) != want {
				applied = false
			}
		} else {
			for len(m.Fields) < want {
				m.Fields = append(m.Fields, SField{Name: "x" + strconv.Itoa(len(m.Fields)), Type: 1 + g.r.Intn(5), Value: g.value()})
			}
			m.Fields = m.Fields[:want]
		}
	case "field-name-too-long", "field-name-at-limit", "empty-field-name":
		if opt.LineOK {
			var key string
			switch kind {
			case "field-name-too-long":
				key = g.exact(over(lim.FieldName)-3) + "sum"
			case "field-name-at-limit":
				if lim.FieldName < 4 {
					applied = false
				}
				key = g.exact(maxInt(lim.FieldName-3, 1)) + "sum"
			default:
				key = ""
			}
			if applied {
				m.Line = append(m.Line, LineField{Key: key, Lit: "2"})
				g.syncFromLine(m)
				if key == "" {
					// an empty key is not a representable pair: the pair is dropped, the metric stays valid
					kind = "line-empty-field-key"
				}
			}
		} else {
			var name string
			switch kind {
			case "field-name-too-long":
				name = g.exact(over(lim.FieldName))
			case "field-name-at-limit":
				if lim.FieldName <= 0 {
					applied = false
				}
				name = g.exact(maxInt(lim.FieldName, 1))
			}
			if applied {
				m.Fields = append(m.Fields, SField{Name: name, Type: 2, Value: 1})
			}
		}
	case "nan", "+inf", "-inf":
		v := map[string]float64{"nan": math.NaN(), "+inf": math.Inf(1), "-inf": math.Inf(-1)}[kind]
		if opt.LineOK {
			lit := map[string]string{"nan": "NaN", "+inf": "Infinity", "-inf": "-Infinity"}[kind]
			m.Line = append(m.Line, LineField{Key: "bad_sum", Lit: lit})
			g.syncFromLine(m)
		} else {
			m.Fields = append(m.Fields, SField{Name: "bad", Type: 1 + g.r.Intn(5), Value: v})
			g.r.Shuffle(len(m.Fields), func(i, j int) { m.Fields[i], m.Fields[j] = m.Fields[j], m.Fields[i] })
		}
	case "ts-zero":
		m.TS = -1 // marker, resolved by the caller (at most one per batch)
	case "line-ts-zero-padded", "line-ts-plus-sign", "line-ts-not-decimal":
		if !opt.LineOK {
			applied = false
			break
		}
		switch kind {
		case "line-ts-zero-padded":
			m.LineTSForm = []string{"pad1", "pad3"}[g.r.Intn(2)]
		case "line-ts-plus-sign":
			m.LineTSForm = "plus"
		default:
			m.LineTSForm = []string{"hex", "bin", "oct", "underscore"}[g.r.Intn(4)]
		}
	case "own-namespace":
		m.NS = g.str(capOr(lim.NS, 12), 0.2, 0.2, 0)
		if g.r.Intn(3) == 0 {
			m.NS = "o|" + g.exact(2)
		}
		if lim.NS > 0 && len(m.NS) > lim.NS {
			m.NS = g.exact(lim.NS)
		}
	case "own-namespace-too-long":
		m.NS = g.exact(over(lim.NS))
	case "nil-tag":
		m.NilTag = g.r.Intn(len(m.Tags) + 1)
	case "nil-field":
		m.NilField = g.r.Intn(len(m.Fields) + 1)
	case "field-type-unspecified", "field-type-unknown":
		if len(m.Fields) == 0 || (opt.WithUID && len(m.Fields) == 1) {
			m.Fields = append(m.Fields, SField{Name: "tt", Type: 1, Value: 1})
		}
		i := len(m.Fields) - 1
		if kind == "field-type-unspecified" {
			m.Fields[i].Type = 0
		} else {
			m.Fields[i].Type = 6 + g.r.Intn(100)
		}
	case "flat-omit-name":
		m.FlatOmitName = true
	default: // histogram injections
		if !strings.HasPrefix(kind, "hist-") {
			panic("unknown injection " + kind)
		}
		already := false
		for _, s := range m.Inject {
			if strings.HasPrefix(s, "hist-") {
				already = true
			}
		}
		if already {
			applied = false
			break
		}
		if m.Compound == nil {
			m.Compound = g.compound()
		}
		c := m.Compound
		n := len(c.Values)
		switch kind {
		case "hist-len-mismatch-bound":
			c.Bounds = append(c.Bounds, math.Inf(1))
		case "hist-len-mismatch-value":
			c.Values = append(c.Values, 7)
		case "hist-0-buckets":
			c.Values, c.Bounds = nil, nil
		case "hist-1-bucket":
			c.Values, c.Bounds = []float64{3}, []float64{math.Inf(1)}
		case "hist-2-buckets":
			c.Values, c.Bounds = []float64{3, 4}, []float64{10, math.Inf(1)}
		case "hist-negative":
			switch g.r.Intn(6) {
			case 0:
				c.Min = -1
			case 1:
				c.Max = -0.5
			case 2:
				c.Sum = -3
			case 3:
				c.Count = -1
			case 4:
				c.Values[g.r.Intn(n)] = -2
			default:
				c.Bounds[0] = -1
			}
		case "hist-decreasing":
			i := 1 + g.r.Intn(n-2)
			c.Bounds[i] = c.Bounds[i-1] - 0.25
			if c.Bounds[i] < 0 {
				c.Bounds[i-1] = 5
				c.Bounds[i] = 4
				for j := i + 1; j < n-1; j++ {
					c.Bounds[j] = 6 + float64(j)
				}
			}
		case "hist-last-not-inf":
			c.Bounds[n-1] = c.Bounds[n-2] + 100
		case "hist-nan-mmsc":
			switch g.r.Intn(4) {
			case 0:
				c.Min = math.NaN()
			case 1:
				c.Max = math.NaN()
			case 2:
				c.Sum = math.NaN()
			default:
				c.Count = math.NaN()
			}
		case "hist-nan-value":
			c.Values[g.r.Intn(n)] = math.NaN()
		case "hist-inf-value":
			c.Values[g.r.Intn(n)] = math.Inf(1)
		case "hist-nan-bound":
			c.Bounds[g.r.Intn(n-1)] = math.NaN()
		case "hist-inf-mmsc": // +Inf sum/count/min/max are >= 0: accepted by every path, stays valid
			c.Sum = math.Inf(1)
		}
	}
	if applied {
		m.Inject = append(m.Inject, kind)
	}
}

func maxInt(a, b int) int {
	if a > b {
		return a
	}
	return b
}

// featureKey summarises what makes a case distinct (the "distinct non-trivial" rule of the evidence).
func featureKey(phase string, m *Metric, env *Env, extra string) string {
	dup, conflict := false, false
	seen := map[string]string{}
	esc, uni := false, false
	for _, t := range m.Tags {
		if v, ok := seen[t.K]; ok {
			dup = true
			if v != t.V {
				conflict = true
			}
		}
		seen[t.K] = t.V
		if strings.ContainsAny(t.K+t.V, ", =\\\"|") {
			esc = true
		}
		for _, r := range t.K + t.V {
			if r > 127 {
				uni = true
			}
		}
	}
	types := map[int]bool{}
	for _, f := range m.Fields {
		types[f.Type] = true
	}
	tb := len(m.Tags)
	switch {
	case tb > 12:
		tb = 13 + (tb-13)/10
	case tb > 4:
		tb = 5
	}
	return fmt.Sprintf("%s|lim=%s|tags=%d|dup=%t/%t|esc=%t|uni=%t|ftypes=%d|hist=%t|line=%t|enr=%t|inj=%s|%s",
		phase, env.Lim.Profile, tb, dup, conflict, esc, uni, len(types), m.Compound != nil, m.Line != nil, len(env.Enriched) > 0,
		strings.Join(m.Inject, "+"), extra)
}
