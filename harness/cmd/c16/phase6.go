package main

// Phase "sequence": request sequences through the real Parse functions on one goroutine (GOMAXPROCS=1, so sync.Pool hands
// the same ChunkReader / RowBuilder / flat decoder / protobuf converter / gzip reader / bufio reader / BrokerBatchRows to
// the next request). A well-formed request B is run alone (after a drained well-formed request), then again after a
// disturbing request A (line over 64 KiB, abort by an enriched tag with an empty value, broken or truncated gzip, body
// read error, garbage, oversize/truncated flat stream, ...). Oracle: "B after A == B alone" - same error, same accepted
// rows in the same order, nothing of A - and B's rows are what the specification says.

import (
	"bytes"
	"errors"
	"fmt"
	"io"
	"runtime/debug"
	"strings"
	"time"

	flatbuffers "github.com/google/flatbuffers/go"

	"github.com/lindb/lindb/ingestion/flat"
	"github.com/lindb/lindb/ingestion/influx"
	"github.com/lindb/lindb/ingestion/proto"
	"github.com/lindb/lindb/series/metric"
	"github.com/lindb/lindb/verif/internal/core"
)

type seqRequest struct {
	format   string
	env      *Env
	metrics  []*Metric
	flatIn   [][]byte
	data     []byte
	gz       bool
	rawGz    bool // Content-Encoding: gzip is declared, the body is sent as is (already damaged / not gzip at all)
	errAfter int  // >= 0: the body reader fails after that many bytes
	kind     string
}

type failingReader struct{}

func (failingReader) Read([]byte) (int, error) { return 0, errors.New("connection reset by peer") }

func genSeqRequest(g *Gen, fb *flatbuffers.Builder, format string, rows int) *seqRequest {
	q := &seqRequest{format: format, env: g.env(format == fmtLine), errAfter: -1, kind: "well-formed"}
	if g.r.Intn(4) != 0 {
		q.env.Lim = limitProfiles[0]
	}
	now := time.Now().UnixMilli()
	for len(q.metrics) < rows {
		m := g.metric(q.env, genOpt{LineOK: format == fmtLine, WithUID: true, NoInject: g.r.Intn(5) != 0, MaxTags: 10})
		if m.NilTag >= 0 || m.NilField >= 0 || m.TS == -1 || m.FlatPad > 0 {
			continue
		}
		m.TS = now - int64(60_000+g.r.Intn(3600_000))
		m.finish()
		fi := encodeFlat(fb, m)
		if judge(m, q.env, format, len(fi)).Status == stUnspec || len(fi) > 10*1024 {
			continue
		}
		q.metrics = append(q.metrics, m)
		q.flatIn = append(q.flatIn, fi)
	}
	q.encode()
	q.gz = g.r.Intn(4) == 0
	return q
}

func (q *seqRequest) encode() {
	switch q.format {
	case fmtProto:
		q.data, _ = encodeProtoList(q.metrics)
	case fmtFlat:
		q.data = bytes.Join(q.flatIn, nil)
	default:
		var sb strings.Builder
		for _, m := range q.metrics {
			sb.WriteString(encodeLine(m, precisions[0]))
			sb.WriteByte('\n')
		}
		q.data = []byte(sb.String())
	}
}

var disturbances = map[string][]string{
	fmtLine:  {"line-too-long", "line-too-long", "enriched-tag-empty-value", "enriched-tag-empty-value", "gzip-bad-header", "gzip-truncated", "body-read-error", "garbage", "no-trailing-newline", "invalid-lines", "none"},
	fmtFlat:  {"oversize-row", "truncated", "enriched-tag-empty-value", "gzip-bad-header", "gzip-truncated", "body-read-error", "garbage", "empty-body", "none"},
	fmtProto: {"truncated", "enriched-tag-empty-value", "gzip-bad-header", "gzip-truncated", "body-read-error", "garbage", "empty-body", "none"},
}

func gzipBytes(b []byte) []byte {
	req := newRequest(b, true, "")
	out, _ := io.ReadAll(req.Body)
	return out
}

// disturb turns a well-formed request into one that ends early or in an error.
func disturb(g *Gen, fb *flatbuffers.Builder, q *seqRequest) {
	kinds := disturbances[q.format]
	q.kind = kinds[g.r.Intn(len(kinds))]
	switch q.kind {
	case "line-too-long":
		lines := strings.SplitAfter(string(q.data), "\n")
		at := g.r.Intn(len(lines))
		long := "big,a=" + strings.Repeat("x", 64*1024+g.r.Intn(9000)) + " v=1 1790000000000\n"
		q.data = []byte(strings.Join(lines[:at], "") + long + strings.Join(lines[at:], ""))
		q.gz = false
	case "enriched-tag-empty-value":
		q.env.Enriched = append(q.env.Enriched, Tag{K: "tenant", V: ""})
	case "gzip-bad-header":
		q.gz, q.rawGz = false, true
	case "gzip-truncated":
		z := gzipBytes(q.data)
		q.data = z[:len(z)*(3+g.r.Intn(6))/10]
		q.gz, q.rawGz = false, true
	case "body-read-error":
		q.errAfter = len(q.data) * (2 + g.r.Intn(7)) / 10
		q.gz = false
	case "garbage":
		b := make([]byte, 40+g.r.Intn(3000))
		g.r.Read(b)
		q.data = b
	case "no-trailing-newline":
		q.data = bytes.TrimRight(q.data, "\n")
	case "invalid-lines":
		q.data = []byte("no fields here\n,=,=\ncpu,a v=1\n" + string(q.data[:len(q.data)/2]))
	case "oversize-row":
		m := q.metrics[g.r.Intn(len(q.metrics))].clone()
		m.FlatPad = 10*1024 + g.r.Intn(3000)
		at := g.r.Intn(len(q.flatIn) + 1)
		in := append([][]byte(nil), q.flatIn[:at]...)
		in = append(in, encodeFlat(fb, m))
		in = append(in, q.flatIn[at:]...)
		q.data = bytes.Join(in, nil)
	case "truncated":
		if len(q.data) > 8 {
			q.data = q.data[:len(q.data)-1-g.r.Intn(len(q.data)/2)]
		}
	case "empty-body":
		q.data = nil
	}
}

type seqOutcome struct {
	err      string
	rows     []*Row
	panicked string
	batch    *metric.BrokerBatchRows
}

// signature renders the outcome of a request for the "after == alone" comparison. A key given with several different
// values (in the metric and/or the enriched tags) may legitimately resolve to any of them - the line parser feeds the
// tags in map iteration order into an unstable sort - so the value of such a key is left out.
func (o *seqOutcome) signature(q *seqRequest) string {
	conflicted := map[int64]map[string]bool{}
	for _, m := range q.metrics {
		vals := map[string]string{}
		for _, t := range append(append([]Tag(nil), m.Tags...), q.env.Enriched...) {
			if v, ok := vals[t.K]; ok && v != t.V {
				if conflicted[m.UID] == nil {
					conflicted[m.UID] = map[string]bool{}
				}
				conflicted[m.UID][t.K] = true
			}
			vals[t.K] = t.V
		}
	}
	var sb strings.Builder
	fmt.Fprintf(&sb, "err=%s|panic=%s|rows=%d", o.err, o.panicked, len(o.rows))
	for _, r := range o.rows {
		c := *r
		if keys := conflicted[uidOfRow(r)]; keys != nil {
			c.Tags = append([]Tag(nil), r.Tags...)
			for i := range c.Tags {
				if keys[c.Tags[i].K] {
					c.Tags[i].V = "<one of the given values>"
				}
			}
		}
		sb.WriteString("\n")
		sb.WriteString(showRow(&c))
	}
	return sb.String()
}

func (q *seqRequest) run() (o *seqOutcome) {
	o = &seqOutcome{}
	defer func() {
		if p := recover(); p != nil {
			o.panicked = fmt.Sprintf("%v in %s", p, panicSite(string(debug.Stack())))
		}
	}()
	req := newRequest(q.data, q.gz, "precision=ms")
	if q.rawGz {
		req.Header.Set("Content-Encoding", "gzip")
	}
	if q.errAfter >= 0 {
		req.Body = io.NopCloser(io.MultiReader(bytes.NewReader(q.data[:q.errAfter]), failingReader{}))
	}
	lim, enriched, ns := toModelsLimits(q.env.Lim), toTagTags(q.env.Enriched), heapString(q.env.ReqNS)
	var err error
	switch q.format {
	case fmtLine:
		o.batch, err = influx.Parse(req, enriched, ns, lim)
	case fmtFlat:
		o.batch, err = flat.Parse(req, enriched, ns, lim)
	default:
		o.batch, err = proto.Parse(req, enriched, ns, lim)
	}
	if err != nil {
		o.err = err.Error()
	}
	if o.batch != nil {
		for i := range o.batch.Rows() {
			o.rows = append(o.rows, rowFromFlat(o.batch.Rows()[i].Metric()))
		}
	}
	return o
}

// finish does what the http handler / ChannelManager do with the batch: written and released when there was no
// error, abandoned otherwise.
func (o *seqOutcome) finish() {
	if o.batch != nil && o.err == "" {
		o.batch.Release()
	}
}

func runSequence(c *core.Ctx, r *rec, idx int) {
	g := &Gen{r: c.Rand(fmt.Sprintf("sequence-%d", idx)), uid: 5_000_000_000 + int64(idx)*10_000_000}
	fb := flatbuffers.NewBuilder(2048)
	formats := []string{fmtLine, fmtLine, fmtFlat, fmtProto}
	rounds := c.Pick(500, 6000)
	for k := 0; k < rounds && !r.giveUp(); k++ {
		fB := formats[g.r.Intn(len(formats))]
		fA := fB
		if g.r.Intn(4) == 0 {
			fA = formats[g.r.Intn(len(formats))]
		}
		b := genSeqRequest(g, fb, fB, 1+g.r.Intn(8))
		a := genSeqRequest(g, fb, fA, 1+g.r.Intn(8))
		disturb(g, fb, a)
		r.Eval(1)
		r.Nontrivial(fmt.Sprintf("sequence|%s-after-%s/%s|gz=%t", fB, fA, a.kind, b.gz))
		// B alone (the previous request on this goroutine was a drained well-formed one)
		alone := b.run()
		alone.finish()
		checkSeqAgainstSpec(r, b, alone, "alone")
		// A, then B again
		oa := a.run()
		oa.finish()
		if oa.panicked != "" {
			r.Violation("C16/"+fA+"-parser-panics/"+strings.SplitN(oa.panicked, " in ", 2)[1], fmt.Sprintf("%s Parse panicked on a %s request: %s", fA, a.kind, oa.panicked),
				map[string]interface{}{"kind": a.kind, "format": fA})
		}
		r.Count("sequence_disturbing_requests/"+fA+"/"+a.kind, 1)
		if oa.err != "" {
			r.Count("sequence_disturbing_requests_ended_in_error", 1)
		}
		after := b.run()
		after.finish()
		if sa, sb := alone.signature(b), after.signature(b); sa != sb {
			foreign := 0
			own := map[int64]bool{}
			for _, m := range b.metrics {
				own[m.UID] = true
			}
			for _, row := range after.rows {
				if !own[uidOfRow(row)] {
					foreign++
				}
			}
			r.Violation("C16/"+fB+"-request-affected-by-previous-request/"+fA+"-"+a.kind,
				fmt.Sprintf("a well-formed %s request gives err=%q with %d rows alone, but err=%q with %d rows (%d of them not sent in it) right after a %s request of kind %s (err=%q): a pooled object carried state over",
					fB, alone.err, len(alone.rows), after.err, len(after.rows), foreign, fA, a.kind, oa.err),
				map[string]interface{}{"request_b": string(trunc(b.data, 2000)), "kind_a": a.kind, "format_a": fA, "format_b": fB, "alone": trunc([]byte(alone.signature(b)), 3000), "after": trunc([]byte(after.signature(b)), 3000),
					"namespace_a": a.env.ReqNS, "namespace_b": b.env.ReqNS})
		} else {
			r.Count("sequence_request_after_disturbance_equals_alone", 1)
			if oa.err != "" {
				r.Count("sequence_request_after_error_request_equals_alone", 1)
			}
			checkSeqAgainstSpec(r, b, after, "after-"+a.kind)
		}
		// drain: a well-formed request so that the next round's "alone" run starts from what a correct tree considers clean
		d := genSeqRequest(g, fb, fB, 1+g.r.Intn(3))
		d.run().finish()
	}
}

func trunc(b []byte, n int) string {
	if len(b) > n {
		return fmt.Sprintf("%q...(%d bytes)", b[:n], len(b))
	}
	return fmt.Sprintf("%q", b)
}

// checkSeqAgainstSpec: the rows of a well-formed request are exactly its accepted metrics, stored as sent.
func checkSeqAgainstSpec(r *rec, q *seqRequest, o *seqOutcome, when string) {
	byUID := map[int64]*Row{}
	own := map[int64]bool{}
	for _, m := range q.metrics {
		own[m.UID] = true
	}
	wit := func(m *Metric) func(map[string]interface{}) map[string]interface{} {
		return func(extra map[string]interface{}) map[string]interface{} {
			w := map[string]interface{}{"format": q.format, "when": when, "metric": m, "limits": q.env.Lim, "request_namespace": q.env.ReqNS, "enriched_tags": q.env.Enriched, "parse_error": o.err}
			for k, v := range extra {
				w[k] = v
			}
			return w
		}
	}
	if o.panicked != "" {
		r.Violation("C16/"+q.format+"-parser-panics/"+strings.SplitN(o.panicked, " in ", 2)[1], "Parse panicked on a well-formed request: "+o.panicked, wit(q.metrics[0])(nil))
		return
	}
	for _, row := range o.rows {
		uid := uidOfRow(row)
		if !own[uid] {
			r.Violation("C16/"+q.format+"-row-from-nowhere", "parsed batch holds a row that matches no metric of the request: "+showRow(row), wit(q.metrics[0])(map[string]interface{}{"row": row}))
			continue
		}
		if byUID[uid] != nil {
			r.Violation("C16/"+q.format+"-row-duplicated", "one metric produced two rows in the parsed batch: "+showRow(row), wit(q.metrics[0])(map[string]interface{}{"row": row}))
			continue
		}
		byUID[uid] = row
	}
	for i, m := range q.metrics {
		ci := caseInfo{m: m, env: q.env, format: q.format, flatSize: len(q.flatIn[i]), mode: "sequence/" + when}
		evalOutcome(r, ci, byUID[m.UID] != nil, byUID[m.UID], o.err, nowBracket{}, wit(m))
	}
}
