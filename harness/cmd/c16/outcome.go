package main

import (
	"fmt"
	"strings"
)

// caseInfo is one metric sent in one format.
type caseInfo struct {
	m             *Metric
	env           *Env
	format        string
	flatSize      int
	mode          string
	flatDesyncing bool // the flat request also carries a row over the decoder's 10 KiB limit
}

// taglessMultiField: a line without tags and with two or more key=value pairs.
func (ci caseInfo) taglessMultiField() bool {
	return ci.format == fmtLine && len(ci.m.Tags) == 0 && len(ci.m.Line) >= 2
}

// evalOutcome applies the per format oracles (validity, "as a whole", canonical content) to one observed outcome.
// It returns true when the row was accepted and is what must be stored (so that routing can be checked on it).
func evalOutcome(r *rec, ci caseInfo, accepted bool, row *Row, errText string, nb nowBracket, wit func(extra map[string]interface{}) map[string]interface{}) bool {
	m, format := ci.m, ci.format
	v := judge(m, ci.env, format, ci.flatSize)
	deviation := func(class, msg string, extra map[string]interface{}) {
		switch {
		case ci.taglessMultiField() && (errText == "" || errText == "<nil>") &&
			(strings.HasSuffix(class, "-rejected-valid") || strings.HasSuffix(class, "-stored-name-differ")): // the line is lost or its name mangled
			class = "C16/influx-tagless-multi-field-line-misparsed"
			msg = "a line without tags and with several fields is cut at the first comma of the field set (the measurement becomes \"name first-field\"): " + msg
		case ci.flatDesyncing && format == fmtFlat && strings.HasSuffix(class, "-rejected-valid"):
			class = "C16/flat-oversize-row-desyncs-stream"
			msg = "the flat request carries a well-formed row over 10 KiB; the decoder rejects it without consuming its bytes and the rest of the stream is misread: " + msg
		}
		r.Violation(class, msg, wit(extra))
	}
	switch {
	case v.Status == stValid && !accepted:
		deviation("C16/"+format+"-rejected-valid", fmt.Sprintf("%s path rejected a valid metric: %s", format, errText), map[string]interface{}{"error": errText})
		return false
	case v.Status == stInvalid && accepted:
		deviation("C16/"+format+"-accepted-invalid/"+v.Reason, fmt.Sprintf("%s path accepted an invalid metric (%s); stored row %s", format, v.Reason, showRow(row)),
			map[string]interface{}{"row": row})
		return false
	case v.Status == stInvalid:
		r.Count("invalid_rejected/"+v.Reason, 1)
		r.Count("invalid_metrics_rejected", 1)
		return false
	case v.Status == stUnspec:
		r.Count(fmt.Sprintf("unspecified_%s_accepted_%t_%s", v.Reason, accepted, format), 1)
		if !accepted {
			return false
		}
	}
	// accepted: well-formed and equal to the canonical row
	if w := wellFormed(row); w != "" {
		deviation("C16/"+format+"-stored-row-malformed", "stored row is not canonical: "+w, map[string]interface{}{"row": row})
		return false
	}
	if v.Status != stValid {
		return false
	}
	e := canonical(m, ci.env, format)
	kind, msg, notLast := compareRow(e, row, nb)
	if kind == "namespace" && format == fmtFlat && m.NS == "" && row.NS == "default-ns" {
		// everything else of the row is as sent (the namespace is compared last)
		r.Violation("C16/flat-request-namespace-ignored",
			fmt.Sprintf("flat row without a namespace sent with request namespace %q is stored in %q: BrokerRowFlatDecoder.rebuild asks readOnlyRow.NameSpace(), which already substitutes the default namespace, so the request namespace is never used", ci.env.ReqNS, row.NS),
			wit(map[string]interface{}{"row": row}))
		kind = ""
	}
	if kind != "" {
		deviation("C16/"+format+"-stored-"+kind+"-differ", fmt.Sprintf("%s path stored a row that differs from what was sent: %s", format, msg), map[string]interface{}{"row": row})
		return false
	}
	r.Count("rows_read_back_and_compared", 1)
	r.Count("rows_read_back_and_compared_"+format, 1)
	if notLast > 0 {
		r.Count("duplicate_key_resolved_to_earlier_value_"+format, notLast)
	}
	for _, t := range e.Tags {
		if len(t.Candidates) > 1 {
			r.Count("duplicate_tag_keys_resolved", 1)
			break
		}
	}
	if m.TS == 0 {
		r.Count("unset_timestamp_replaced_by_now", 1)
	}
	return true
}

// hasConflictingDuplicates: some key is given with two different values (the stored value may be either).
func hasConflictingDuplicates(m *Metric, env *Env) bool {
	seen := map[string]string{}
	for _, t := range append(append([]Tag(nil), m.Tags...), env.Enriched...) {
		if v, ok := seen[t.K]; ok && v != t.V {
			return true
		}
		seen[t.K] = t.V
	}
	return false
}
