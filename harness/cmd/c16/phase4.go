package main

// Phase "fuzz": malformed requests. Valid requests of the three formats are damaged (bytes flipped, inserted, removed,
// separators and escapes injected) and sent through the real Parse functions. Nothing can be said about which metrics
// survive, but whatever is accepted must be a canonical row (sorted unique non-empty tags, series/name hash matching the
// stored content, a name, at least one finite field), the parser must not panic, and the batch must be routable.

import (
	"bytes"
	"fmt"
	"runtime/debug"
	"strings"
	"time"

	flatbuffers "github.com/google/flatbuffers/go"

	"github.com/lindb/lindb/ingestion/flat"
	"github.com/lindb/lindb/ingestion/influx"
	"github.com/lindb/lindb/ingestion/proto"
	"github.com/lindb/lindb/series/metric"
	"github.com/lindb/lindb/verif/internal/core"
)

func runFuzz(c *core.Ctx, r *rec, idx int) {
	g := &Gen{r: c.Rand(fmt.Sprintf("fuzz-%d", idx)), uid: 3_000_000_000 + int64(idx)*10_000_000}
	fb := flatbuffers.NewBuilder(2048)
	n := c.Pick(9000, 60000)
	junk := []string{",", " ", "=", "\\", "\"", "\n", "#", "\\ ", "\\,", "\\=", ",,", "  ", "==", "i", "t", "NaN", "Inf", "|", "\x00", "\xff", "é", "1e999", "-", "=i ", "=u,", "=I "}
	for k := 0; k < n && !r.giveUp(); k++ {
		format := []string{fmtLine, fmtLine, fmtFlat, fmtProto}[g.r.Intn(4)]
		env := g.env(format == fmtLine)
		rows := 1 + g.r.Intn(5)
		now := time.Now().UnixMilli()
		var ms []*Metric
		for i := 0; i < rows; i++ {
			m := g.metric(env, genOpt{LineOK: format == fmtLine, NoInject: g.r.Intn(3) != 0, MaxTags: 10})
			if m.NilTag >= 0 || m.NilField >= 0 {
				i--
				continue
			}
			m.TS = now - int64(g.r.Intn(1000_000))
			m.finish()
			ms = append(ms, m)
		}
		var data []byte
		switch format {
		case fmtLine:
			var sb strings.Builder
			for _, m := range ms {
				sb.WriteString(encodeLine(m, precisions[0]))
				sb.WriteByte('\n')
			}
			data = []byte(sb.String())
		case fmtFlat:
			for _, m := range ms {
				data = append(data, encodeFlat(fb, m)...)
			}
		default:
			var err error
			if data, err = encodeProtoList(ms); err != nil {
				continue
			}
		}
		// damage
		edits := 1 + g.r.Intn(4)
		for e := 0; e < edits && len(data) > 2; e++ {
			pos := g.r.Intn(len(data))
			switch g.r.Intn(4) {
			case 0: // flip
				data[pos] ^= byte(1 << uint(g.r.Intn(8)))
			case 1: // insert junk
				j := junk[g.r.Intn(len(junk))]
				data = append(data[:pos], append([]byte(j), data[pos:]...)...)
			case 2: // delete a short range
				end := pos + 1 + g.r.Intn(4)
				if end > len(data) {
					end = len(data)
				}
				data = append(data[:pos], data[end:]...)
			default: // overwrite with a separator
				data[pos] = []byte{',', ' ', '=', '\\', '\n', 0}[g.r.Intn(6)]
			}
		}
		r.Eval(1)
		r.Nontrivial(fmt.Sprintf("fuzz|%s|rows=%d|edits=%d|lim=%s", format, rows, edits, env.Lim.Profile))
		var batch *metric.BrokerBatchRows
		var err error
		site := ""
		panicked := func() (p interface{}) {
			defer func() {
				if p = recover(); p != nil {
					site = panicSite(string(debug.Stack()))
				}
			}()
			lim, enriched, ns := toModelsLimits(env.Lim), toTagTags(env.Enriched), heapString(env.ReqNS)
			switch format {
			case fmtLine:
				batch, err = influx.Parse(newRequest(data, false, "precision=ms"), enriched, ns, lim)
			case fmtFlat:
				batch, err = flat.Parse(newRequest(data, false, ""), enriched, ns, lim)
			default:
				batch, err = proto.Parse(newRequest(data, false, ""), enriched, ns, lim)
			}
			return nil
		}()
		wit := map[string]interface{}{"format": format, "request_bytes": fmt.Sprintf("%q", data), "limits": env.Lim, "request_namespace": env.ReqNS}
		if panicked != nil {
			r.Violation("C16/"+format+"-parser-panics/"+site, fmt.Sprintf("%s Parse panicked on a damaged request (in %s): %v", format, site, panicked), wit)
			continue
		}
		r.Count("fuzz_requests_"+format, 1)
		if batch == nil {
			r.Count("fuzz_requests_rejected_entirely", 1)
			_ = err
			continue
		}
		for _, br := range batch.Rows() {
			row := rowFromFlat(br.Metric())
			if w := wellFormed(row); w != "" {
				r.Violation("C16/"+format+"-stored-row-malformed", "a damaged request produced a stored row that is not canonical: "+w+" "+showRow(row), wit)
				continue
			}
			if bytes.ContainsAny([]byte(row.Name), "\n") && format == fmtLine {
				r.Violation("C16/influx-stored-row-malformed", "line protocol row with a newline in its name: "+showRow(row), wit)
			}
			r.Count("fuzz_rows_accepted_and_canonical", 1)
		}
		// the accepted rows must be routable: every row in exactly one group
		seen := 0
		it := batch.NewShardGroupIterator(int32(1 + g.r.Intn(16)))
		for it.HasRowsForNextShard() {
			_, fit := it.FamilyRowsForNextShard(10_000)
			for fit.HasNextFamily() {
				_, frows := fit.NextFamily()
				seen += len(frows)
			}
		}
		if seen != batch.Len() {
			pre := false
			for _, br := range batch.Rows() {
				if outOfDomainTS(rowFromFlat(br.Metric()).TS) {
					pre = true
				}
			}
			if pre && seen < batch.Len() {
				r.Violation(preEpochClass, preEpochMsg(fmt.Sprintf("iterators yielded %d rows of a batch of %d (damaged request)", seen, batch.Len())), wit)
			} else {
				r.Violation("C16/iterator-lost-or-duplicated-rows", fmt.Sprintf("iterators yielded %d rows of a batch of %d", seen, batch.Len()), wit)
			}
		}
		batch.Release()
	}
}

// panicSite names the first two lindb frames of a panic stack, e.g. "strutil.ByteSlice2String<-influx.parseField".
func panicSite(stack string) string {
	var frames []string
	for _, line := range strings.Split(stack, "\n") {
		if !strings.HasPrefix(line, "github.com/lindb/lindb/") || strings.HasPrefix(line, "github.com/lindb/lindb/verif/") {
			continue
		}
		fn := line[strings.LastIndex(line, "/")+1:]
		if i := strings.Index(fn, "("); i > 0 && !strings.HasPrefix(fn, "(") {
			fn = fn[:i]
		}
		frames = append(frames, fn)
		if len(frames) == 2 {
			break
		}
	}
	if len(frames) == 0 {
		return "outside-lindb"
	}
	return strings.Join(frames, "<-")
}
