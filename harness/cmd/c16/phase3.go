package main

// Phase "flatstream": framing of the flat stream. A request carries valid rows plus one well-formed row that is larger
// than the decoder's row limit (10 KiB), or is cut in the middle of its last row. "Invalid metrics are rejected as a
// whole ... and nothing else is [dropped]": the other rows of the request must still be accepted.

import (
	"bytes"
	"fmt"
	"time"

	flatbuffers "github.com/google/flatbuffers/go"

	"github.com/lindb/lindb/ingestion/flat"
	"github.com/lindb/lindb/verif/internal/core"
)

func runFlatStream(c *core.Ctx, r *rec, idx int) {
	g := &Gen{r: c.Rand(fmt.Sprintf("flatstream-%d", idx)), uid: 2_000_000_000 + int64(idx)*10_000_000}
	fb := flatbuffers.NewBuilder(2048)
	n := c.Pick(240, 1200)
	for k := 0; k < n && !r.giveUp(); k++ {
		env := &Env{Lim: limitProfiles[0], ReqNS: heapString("ns")}
		rows := 2 + g.r.Intn(8)
		now := time.Now().UnixMilli()
		var ms []*Metric
		var enc [][]byte
		for i := 0; i < rows; i++ {
			m := g.metric(env, genOpt{WithUID: true, NoInject: true, MaxTags: 8})
			m.TS = now - int64(g.r.Intn(1000_000))
			m.finish()
			ms = append(ms, m)
		}
		kind := []string{"oversize-pad", "oversize-tags", "truncated"}[g.r.Intn(3)]
		pos := g.r.Intn(rows)
		switch kind {
		case "oversize-pad":
			ms[pos].FlatPad = 10*1024 + g.r.Intn(4096)
		case "oversize-tags":
			// within the default limits: 24 tags with values of up to 1024 bytes
			ms[pos].Tags = nil
			for t := 0; t < 24; t++ {
				ms[pos].Tags = append(ms[pos].Tags, Tag{K: fmt.Sprintf("k%02d", t), V: g.exact(500 + g.r.Intn(500))})
			}
		}
		for _, m := range ms {
			enc = append(enc, encodeFlat(fb, m))
		}
		data := bytes.Join(enc, nil)
		if kind == "truncated" {
			pos = rows - 1
			cut := 5 + g.r.Intn(len(enc[pos])-6)
			data = data[:len(data)-cut]
		} else if len(enc[pos]) <= 10*1024+4 {
			continue
		}
		r.Eval(1)
		r.Nontrivial(fmt.Sprintf("flatstream|%s|pos=%d/%d", kind, pos, rows))
		batch, err := flat.Parse(newRequest(data, false, ""), nil, heapString("ns"), toModelsLimits(env.Lim))
		got := map[int64]bool{}
		if batch != nil {
			for _, br := range batch.Rows() {
				got[uidOfRow(rowFromFlat(br.Metric()))] = true
			}
			batch.Release()
		}
		lostBefore, lostAfter := 0, 0
		for i, m := range ms {
			if i == pos {
				if got[m.UID] {
					r.Violation("C16/flat-accepted-invalid/"+kind, "a "+kind+" flat row was accepted", map[string]interface{}{"kind": kind, "position": pos, "rows": rows})
				}
				continue
			}
			if !got[m.UID] {
				if i < pos {
					lostBefore++
				} else {
					lostAfter++
				}
			}
		}
		if kind == "truncated" {
			r.Count("flat_streams_truncated", 1)
			if lostBefore > 0 {
				r.Violation("C16/flat-truncated-stream-loses-earlier-rows", fmt.Sprintf("%d complete rows before the cut row were not accepted (error %v)", lostBefore, err),
					map[string]interface{}{"rows": rows, "metrics": ms})
			} else {
				r.Count("flat_truncated_stream_kept_complete_rows", 1)
			}
			continue
		}
		r.Count("flat_streams_with_oversize_row", 1)
		if lostBefore+lostAfter > 0 {
			r.Violation("C16/flat-oversize-row-desyncs-stream",
				fmt.Sprintf("a well-formed flat row of %d bytes (limit 10240) at position %d of %d was rejected without consuming its bytes: %d valid rows before it and %d after it were lost (Parse error: %v)",
					len(enc[pos]), pos, rows, lostBefore, lostAfter, err),
				map[string]interface{}{"kind": kind, "position": pos, "rows": rows, "oversize_row_bytes": len(enc[pos]), "parse_error": fmt.Sprint(err), "metrics": ms})
		} else {
			r.Count("flat_oversize_row_rejected_alone", 1)
		}
	}
}
