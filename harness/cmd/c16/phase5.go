package main

// Phase "reuse": the differential "reused == fresh" oracle for the two pooled row containers.
//
// Storage side: one real metric.StorageBatchRows serves a long sequence of messages, exactly as a localReplicator's
// batchRows serves every replicated message of a shard/family: UnmarshalRows(block) with blocks built by the real
// parsers/converters (varying row counts, so slots are reused, outgrown and left idle; different metrics per slot),
// and between messages the harness mutates the exported per-row state the write path mutates (append to Fields like
// memdb.writeLinField, set MemSeriesID / WrittenFields, leave iterators half consumed, sort the batch by timestamp).
// After every UnmarshalRows each row must be indistinguishable from a FRESH StorageRow unmarshalled from the same bytes.
//
// Broker side: pooled BrokerBatchRows whose rows are (re)filled with FromBlock after earlier lives that were evicted,
// sorted by shard and by family; each row must equal a fresh BrokerRow built from the same block.

import (
	"bytes"
	"fmt"
	"sort"
	"time"

	flatbuffers "github.com/google/flatbuffers/go"

	"github.com/lindb/lindb/ingestion/flat"
	"github.com/lindb/lindb/ingestion/influx"
	"github.com/lindb/lindb/ingestion/proto"
	"github.com/lindb/lindb/series/field"
	"github.com/lindb/lindb/series/metric"
	"github.com/lindb/lindb/verif/internal/core"
)

// realBlocks sends generated metrics through a real Parse and returns the size prefixed block of every accepted row.
func realBlocks(g *Gen, fb *flatbuffers.Builder, n int) [][]byte {
	format := []string{fmtProto, fmtFlat, fmtLine}[g.r.Intn(3)]
	env := g.env(format == fmtLine)
	env.Lim = limitProfiles[0]
	now := time.Now().UnixMilli()
	var ms []*Metric
	for len(ms) < n {
		m := g.metric(env, genOpt{LineOK: format == fmtLine, NoInject: true, MaxTags: 6})
		m.TS = now - int64(g.r.Intn(3*3600_000))
		m.finish()
		ms = append(ms, m)
	}
	var batch *metric.BrokerBatchRows
	lim, ns := toModelsLimits(env.Lim), heapString(env.ReqNS)
	switch format {
	case fmtProto:
		data, err := encodeProtoList(ms)
		if err != nil {
			return nil
		}
		batch, _ = proto.Parse(newRequest(data, false, ""), nil, ns, lim)
	case fmtFlat:
		var data []byte
		for _, m := range ms {
			data = append(data, encodeFlat(fb, m)...)
		}
		batch, _ = flat.Parse(newRequest(data, false, ""), nil, ns, lim)
	default:
		var sb bytes.Buffer
		for _, m := range ms {
			sb.WriteString(encodeLine(m, precisions[0]))
			sb.WriteByte('\n')
		}
		batch, _ = influx.Parse(newRequest(sb.Bytes(), false, "precision=ms"), nil, ns, lim)
	}
	if batch == nil {
		return nil
	}
	var out [][]byte
	for i := range batch.Rows() {
		var buf bytes.Buffer
		if _, err := batch.Rows()[i].WriteTo(&buf); err == nil && buf.Len() > 0 {
			out = append(out, buf.Bytes())
		}
	}
	batch.Release()
	return out
}

func runReuse(c *core.Ctx, r *rec, idx int) {
	g := &Gen{r: c.Rand(fmt.Sprintf("reuse-%d", idx)), uid: 4_000_000_000 + int64(idx)*10_000_000}
	fb := flatbuffers.NewBuilder(2048)
	nSeq := c.Pick(60, 600)
	for s := 0; s < nSeq && !r.giveUp(); s++ {
		storageReuseSequence(g, fb, r, 8+g.r.Intn(30))
		brokerReuseSequence(g, fb, r, 6+g.r.Intn(12))
	}
}

func storageReuseSequence(g *Gen, fb *flatbuffers.Builder, r *rec, messages int) {
	batch := metric.NewStorageBatchRows() // one per replicator, reused for every message
	maxRows := 0
	for msg := 0; msg < messages; msg++ {
		n := 1 + g.r.Intn(12)
		if g.r.Intn(6) == 0 {
			n = 20 + g.r.Intn(40)
		}
		blocks := realBlocks(g, fb, n)
		if len(blocks) == 0 {
			continue
		}
		block := bytes.Join(blocks, nil)
		batch.UnmarshalRows(block)
		r.Eval(1)
		wit := func(i int, fresh *Row) map[string]interface{} {
			return map[string]interface{}{"message_index": msg, "rows_in_message": len(blocks), "slot": i, "largest_earlier_message": maxRows, "fresh_row": fresh}
		}
		if batch.Len() != len(blocks) || len(batch.Rows()) != len(blocks) {
			r.Violation("C16/reused-storage-row-differs-from-fresh/batch-len", fmt.Sprintf("UnmarshalRows of a block of %d rows gives Len()=%d, %d rows", len(blocks), batch.Len(), len(batch.Rows())), wit(-1, nil))
			continue
		}
		for i, sr := range batch.Rows() {
			var fresh metric.StorageRow
			fresh.Unmarshal(blocks[i][flatbuffers.SizeUOffsetT:])
			want, _ := rowFromStorage(&fresh)
			reusedSlot := i < maxRows
			if len(sr.Fields) != 0 {
				r.Violation("C16/reused-storage-row-differs-from-fresh/fields-not-empty",
					fmt.Sprintf("after UnmarshalRows the reused StorageRow of slot %d (metric %q) still lists %d new field metas %v of an earlier row; a fresh row has none (the metadata worker would register them for this metric)", i, want.Name, len(sr.Fields), sr.Fields),
					wit(i, want))
				continue
			}
			if sr.MemSeriesID != 0 || sr.WrittenFields != 0 {
				r.Violation("C16/reused-storage-row-differs-from-fresh/write-state", fmt.Sprintf("after UnmarshalRows slot %d has MemSeriesID=%d WrittenFields=%v, a fresh row has 0/0", i, sr.MemSeriesID, sr.WrittenFields), wit(i, want))
				continue
			}
			got, problem := rowFromStorage(sr)
			if problem != "" {
				r.Violation("C16/reused-storage-row-differs-from-fresh/iterator", "readers of a reused StorageRow: "+problem, wit(i, want))
				continue
			}
			if d := sameRow(want, got, false); d != "" {
				r.Violation("C16/reused-storage-row-differs-from-fresh/content", fmt.Sprintf("slot %d read through a reused StorageRow differs from a fresh one over the same bytes: %s", i, d), wit(i, want))
				continue
			}
			r.Count("storage_rows_compared_with_fresh", 1)
			if reusedSlot {
				r.Count("storage_rows_in_reused_slots_compared_with_fresh", 1)
			}
		}
		if len(blocks) > maxRows {
			maxRows = len(blocks)
		}
		// what the write path does to the rows before the next message arrives
		for _, sr := range batch.Rows() {
			nNew := g.r.Intn(3)
			if g.r.Intn(25) == 0 {
				nNew = 33 + g.r.Intn(10) // a wide metric
			}
			sfItr := sr.NewSimpleFieldIterator()
			for k := 0; k < nNew; k++ {
				name, typ := field.Name(fmt.Sprintf("new%d", k)), field.SumField
				if sfItr.HasNext() { // like writeLinField: the field the row introduces
					name, typ = sfItr.NextName(), sfItr.NextType()
				}
				sr.Fields = append(sr.Fields, field.Meta{Name: name, Type: typ, ID: field.ID(k + 1), Index: uint8(k)})
				r.Count("storage_row_field_metas_appended_like_the_write_path", 1)
			}
			sr.MemSeriesID = uint32(1 + g.r.Intn(1<<20))
			sr.WrittenFields = float64(1 + g.r.Intn(5))
			if g.r.Intn(2) == 0 { // leave iterators half way
				kv := sr.NewKeyValueIterator()
				kv.HasNext()
				if cf, ok := sr.NewCompoundFieldIterator(); ok {
					cf.HasNextBucket()
				}
			}
		}
		if g.r.Intn(3) == 0 {
			sort.Sort(batch) // rows change slots
		}
	}
}

func brokerReuseSequence(g *Gen, fb *flatbuffers.Builder, r *rec, lives int) {
	for life := 0; life < lives; life++ {
		blocks := realBlocks(g, fb, 1+g.r.Intn(20))
		if len(blocks) == 0 {
			continue
		}
		batch := metric.NewBrokerBatchRows() // pooled
		for _, b := range blocks {
			b := b
			_ = batch.TryAppend(func(row *metric.BrokerRow) error { row.FromBlock(b); return nil })
		}
		r.Eval(1)
		if batch.Len() != len(blocks) {
			r.Violation("C16/reused-broker-row-differs-from-fresh/batch-len", fmt.Sprintf("%d rows appended to a pooled batch, Len()=%d", len(blocks), batch.Len()), nil)
			batch.Release()
			continue
		}
		for i := range batch.Rows() {
			row := &batch.Rows()[i]
			var fresh metric.BrokerRow
			fresh.FromBlock(blocks[i])
			want := rowFromFlat(fresh.Metric())
			wit := map[string]interface{}{"life": life, "slot": i, "fresh_row": want}
			var buf bytes.Buffer
			n, _ := row.WriteTo(&buf)
			switch {
			case row.IsOutOfTimeRange:
				r.Violation("C16/reused-broker-row-differs-from-fresh/out-of-range-flag", fmt.Sprintf("slot %d of a pooled BrokerBatchRows is IsOutOfTimeRange=true right after FromBlock", i), wit)
			case row.Size() != len(blocks[i]) || n != len(blocks[i]) || !bytes.Equal(buf.Bytes(), blocks[i]):
				r.Violation("C16/reused-broker-row-differs-from-fresh/bytes", fmt.Sprintf("slot %d: Size()=%d, WriteTo wrote %d bytes, the block has %d", i, row.Size(), n, len(blocks[i])), wit)
			default:
				if d := sameRow(want, rowFromFlat(row.Metric()), false); d != "" {
					r.Violation("C16/reused-broker-row-differs-from-fresh/content", fmt.Sprintf("slot %d differs from a fresh BrokerRow over the same block: %s", i, d), wit)
				} else {
					r.Count("broker_rows_compared_with_fresh", 1)
				}
			}
		}
		// the life of the batch: eviction of a part of it, sharding, family grouping, release
		freshClock()
		window := int64([]int{0, 600_000, 3600_000, 7200_000}[g.r.Intn(4)])
		batch.EvictOutOfTimeRange(window, window)
		it := batch.NewShardGroupIterator(int32(1 + g.r.Intn(8)))
		for it.HasRowsForNextShard() {
			_, fit := it.FamilyRowsForNextShard(10_000)
			for fit.HasNextFamily() {
				fit.NextFamily()
			}
		}
		batch.Release()
	}
}
