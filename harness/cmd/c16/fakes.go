package main

// Recording ends for the real replica.ChannelManager stack: a state manager that only hands over the shard state
// callback, and an rpc.ClientStreamFactory whose write streams record, per (shard, family) stream, every payload
// the real familyChannel sends.

import (
	"context"
	"encoding/json"
	"io"
	"sync"

	"google.golang.org/grpc"
	"google.golang.org/grpc/metadata"

	"github.com/lindb/lindb/constants"
	"github.com/lindb/lindb/coordinator/broker"
	"github.com/lindb/lindb/models"
	protoWriteV1 "github.com/lindb/lindb/proto/gen/v1/write"
	"github.com/lindb/lindb/rpc"
)

type shardStateFn func(databaseCfg models.Database, shards map[models.ShardID]models.ShardState, liveNodes map[models.NodeID]models.StatefulNode)

type fakeStateMgr struct {
	broker.StateManager // never called by ChannelManager beyond the method below
	fn                  shardStateFn
}

func (f *fakeStateMgr) WatchShardStateChangeEvent(fn func(databaseCfg models.Database,
	shards map[models.ShardID]models.ShardState, liveNodes map[models.NodeID]models.StatefulNode)) {
	f.fn = fn
}

type sentPayload struct {
	Database   string
	Shard      models.ShardID
	FamilyTime int64
	Data       []byte
}

type recorder struct {
	mu      sync.Mutex
	sent    []sentPayload
	streams int
	badMeta int
}

type fakeStreamFactory struct {
	rpc.ClientStreamFactory
	rec *recorder
}

func (f *fakeStreamFactory) LogicNode() models.Node {
	return &models.StatelessNode{HostIP: "127.0.0.1", GRPCPort: 9001}
}

func (f *fakeStreamFactory) CreateWriteServiceClient(_ models.Node) (protoWriteV1.WriteServiceClient, error) {
	return &fakeWriteService{rec: f.rec}, nil
}

type fakeWriteService struct{ rec *recorder }

func (s *fakeWriteService) Write(ctx context.Context, _ ...grpc.CallOption) (protoWriteV1.WriteService_WriteClient, error) {
	st := &fakeWriteStream{ctx: ctx, rec: s.rec}
	md, ok := metadata.FromOutgoingContext(ctx)
	var state models.FamilyState
	if ok {
		if vals := md.Get(constants.RPCMetaKeyFamilyState); len(vals) == 1 {
			if err := json.Unmarshal([]byte(vals[0]), &state); err == nil {
				st.ok = true
			}
		}
	}
	st.state = state
	s.rec.mu.Lock()
	s.rec.streams++
	if !st.ok {
		s.rec.badMeta++
	}
	s.rec.mu.Unlock()
	return st, nil
}

type fakeWriteStream struct {
	grpc.ClientStream
	ctx   context.Context
	rec   *recorder
	state models.FamilyState
	ok    bool
}

func (s *fakeWriteStream) Send(req *protoWriteV1.WriteRequest) error {
	s.rec.mu.Lock()
	s.rec.sent = append(s.rec.sent, sentPayload{
		Database: s.state.Database, Shard: s.state.Shard.ID, FamilyTime: s.state.FamilyTime,
		Data: append([]byte(nil), req.Record...),
	})
	s.rec.mu.Unlock()
	return nil
}

func (s *fakeWriteStream) Recv() (*protoWriteV1.WriteResponse, error) {
	<-s.ctx.Done()
	return nil, io.EOF
}

func (s *fakeWriteStream) Context() context.Context { return s.ctx }
func (s *fakeWriteStream) CloseSend() error         { return nil }
