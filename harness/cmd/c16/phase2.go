package main

// Phase "route": batches parsed by the real ingestion parsers (which take BrokerBatchRows from the real pool) are
// routed either by driving EvictOutOfTimeRange + the shard/family iterators directly (then released to the pool as
// ChannelManager.Write does) or through the real replica.ChannelManager -> databaseChannel.Write -> shardChannel ->
// familyChannel stack whose write streams record what every (shard, family) receives; the recorded payloads are
// decoded with the storage side code (snappy reader, StorageBatchRows.UnmarshalRows).

import (
	"bytes"
	"context"
	"fmt"
	"sort"
	"strings"
	"time"

	flatbuffers "github.com/google/flatbuffers/go"
	"github.com/lindb/common/pkg/ltoml"

	"github.com/lindb/lindb/config"
	"github.com/lindb/lindb/ingestion/flat"
	"github.com/lindb/lindb/ingestion/influx"
	"github.com/lindb/lindb/ingestion/proto"
	"github.com/lindb/lindb/models"
	"github.com/lindb/lindb/pkg/compress"
	"github.com/lindb/lindb/pkg/option"
	"github.com/lindb/lindb/pkg/timeutil"
	"github.com/lindb/lindb/replica"
	"github.com/lindb/lindb/series/metric"
	"github.com/lindb/lindb/verif/internal/core"
)

const (
	minuteMs = int64(60_000)
	hourMs   = 60 * minuteMs
	dayMs    = 24 * hourMs
	marginMs = 2 * minuteMs // generation margin; >= 1 min remains after rounding to the coarsest line precision used here
)

type scenario struct {
	ID        string   `json:"id"`
	Shards    int32    `json:"shards"`
	Intervals []int64  `json:"intervals_ms"`
	Smallest  int64    `json:"smallest_interval_ms"`
	BehindStr string   `json:"behind"`
	AheadStr  string   `json:"ahead"`
	Behind    int64    `json:"-"`
	Ahead     int64    `json:"-"`
	Repair    bool     `json:"harness_clears_stale_flags"`
	BlockSize int      `json:"batch_block_size"`
	Anchors   []int64  `json:"anchor_offsets_ms"`
	Formats   []string `json:"-"`
}

// expectation for one metric of a routed batch
type routed struct {
	m        *Metric
	env      *Env
	format   string
	batch    int
	mode     string // "iter" or "wire"
	valid    bool   // by the specification
	inBatch  bool   // a row for it is in the parsed batch
	ok       bool   // ... and that row is what must be stored
	inWindow bool
	shard    int32
	famStart int64
	exp      *Expect
	stale    bool // IsOutOfTimeRange was already set on the freshly parsed (pooled) batch
	preEpoch bool // the batch also carries a row with a pre-epoch or overflowing timestamp
	seenIter int
}

type poolInfo struct {
	released    bool
	hadEviction bool
	lives       int
}

type routeCtx struct {
	r     *rec
	g     *Gen
	fb    *flatbuffers.Builder
	dec   *storageDecoder
	pool  map[*metric.BrokerBatchRows]*poolInfo
	twins []*Metric
}

var windowStrMs = map[string]int64{"": 0, "10m": 10 * minuteMs, "30m": 30 * minuteMs, "1h": hourMs, "2h": 2 * hourMs, "1d": dayMs, "7d": 7 * dayMs}

func runRoute(c *core.Ctx, r *rec, idx int) {
	rc := &routeCtx{
		r: r, g: &Gen{r: c.Rand(fmt.Sprintf("route-%d", idx)), uid: 1_000_000_000 + int64(idx)*10_000_000},
		fb: flatbuffers.NewBuilder(2048), dec: newStorageDecoder(), pool: map[*metric.BrokerBatchRows]*poolInfo{},
	}
	nScen := c.Pick(48, 180)
	for s := 0; s < nScen && !r.giveUp(); s++ {
		rc.runScenario(fmt.Sprintf("route-%d/%d", idx, s), c.Pick(36, 70))
	}
}

func (rc *routeCtx) genScenario(id string) *scenario {
	g := rc.g
	sc := &scenario{ID: id}
	switch p := g.r.Intn(10); {
	case p < 2:
		sc.Shards = 1
	case p < 5:
		sc.Shards = int32(2 + g.r.Intn(7))
	default:
		sc.Shards = int32(1 + g.r.Intn(64))
	}
	all := [][]int64{{10_000, 5 * minuteMs, hourMs}, {10_000}, {30_000, 10 * minuteMs}, {5 * minuteMs, hourMs}, {5 * minuteMs}, {hourMs}, {minuteMs, hourMs}, {299_999, 2 * hourMs}}
	sc.Intervals = append([]int64(nil), all[g.r.Intn(len(all))]...)
	sc.Smallest = sc.Intervals[0]
	g.r.Shuffle(len(sc.Intervals), func(i, j int) { sc.Intervals[i], sc.Intervals[j] = sc.Intervals[j], sc.Intervals[i] })
	if g.r.Intn(5) != 0 {
		sc.BehindStr = []string{"30m", "1h", "2h", "1d", "7d", ""}[g.r.Intn(6)]
		sc.AheadStr = []string{"10m", "1h", "1d", "", "30m"}[g.r.Intn(5)]
	}
	sc.Behind, sc.Ahead = windowStrMs[sc.BehindStr], windowStrMs[sc.AheadStr]
	sc.Repair = g.r.Intn(3) != 0
	sc.BlockSize = []int{600, 4096, 256 * 1024}[g.r.Intn(3)]
	// anchors of in-window timestamps (offsets from "now"); a few per scenario so the family count stays small
	lo, hi := -400*dayMs, 400*dayMs
	if sc.Behind > 0 {
		lo = -sc.Behind + marginMs
	}
	if sc.Ahead > 0 {
		hi = sc.Ahead - marginMs
	}
	n := 1 + g.r.Intn(5)
	for i := 0; i < n; i++ {
		sc.Anchors = append(sc.Anchors, lo+g.r.Int63n(hi-lo-marginMs/2))
	}
	return sc
}

// timestamp picks a timestamp relative to now: in window (jittered around an anchor) or deliberately outside.
func (rc *routeCtx) timestamp(sc *scenario, now int64, allowPreEpoch bool) (ts int64, inWindow bool) {
	g := rc.g
	if allowPreEpoch && sc.Behind > 0 && g.r.Intn(12) == 0 {
		// far outside the window: a client's "-1 = unset" style timestamp
		return []int64{-1, -5, -999, -3310964750324526831}[g.r.Intn(4)], false
	}
	lo, hi := -400*dayMs, 400*dayMs
	if sc.Behind > 0 {
		lo = -sc.Behind + marginMs
	}
	if sc.Ahead > 0 {
		hi = sc.Ahead - marginMs
	}
	p := g.r.Intn(100)
	switch {
	case sc.Behind > 0 && p < 14:
		return now - sc.Behind - marginMs - g.r.Int63n(3*dayMs), false
	case sc.Ahead > 0 && p >= 14 && p < 26:
		return now + sc.Ahead + marginMs + g.r.Int63n(3*dayMs), false
	}
	off := sc.Anchors[g.r.Intn(len(sc.Anchors))] + g.r.Int63n(25*minuteMs)
	if off > hi {
		off = hi
	}
	if off < lo {
		off = lo
	}
	return now + off, true
}

func (rc *routeCtx) runScenario(id string, nBatches int) {
	r, g := rc.r, rc.g
	sc := rc.genScenario(id)
	// the real channel stack with recording streams
	cfg := config.NewDefaultBrokerBase()
	cfg.Write.BatchBlockSize = ltoml.Size(sc.BlockSize)
	// No time driven flushes: chunks leave a family channel when they are full or when the channel is stopped.
	// (Besides determinism this avoids a shutdown race of lindb that is outside this property: familyChannel.Stop closes
	// fc.ch while the write task's ticker branch may still call checkFlush -> flushChunk -> "send on closed channel".)
	cfg.Write.BatchTimeout = ltoml.Duration(time.Hour)
	config.SetGlobalBrokerConfig(cfg)
	recd := &recorder{}
	sm := &fakeStateMgr{}
	ctx, cancel := context.WithCancel(context.Background())
	defer cancel()
	cm := replica.NewChannelManager(ctx, &fakeStreamFactory{rec: recd}, sm)
	if sm.fn == nil {
		r.Inconclusive("ChannelManager did not register a shard state callback")
		return
	}
	opt := &option.DatabaseOption{Behind: sc.BehindStr, Ahead: sc.AheadStr}
	for _, iv := range sc.Intervals {
		opt.Intervals = append(opt.Intervals, option.Interval{Interval: timeutil.Interval(iv), Retention: timeutil.Interval(30 * dayMs)})
	}
	dbName := "db_" + strings.ReplaceAll(id, "/", "_")
	dbCfg := models.Database{Name: dbName, Option: opt, NumOfShard: int(sc.Shards), ReplicaFactor: 1}
	shards := map[models.ShardID]models.ShardState{}
	for i := int32(0); i < sc.Shards; i++ {
		shards[models.ShardID(i)] = models.ShardState{ID: models.ShardID(i), State: models.OnlineShard, Leader: 1, Replica: models.Replica{Replicas: []models.NodeID{1}}}
	}
	live := map[models.NodeID]models.StatefulNode{1: {ID: 1, StatelessNode: models.StatelessNode{HostIP: "127.0.0.1", GRPCPort: 2891}}}
	sm.fn(dbCfg, shards, live)
	r.Count("routing_scenarios", 1)
	r.Count(fmt.Sprintf("routing_scenarios_family_%s", familyKind(sc.Smallest)), 1)
	if sc.Behind > 0 || sc.Ahead > 0 {
		r.Count("routing_scenarios_with_write_window", 1)
	}

	wire := map[int64]*routed{} // uid -> expectation, for batches sent through the channel manager
	for b := 0; b < nBatches && !r.giveUp(); b++ {
		rs, batch := rc.genAndParse(sc, b)
		if batch == nil {
			continue
		}
		info := rc.pool[batch]
		if info == nil {
			info = &poolInfo{}
			rc.pool[batch] = info
		} else if info.released {
			r.Count("pooled_batch_reused", 1)
			if info.hadEviction {
				r.Count("reused_batch_after_eviction", 1)
			}
		}
		info.released = false
		info.lives++
		// which rows carry a flag before any eviction ran on this batch?
		byUID := map[int64]*routed{}
		for _, x := range rs {
			byUID[x.m.UID] = x
		}
		rows := batch.Rows()
		for k := range rows {
			if rows[k].IsOutOfTimeRange {
				r.Count("stale_out_of_range_flag_on_fresh_batch", 1)
				if x := byUID[uidOfRow(rowFromFlat(rows[k].Metric()))]; x != nil {
					x.stale = true
				}
				if sc.Repair {
					rows[k].IsOutOfTimeRange = false
					r.Count("stale_flags_cleared_by_harness", 1)
				}
			}
		}
		fams := map[int64]bool{}
		for _, x := range rs {
			if x.inBatch {
				fams[x.famStart] = true
				if !x.inWindow {
					info.hadEviction = true
				}
			}
		}
		if len(fams) > 1 {
			r.Count("batches_crossing_family_boundary", 1)
		}
		freshClock() // the write window is evaluated against lindb's approximate clock
		if g.r.Intn(2) == 0 {
			for _, x := range rs {
				x.mode = "iter"
			}
			rc.routeByIterators(sc, rs, batch)
			batch.Release()
		} else {
			for _, x := range rs {
				x.mode = "wire"
				wire[x.m.UID] = x
			}
			if err := cm.Write(context.Background(), dbName, batch); err != nil {
				r.Violation("C16/channel-manager-write-failed", "ChannelManager.Write failed with all shard channels present: "+err.Error(), rc.witness(sc, rs[0], nil))
			}
			r.Count("batches_through_channel_manager", 1)
		}
		info.released = true
	}
	// Flush: stop every shard channel the way databaseChannel.Stop does (familyChannel.Stop sends the pending chunk and
	// waits for the write task). ChannelManager.Close() itself cancels the root context first, after which pending
	// chunks are sent on cancelled streams - a shutdown matter outside this property.
	creator, okc := cm.(interface {
		CreateChannel(models.Database, int32, models.ShardID) (replica.ShardChannel, error)
	})
	if !okc {
		r.Inconclusive("ChannelManager has no CreateChannel method to reach the shard channels")
		return
	}
	for i := int32(0); i < sc.Shards; i++ {
		ch, err := creator.CreateChannel(dbCfg, sc.Shards, models.ShardID(i))
		if err != nil {
			r.Inconclusive("cannot reach shard channel: " + err.Error())
			return
		}
		ch.Stop()
	}
	cancel()
	rc.checkWire(sc, recd, wire, dbName)
}

func familyKind(smallest int64) string {
	switch {
	case smallest >= hourMs:
		return "month"
	case smallest >= 5*minuteMs:
		return "day"
	}
	return "hour"
}

func uidOfRow(row *Row) int64 {
	for _, f := range row.Fields {
		if f.Name == "uid_sum" {
			return int64(f.Value)
		}
	}
	return -1
}

func (rc *routeCtx) witness(sc *scenario, x *routed, extra map[string]interface{}) map[string]interface{} {
	w := map[string]interface{}{"scenario": sc}
	if x != nil {
		w["metric"] = x.m
		w["format"] = x.format
		w["batch_index"] = x.batch
		w["mode"] = x.mode
		w["expected_valid"] = x.valid
		w["expected_in_window"] = x.inWindow
		w["expected_shard"] = x.shard
		w["expected_family_start"] = x.famStart
		w["stale_flag_before_eviction"] = x.stale
		w["limits"] = x.env.Lim
		w["request_namespace"] = x.env.ReqNS
		w["enriched_tags"] = x.env.Enriched
	}
	for k, v := range extra {
		w[k] = v
	}
	return w
}

// genAndParse generates one batch, sends it through the real Parse of its format and checks acceptance and content.
func (rc *routeCtx) genAndParse(sc *scenario, b int) ([]*routed, *metric.BrokerBatchRows) {
	r, g := rc.r, rc.g
	format := []string{fmtProto, fmtProto, fmtFlat, fmtFlat, fmtLine}[g.r.Intn(5)]
	env := g.env(format == fmtLine)
	if g.r.Intn(5) != 0 {
		env.Lim = limitProfiles[0]
	}
	prec := precisions[g.r.Intn(4)] // ms ns us s
	n := 1 + g.r.Intn(24)
	if g.r.Intn(10) == 0 {
		n = 60 + g.r.Intn(240)
	}
	now := time.Now().UnixMilli()
	preEpochBatch := format != fmtLine && g.r.Intn(25) == 0
	var rs []*routed
	var flatIn [][]byte
	var line strings.Builder
	for i := 0; i < n; i++ {
		var m *Metric
		opt := genOpt{LineOK: format == fmtLine, WithUID: true, NoInject: g.r.Intn(8) != 0, MaxTags: 12}
		if len(rc.twins) > 0 && format != fmtLine && g.r.Intn(7) == 0 && env.Lim.Profile == "default" {
			// a twin of an earlier series: same name and tags in another order, in another batch
			src := rc.twins[g.r.Intn(len(rc.twins))]
			m = g.metric(env, genOpt{LineOK: format == fmtLine, WithUID: true, NoInject: true, MaxTags: 1})
			m.Name = src.Name
			m.Tags = append([]Tag(nil), src.Tags...)
			g.r.Shuffle(len(m.Tags), func(a, b int) { m.Tags[a], m.Tags[b] = m.Tags[b], m.Tags[a] })
			m.Inject = append(m.Inject, "twin")
		} else {
			m = g.metric(env, opt)
		}
		ts, in := rc.timestamp(sc, now, preEpochBatch)
		if format == fmtLine {
			ts -= ts % prec.unitMs()
		}
		m.TS = ts
		m.finish()
		fi := encodeFlat(rc.fb, m)
		v := judge(m, env, format, len(fi))
		if v.Status == stUnspec || m.NilTag >= 0 || m.NilField >= 0 { // nil elements cannot be marshalled into a request
			i--
			continue
		}
		x := &routed{m: m, env: env, format: format, batch: b, valid: v.Status == stValid, inWindow: in, shard: -1}
		x.famStart, _ = familyRange(m.TS, sc.Smallest)
		if x.valid {
			x.exp = canonical(m, env, format)
			tags := make([]Tag, len(x.exp.Tags))
			conflict := false
			for j, t := range x.exp.Tags {
				tags[j] = Tag{K: t.K, V: t.Last}
				for _, cnd := range t.Candidates {
					if cnd != t.Last {
						conflict = true
					}
				}
			}
			if conflict { // the stored value may be any candidate: the shard is only defined by the stored row
				x.shard = -1
			} else {
				x.shard = jumpHash(hashOfTags(tags), sc.Shards)
				if format != fmtLine && len(m.Tags) >= 1 && len(m.Tags) <= 8 && len(rc.twins) < 200 && m.Line == nil && len(m.Inject) == 0 && env.Lim.Profile == "default" {
					rc.twins = append(rc.twins, m)
				}
			}
			x.famStart, _ = familyRange(m.TS, sc.Smallest)
		}
		rs = append(rs, x)
		flatIn = append(flatIn, fi)
		if format == fmtLine {
			line.WriteString(encodeLine(m, prec))
			line.WriteByte('\n')
		}
		r.Eval(1)
		r.Nontrivial(featureKey("route", m, env, fmt.Sprintf("%s|sh=%d|fam=%s|win=%t|in=%t", format, bucketShards(sc.Shards), familyKind(sc.Smallest), sc.Behind > 0 || sc.Ahead > 0, in)))
	}
	hasPreEpoch := false
	for _, x := range rs {
		if outOfDomainTS(x.m.TS) {
			hasPreEpoch = true
		}
	}
	if hasPreEpoch {
		r.Count("batches_with_an_out_of_domain_timestamp", 1)
	}
	if b == 0 {
		r.Sample(map[string]interface{}{"phase": "route", "scenario": sc, "format": format, "first_metric": rs[0].m, "rows": n})
	}
	lim := toModelsLimits(env.Lim)
	enriched := toTagTags(env.Enriched)
	ns := heapString(env.ReqNS)
	gz := g.r.Intn(6) == 0
	var batch *metric.BrokerBatchRows
	var err error
	switch format {
	case fmtProto:
		var ms []*Metric
		for _, x := range rs {
			ms = append(ms, x.m)
		}
		data, merr := encodeProtoList(ms)
		if merr != nil {
			r.Inconclusive("cannot marshal protobuf list: " + merr.Error())
			return nil, nil
		}
		batch, err = proto.Parse(newRequest(data, gz, ""), enriched, ns, lim)
	case fmtFlat:
		batch, err = flat.Parse(newRequest(bytes.Join(flatIn, nil), gz, ""), enriched, ns, lim)
	default:
		batch, err = influx.Parse(newRequest([]byte(line.String()), gz, "precision="+prec.Query), enriched, ns, lim)
	}
	r.Count("route_batches_"+format, 1)
	byUID := map[int64]*routed{}
	for _, x := range rs {
		byUID[x.m.UID] = x
	}
	rowsOf := map[int64]*Row{}
	hasOversize := false
	for _, fi := range flatIn {
		if len(fi) > 10*1024 {
			hasOversize = true
		}
	}
	if batch != nil {
		for _, br := range batch.Rows() {
			row := rowFromFlat(br.Metric())
			uid := uidOfRow(row)
			x := byUID[uid]
			if x == nil {
				r.Violation("C16/"+format+"-row-from-nowhere", "parsed batch holds a row that matches no metric of the request: "+showRow(row), rc.witness(sc, rs[0], map[string]interface{}{"row": row}))
				continue
			}
			if x.inBatch {
				r.Violation("C16/"+format+"-row-duplicated", "one metric produced two rows in the parsed batch: "+showRow(row), rc.witness(sc, x, map[string]interface{}{"row": row}))
				continue
			}
			x.inBatch = true
			rowsOf[uid] = row
		}
	} else if err == nil {
		r.Violation("C16/"+format+"-parse-nil-batch", "Parse returned neither a batch nor an error", rc.witness(sc, rs[0], nil))
	}
	for i, x := range rs {
		x := x
		ci := caseInfo{m: x.m, env: env, format: format, flatSize: len(flatIn[i]), mode: "parse", flatDesyncing: hasOversize}
		x.ok = evalOutcome(r, ci, x.inBatch, rowsOf[x.m.UID], fmt.Sprint(err), nowBracket{}, func(extra map[string]interface{}) map[string]interface{} {
			return rc.witness(sc, x, extra)
		})
		if x.inBatch && x.shard < 0 {
			x.shard = jumpHash(hashOfTags(rowsOf[x.m.UID].Tags), sc.Shards)
		}
	}
	if hasPreEpoch {
		// only rows that share the shard group with an out-of-domain row can be affected by it
		shardsHit := map[int32]bool{}
		for _, x := range rs {
			if x.inBatch && outOfDomainTS(x.m.TS) {
				shardsHit[x.shard] = true
			}
		}
		for _, x := range rs {
			x.preEpoch = x.inBatch && shardsHit[x.shard]
		}
	}
	return rs, batch
}

func bucketShards(n int32) int {
	switch {
	case n == 1:
		return 1
	case n <= 8:
		return 8
	}
	return 64
}

// routeByIterators is the body of databaseChannel.Write with recording instead of family channels.
func (rc *routeCtx) routeByIterators(sc *scenario, rs []*routed, batch *metric.BrokerBatchRows) {
	r := rc.r
	byUID := map[int64]*routed{}
	wantOut := 0
	for _, x := range rs {
		byUID[x.m.UID] = x
		if x.inBatch && !x.inWindow {
			wantOut++
		}
	}
	evicted := batch.EvictOutOfTimeRange(sc.Behind, sc.Ahead)
	if evicted != wantOut {
		r.Violation("C16/evicted-count-wrong", fmt.Sprintf("EvictOutOfTimeRange(behind=%d, ahead=%d) reported %d rows, %d rows of the batch are outside the window", sc.Behind, sc.Ahead, evicted, wantOut),
			rc.witness(sc, rs[0], nil))
	}
	groups := map[string]bool{}
	total := 0
	it := batch.NewShardGroupIterator(sc.Shards)
	for it.HasRowsForNextShard() {
		shardIdx, fit := it.FamilyRowsForNextShard(timeutil.Interval(sc.Smallest))
		for fit.HasNextFamily() {
			familyTime, rows := fit.NextFamily()
			key := fmt.Sprintf("%d/%d", shardIdx, familyTime)
			if groups[key] {
				r.Violation("C16/iterator-split-group", fmt.Sprintf("the (shard %d, family %d) group was yielded twice for one batch", shardIdx, familyTime), rc.witness(sc, rs[0], nil))
			}
			groups[key] = true
			if len(rows) == 0 {
				r.Violation("C16/iterator-empty-group", fmt.Sprintf("empty (shard %d, family %d) group", shardIdx, familyTime), rc.witness(sc, rs[0], nil))
			}
			r.Count("iterator_groups_checked", 1)
			for k := range rows {
				total++
				row := rowFromFlat(rows[k].Metric())
				x := byUID[uidOfRow(row)]
				if x == nil || !x.inBatch {
					r.Violation("C16/iterator-row-from-nowhere", "iterator yielded a row that is not an accepted row of the batch: "+showRow(row), rc.witness(sc, x, map[string]interface{}{"row": row}))
					continue
				}
				x.seenIter++
				rc.checkPlacement(sc, x, row, int32(shardIdx), familyTime)
				var buf bytes.Buffer
				nw, _ := rows[k].WriteTo(&buf)
				flagged := rows[k].IsOutOfTimeRange
				if flagged != (nw == 0) || rows[k].Size() != nw {
					r.Violation("C16/flag-and-size-disagree", fmt.Sprintf("IsOutOfTimeRange=%t but WriteTo wrote %d bytes and Size()=%d", flagged, nw, rows[k].Size()), rc.witness(sc, x, nil))
				}
				switch {
				case flagged && x.inWindow:
					rc.droppedInWindow(sc, x, "EvictOutOfTimeRange + iterators: the row is marked out of range (Size()==0, nothing written to the family channel)")
				case !flagged && !x.inWindow:
					r.Violation("C16/out-of-window-row-kept", fmt.Sprintf("row with timestamp %d is outside the write window (behind=%s ahead=%s) but is not marked out of range", x.m.TS, sc.BehindStr, sc.AheadStr), rc.witness(sc, x, nil))
				case flagged:
					r.Count("out_of_window_rows_evicted", 1)
				default:
					r.Count("in_window_rows_kept", 1)
				}
			}
		}
	}
	for _, x := range rs {
		if !x.inBatch {
			continue
		}
		switch {
		case x.seenIter == 0 && x.preEpoch:
			r.Violation(preEpochClass, preEpochMsg("an accepted row of the batch is in no (shard, family) group"), rc.witness(sc, x, nil))
		case x.seenIter == 0:
			r.Violation("C16/iterator-lost-row", "an accepted row of the batch is in no (shard, family) group", rc.witness(sc, x, nil))
		case x.seenIter > 1:
			r.Violation("C16/iterator-duplicated-row", fmt.Sprintf("an accepted row of the batch is in %d (shard, family) groups", x.seenIter), rc.witness(sc, x, nil))
		}
	}
	if total != batch.Len() {
		anyPre := false
		for _, x := range rs {
			anyPre = anyPre || x.preEpoch
		}
		if anyPre && total < batch.Len() {
			r.Violation(preEpochClass, preEpochMsg(fmt.Sprintf("iterators yielded %d rows of a batch of %d", total, batch.Len())), rc.witness(sc, rs[0], nil))
		} else {
			r.Violation("C16/iterator-lost-or-duplicated-rows", fmt.Sprintf("iterators yielded %d rows of a batch of %d", total, batch.Len()), rc.witness(sc, rs[0], nil))
		}
	}
}

const preEpochClass = "C16/out-of-domain-timestamp-row-drops-shard-group"

// outOfDomainTS: timestamps for which lindb's family calculators are not self-consistent (before the unix epoch the
// second is truncated towards zero; absurdly large values overflow time.Date).
func outOfDomainTS(ts int64) bool { return ts < 0 || ts > 253402300799999 }

func preEpochMsg(detail string) string {
	return "the batch carries a row with a pre-epoch (e.g. -1) or overflowing timestamp; BrokerBatchShardFamilyIterator.HasNextFamily computes a family range " +
		"that does not contain that timestamp (time.Unix(ts/1000) truncates towards zero / time.Date overflows), the group stays empty, HasNextFamily returns false " +
		"and every row of that shard sorted behind it is silently dropped: " + detail
}

func (rc *routeCtx) droppedInWindow(sc *scenario, x *routed, how string) {
	if x.preEpoch && !(x.stale && !sc.Repair) {
		rc.r.Violation(preEpochClass, preEpochMsg(fmt.Sprintf("in-window row (ts %d) dropped (%s)", x.m.TS, how)), rc.witness(sc, x, nil))
		return
	}
	if x.stale && !sc.Repair {
		rc.r.Violation("C16/pooled-batch-stale-out-of-range-flag",
			fmt.Sprintf("in-window row (ts %d, window behind=%s ahead=%s) dropped: its slot of the pooled BrokerBatchRows still carried IsOutOfTimeRange=true from an earlier batch before EvictOutOfTimeRange ran (%s)", x.m.TS, sc.BehindStr, sc.AheadStr, how),
			rc.witness(sc, x, nil))
		return
	}
	rc.r.Violation("C16/in-window-row-dropped", fmt.Sprintf("in-window row (ts %d, window behind=%s ahead=%s) dropped without a stale flag (%s)", x.m.TS, sc.BehindStr, sc.AheadStr, how), rc.witness(sc, x, nil))
}

func (rc *routeCtx) checkPlacement(sc *scenario, x *routed, row *Row, shard int32, familyTime int64) {
	r := rc.r
	if shard < 0 || shard >= sc.Shards {
		r.Violation("C16/shard-out-of-range", fmt.Sprintf("shard %d with %d shards", shard, sc.Shards), rc.witness(sc, x, nil))
		return
	}
	want := jumpHash(hashOfTags(row.Tags), sc.Shards)
	if shard != want || (x.shard >= 0 && shard != x.shard) {
		r.Violation("C16/row-in-wrong-shard", fmt.Sprintf("row with tags %v is in shard %d of %d; jump hash of its series hash gives %d (expected from the sent tags: %d)", row.Tags, shard, sc.Shards, want, x.shard), rc.witness(sc, x, nil))
		return
	}
	s, e := familyRange(x.m.TS, sc.Smallest)
	if !x.inWindow {
		// an evicted row is never written: the family it is grouped under is of no consequence
		r.Count("evicted_row_placements_checked_shard_only", 1)
		return
	}
	if familyTime != s || x.m.TS < familyTime || x.m.TS >= e {
		r.Violation("C16/row-in-wrong-family", fmt.Sprintf("row with timestamp %d is in family %d; the %s family containing it is [%d,%d)", x.m.TS, familyTime, familyKind(sc.Smallest), s, e), rc.witness(sc, x, nil))
		return
	}
	r.Count("row_placements_checked", 1)
	for _, s := range x.m.Inject {
		if s == "twin" {
			r.Count("twin_series_same_shard_across_batches", 1)
		}
	}
}

// checkWire decodes what the recording streams received and compares with the expectations.
func (rc *routeCtx) checkWire(sc *scenario, recd *recorder, wire map[int64]*routed, dbName string) {
	r := rc.r
	type occ struct {
		shard  int32
		family int64
		row    *Row
	}
	seen := map[int64][]occ{}
	reader := compress.NewSnappyReader()
	recd.mu.Lock()
	sent := recd.sent
	bad := recd.badMeta
	streams := recd.streams
	recd.mu.Unlock()
	if bad > 0 {
		r.Inconclusive(fmt.Sprintf("%d write streams without family state metadata", bad))
	}
	r.Count("write_streams_opened", streams)
	for _, p := range sent {
		if p.Database != dbName {
			r.Violation("C16/wire-wrong-database", fmt.Sprintf("payload for database %q, expected %q", p.Database, dbName), rc.witness(sc, nil, nil))
		}
		block, err := reader.Uncompress(p.Data)
		if err != nil {
			r.Violation("C16/wire-payload-undecodable", "snappy: "+err.Error(), rc.witness(sc, nil, nil))
			continue
		}
		rows, problem := rc.dec.decodeBlock(append([]byte(nil), block...))
		if problem != "" {
			r.Violation("C16/storage-reader-inconsistent", problem, rc.witness(sc, nil, nil))
		}
		r.Count("wire_payloads_decoded", 1)
		for _, row := range rows {
			uid := uidOfRow(row)
			seen[uid] = append(seen[uid], occ{int32(p.Shard), p.FamilyTime, row})
		}
	}
	uids := make([]int64, 0, len(wire))
	for uid := range wire {
		uids = append(uids, uid)
	}
	sort.Slice(uids, func(i, j int) bool { return uids[i] < uids[j] })
	for _, uid := range uids {
		x := wire[uid]
		occs := seen[uid]
		delete(seen, uid)
		want := x.inBatch && x.inWindow
		switch {
		case want && len(occs) == 0:
			rc.droppedInWindow(sc, x, "ChannelManager.Write: the row never reached any (shard, family) write stream")
		case want && len(occs) > 1:
			r.Violation("C16/row-delivered-twice", fmt.Sprintf("row reached %d write streams/positions", len(occs)), rc.witness(sc, x, nil))
		case want:
			o := occs[0]
			if !x.ok { // the row itself was already reported; only its placement is checked
				rc.checkPlacement(sc, x, o.row, o.shard, o.family)
				continue
			}
			// content at the wire (namespace read through StorageRow.NameSpace(): empty -> default-ns)
			e := *x.exp
			if e.NS == "" {
				e.NS = "default-ns"
			}
			if x.format == fmtFlat && x.m.NS == "" && o.row.NS == "default-ns" {
				e.NS = "default-ns" // C16/flat-request-namespace-ignored, reported at the parse step
			}
			if kind, msg, _ := compareRow(&e, o.row, nowBracket{}); kind != "" {
				r.Violation("C16/wire-row-differs/"+kind, "row decoded at the storage side differs from what was sent: "+msg, rc.witness(sc, x, map[string]interface{}{"row": o.row}))
				continue
			}
			rc.checkPlacement(sc, x, o.row, o.shard, o.family)
			r.Count("routed_rows_checked_at_wire", 1)
			r.Count("in_window_rows_kept", 1)
		case len(occs) > 0 && !x.inBatch:
			r.Violation("C16/rejected-metric-delivered", "a metric that was not in the parsed batch reached a write stream", rc.witness(sc, x, map[string]interface{}{"row": occs[0].row}))
		case len(occs) > 0:
			r.Violation("C16/out-of-window-row-kept", fmt.Sprintf("row with timestamp %d is outside the write window (behind=%s ahead=%s) but reached shard %d family %d", x.m.TS, sc.BehindStr, sc.AheadStr, occs[0].shard, occs[0].family), rc.witness(sc, x, nil))
		case x.inBatch:
			r.Count("out_of_window_rows_evicted", 1)
		}
	}
	for uid, occs := range seen {
		r.Violation("C16/wire-row-from-nowhere", fmt.Sprintf("a write stream received a row (uid %d) that no batch written through the manager contained: %s", uid, showRow(occs[0].row)), rc.witness(sc, nil, nil))
	}
}
