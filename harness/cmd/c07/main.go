// C07 — Node crash recovery loses no logged write, never replays a persisted one.
//
// One real storage node per history in a child process (TZ=UTC): tsdb.Engine (1 database, 1-2 shards, 1-2 data families
// per shard) + replica.WriteAheadLogManager with the real local replicator (BuildReplicaForLeader(self, [self])). Log
// entries are built like the broker builds them (flat rows, routed by the real shard/family iterators, snappy chunk)
// and appended with Partition.WriteLog by 1-3 writers. The whole node directory (data, index and metadata stores,
// dictionary sequence file, log pages) is one imgfs world: an image after every file-system operation of any store and
// after every store into a log page (consumer-group acknowledgements included).
//
//	step histories      replication advanced with replica.VerifReplicaStep; flush cycles in the order of doFlush
//	                    (metadata -> per shard index -> family data), about half of them through the real
//	                    dataFlushChecker.doFlush (tsdb.VerifDoFlush), the others step by step with rows arriving between
//	                    the steps; rows arrive at chosen file-system operations inside the steps (a new tag key / field
//	                    while its schema table is closed, an entry for the family whose table is being written); a
//	                    drain + an idle cycle followed by new names; data flushes started between - or concurrently
//	                    with - the replicator's WriteRows and its CommitSequence; Partition.IsExpire (log Sync/GC)
//	free histories      real replica loops, 3 writers, whole flush jobs and log Sync/GC running freely; every 4th
//	                    operation imaged
//	directed histories  minimal reproductions of the genuine findings (directed.go)
//	fault-job histories an I/O fault - not a crash - inside a real flush job (faultjob.go): one file-system operation of
//	                    the metadata flush or of a shard's index flush fails (position stratified over the id sequence
//	                    sync and create / write / close / manifest write / manifest sync of each dictionary and index
//	                    store), the node keeps running, entries with new names arrive strictly between the jobs, 0-2
//	                    further successful jobs; every operation from the failing job on is a crash point
//
// Every image is recovered in another child process (engine load, WriteAheadLogManager.Recovery - which must rebuild the
// local replicators -, replay until consumed = appended, flush) and checked against the ledger of the history:
//
//	(i)   consumer-group ack of the local replicator and the queue's truncation barrier <= sequence stored in the data
//	      family's recovered version;
//	(ii)  replay never writes an entry at or below the stored sequence; after replay + flush a `group by uid` query over
//	      every metric returns every row of every entry whose WriteLog had returned exactly once, the rows of an
//	      in-flight entry iff the recovered log holds it, and nothing else (every row has its own time slot, so any value
//	      is attributable);
//	(iii) the same through every field, every tag key (group by) and a tag filter: flushed data resolves by name;
//	      an entry with brand-new names appended after recovery returns exactly its own row.
//
// Rows inside the window of the node flush protocol (see verifier.inHole) and rows whose names now carry an id of such
// a row get the classes C07/flush-protocol-window/* (open finding); everything else is strict. Rows applied strictly
// between two flush jobs are never window rows: when they are lost around a failed metadata / index flush they get
// C07/flushed-data-unresolvable/applied-between-flush-jobs/* (family data flushed by the job whose index flush failed;
// names created after a failed flush and not stored by its successful retry). An unexpected verdict is
// checked by a second recovery of a pristine copy of the image and by repeating the query (2 of 3).
//
// By hand: LOG_LEVEL=fatal TZ=UTC VERIF_SEED=n VERIF_C07_T0=<ms> bin/c07 hist <idx> <dir> quick|thorough
// (VERIF_C07_MODE=free for idx in 1000..1999; idx 2000..2003 = directed, idx 3000+n = fault-job; VERIF_C07_TRACE=1 prints every operation), then
// [VERIF_C07_VERBOSE=1 VERIF_C07_KEEP=1] bin/c07 verify <dir>/ledger.json <from> <to> <out.jsonl>;
// bin/c07 inspect <ledger.json> <node dir> ["sql"] prints what dictionaries and index resolve; bin/c07 plan <idx> <tier>.
package main

import (
	"encoding/json"
	"fmt"
	"os"
	"path/filepath"
	"runtime"
	"strconv"
	"strings"
	"sync"
	"time"

	"github.com/lindb/lindb/verif/internal/core"
	"github.com/lindb/lindb/verif/internal/imgfs"
)

func main() {
	if len(os.Args) > 1 {
		switch os.Args[1] {
		case "hist":
			histChild()
			return
		case "verify":
			verifyChild()
			return
		case "inspect":
			inspectChild()
			return
		case "plan":
			planDump()
			return
		}
	}
	parent()
}

func envInt(name string, def int64) int64 {
	if s := os.Getenv(name); s != "" {
		if v, err := strconv.ParseInt(s, 10, 64); err == nil {
			return v
		}
	}
	return def
}

// histChild: c07 hist <idx> <dir> <tier>
func histChild() {
	idx, _ := strconv.Atoi(os.Args[2])
	dir, tier := os.Args[3], os.Args[4]
	seed := envInt("VERIF_SEED", 1)
	t0 := envInt("VERIF_C07_T0", time.Now().UnixMilli()/hourMs*hourMs)
	var L *ledger
	if os.Getenv("VERIF_C07_MODE") == "free" {
		L = runFreeHistory(idx, dir, tier, seed, t0)
	} else {
		L = runHistory(idx, dir, tier, seed, t0)
	}
	if err := L.save(filepath.Join(dir, "ledger.json")); err != nil {
		fmt.Println("cannot write ledger:", err)
		os.Exit(3)
	}
	os.Exit(0) // no clean shutdown: the images are what a killed node leaves behind
}

func planDump() {
	idx, _ := strconv.Atoi(os.Args[2])
	seed := envInt("VERIF_SEED", 1)
	t0 := envInt("VERIF_C07_T0", time.Now().UnixMilli()/hourMs*hourMs)
	L := &ledger{}
	_ = L
	p := planFor(idx, os.Args[3], seed, t0)
	data, _ := json.MarshalIndent(p, "", " ")
	fmt.Println(string(data))
}

// verifyChild: c07 verify <ledger.json> <from> <to> <outfile>  — images [from,to) one after the other; one JSON line
// per image is appended to outfile as soon as its verdict is known.
func verifyChild() {
	L, err := loadLedger(os.Args[2])
	if err != nil {
		fmt.Println("cannot read ledger:", err)
		os.Exit(3)
	}
	from, _ := strconv.Atoi(os.Args[3])
	to, _ := strconv.Atoi(os.Args[4])
	out, err := os.OpenFile(os.Args[5], os.O_CREATE|os.O_APPEND|os.O_WRONLY, 0o644)
	if err != nil {
		fmt.Println(err)
		os.Exit(3)
	}
	deepEvery := int(envInt("VERIF_C07_DEEP_EVERY", 0))
	setupVerifyProcess()
	v := newVerifier(L)
	for i := from; i < to && i < len(L.Images); i++ {
		img := L.Images[i]
		fmt.Printf("image %d %s\n", img.Index, img.Label) // logged before it runs
		deep := deepEvery > 0 && i%deepEvery == 0
		// recovery works in place: keep a pristine copy so that an unexpected verdict can be checked by a second,
		// independent recovery of the same image
		pristine := img.Dir + ".pristine"
		_, _ = imgfs.CopyTree(img.Dir, pristine, nil)
		res := v.verifyImage(img, deep)
		if unexpected := unexpectedClasses(res); len(unexpected) > 0 && res.Note["panicked"] == "" {
			// the verdict has to be a property of the image: recover independent copies of it again and take the
			// majority of three recoveries
			pristine2 := img.Dir + ".pristine2"
			_, _ = imgfs.CopyTree(pristine, pristine2, nil)
			again := img
			again.Dir = pristine
			res2 := v.verifyImage(again, deep)
			second := map[string]bool{}
			for _, viol := range res2.Violations {
				second[viol.Class] = true
			}
			var res3 *imgResult
			third := map[string]bool{}
			var kept []core.Violation
			for i := range res.Violations {
				viol := res.Violations[i]
				cls := viol.Class
				if isExpectedClass(cls) {
					kept = append(kept, viol)
					continue
				}
				if second[cls] {
					viol.Message += " [a second recovery of a pristine copy of the image shows the same]"
					kept = append(kept, viol)
					continue
				}
				if res3 == nil {
					again.Dir = pristine2
					res3 = v.verifyImage(again, deep)
					for _, v3 := range res3.Violations {
						third[v3.Class] = true
					}
				}
				if third[cls] {
					viol.Message += " [shown by two of three recoveries of copies of the image]"
					kept = append(kept, viol)
					continue
				}
				// one recovery out of three: not a property of the image (lindb's recovery or its query engine did not behave
				// the same way three times); recorded, not a verdict of this property
				delete(res.Counters, "violations."+cls)
				res.Counters["verdicts_shown_by_only_one_of_three_recoveries_of_an_image"]++
				res.Note["unrepeatable"] = fmt.Sprintf("%s %s [the other two recoveries of the same image report %v and %v]", cls, tailStr(viol.Message, 700), classesOf(res2), classesOf(res3))
			}
			res.Violations = kept
			_ = os.RemoveAll(pristine2)
		}
		_ = os.RemoveAll(pristine)
		data, _ := json.Marshal(res)
		_, _ = out.Write(append(data, '\n'))
		_ = out.Sync()
		if os.Getenv("VERIF_C07_KEEP") == "" {
			_ = os.RemoveAll(img.Dir)
		}
		if res.Note["panicked"] != "" {
			// lindb's process-wide singletons may be in any state now: let the parent start a fresh process
			os.Exit(4)
		}
	}
	os.Exit(0)
}

func isExpectedClass(cls string) bool {
	for _, p := range []string{"C07/late-write-refused-after-log-garbage-collection/", "C07/flush-protocol-window/", "C07/half-initialised-queue-meta-page/", "C07/entry-counted-twice/data-flush-started-between-writerows-and-commitsequence"} {
		if strings.HasPrefix(cls, p) {
			return true
		}
	}
	return false
}

func unexpectedClasses(r *imgResult) []string {
	var out []string
	for _, v := range r.Violations {
		if !isExpectedClass(v.Class) {
			out = append(out, v.Class)
		}
	}
	return out
}

func classesOf(r *imgResult) []string {
	var out []string
	for _, v := range r.Violations {
		out = append(out, v.Class)
	}
	return out
}

type histJob struct {
	idx  int
	mode string
}

func parent() {
	c := core.New("C07", "fault_enumeration")
	c.SetRule("one case = one crash image of the node directory (data/index/metadata kv stores, dictionary sequence file, write-ahead-log pages) " +
		"taken after a file-system operation or a log page store of a generated history, recovered in a fresh process and compared with the ledger. " +
		"Histories: (step) log appends by 1-3 writers, local replication advanced step by step, 4-6 flush cycles in the doFlush order - about half of them " +
		"through the real dataFlushChecker.doFlush, the others step by step with rows arriving between the steps - with rows arriving at chosen " +
		"file-system operations inside the steps (among them a new tag key / field while its schema table is being closed), a drain + an idle cycle " +
		"followed by new names, data flushes started between (or concurrently with) the replicator's WriteRows and its CommitSequence, log Sync/GC, " +
		"a tail of entries that stay in the log; (free) real replica loops, 3 writers, whole flush jobs and log Sync/GC all running freely, every " +
		"4th operation imaged; (directed) minimal reproductions; (fault-job) a file-system operation of the metadata flush or of a shard's index flush " +
		"of a real flush job fails (position stratified over the id sequence sync and create/write/close/manifest-write/manifest-sync of the ns, metric, schema, tv " +
		"and metric-inverted, forward, inverted, series stores), the node keeps running, entries with new names arrive strictly between the jobs, 0-2 further " +
		"successful jobs, every operation from the failing job on imaged. " +
		"Non-trivial = image strictly inside a flush step or a WriteLog (after its first and before its last file-system event), or an image whose " +
		"recovered log acknowledgement is behind the stored sequence; distinct by (history, image content hash).")
	c.Assume("process-kill fault model: page cache and dirty shared mappings survive, user-space buffers are lost; torn 8-byte stores are not modelled")
	c.Assume("every row has value 1 in sum fields and its own 10s slot (per family) and every series its own uid: any value in an answer is attributable to the row that owns the slot")
	c.Assume("recovery = node.Open on the image (tsdb.NewEngine + CreateShards), WriteAheadLogManager.Recovery (which must rebuild the local replicators), then " +
		"GetOrCreatePartition + BuildReplicaForLeader for every (shard, family) like the next write stream does; replication is stepped only while Pending() > 0; " +
		"queries run at quiescence after replay + flush, with `limit 100000`")
	c.Assume("damage to rows inside the flush protocol window (ledger: a name created after the last completed metadata / index flush began, and a later index or data " +
		"flush had started writing) and damage explained by an id of such a row being handed out again is the open finding C07/flush-protocol-window/*; " +
		"every other row is checked strictly")
	c.Assume("race detector reports do not decide C07; no race variant is built")
	t0 := time.Now().UnixMilli() / hourMs * hourMs
	nHist := c.Pick(3, 48)
	nFree := c.Pick(1, 12)
	var jobs []histJob
	for i := 0; i < nHist; i++ {
		jobs = append(jobs, histJob{i, "step"})
	}
	for i := 0; i < nFree; i++ {
		jobs = append(jobs, histJob{1000 + i, "free"})
	}
	for i := 0; i < 4; i++ { // deterministic minimal reproductions of the genuine findings
		jobs = append(jobs, histJob{directedBase + i, "step"})
	}
	nFault := c.Pick(4, 30)
	for i := 0; i < nFault; i++ { // an I/O fault inside the metadata / index flush of a real flush job, the node keeps running
		jobs = append(jobs, histJob{faultBase + i, "step"})
	}
	scratch := c.Scratch()
	slots := runtime.NumCPU()
	if slots > 16 {
		slots = 16
	}
	if slots < 2 {
		slots = 2
	}
	sem := make(chan struct{}, slots) // child processes running at any time
	batch := c.Pick(10, 16)
	deepEvery := c.Pick(0, 7)
	var mu sync.Mutex
	sampled := 0
	baseEnv := []string{"VERIF_SEED=" + strconv.FormatInt(c.Seed, 10), "TZ=UTC", "VERIF_C07_T0=" + strconv.FormatInt(t0, 10),
		"VERIF_C07_DEEP_EVERY=" + strconv.Itoa(deepEvery)}
	histWorkers := c.Pick(3, 4)
	core.Parallel(len(jobs), histWorkers, func(ji int) {
		j := jobs[ji]
		dir := filepath.Join(scratch, fmt.Sprintf("h%04d", j.idx))
		_ = os.MkdirAll(dir, 0o755)
		sem <- struct{}{}
		cr := core.RunChild("", []string{"hist", strconv.Itoa(j.idx), dir, c.Tier}, append(baseEnv, "VERIF_C07_MODE="+j.mode),
			20*time.Minute, filepath.Join(dir, "hist.log"))
		<-sem
		L, err := loadLedger(filepath.Join(dir, "ledger.json"))
		if cr.TimedOut {
			c.Inconclusive("history %d: watchdog fired while driving: %s", j.idx, tailStr(cr.Output, 1500))
			_ = os.RemoveAll(dir)
			return
		}
		if err != nil || cr.ExitCode != 0 {
			out := tailStr(cr.Output, 4000)
			if frame := anchoredFrame(out); frame != "" {
				c.Violation("C07/node-process-died/"+frame, fmt.Sprintf("history %d: the node process died while driving: %s", j.idx, tailStr(out, 1500)), out)
			} else {
				c.Inconclusive("history %d: child failed (exit=%d err=%v): %s", j.idx, cr.ExitCode, err, tailStr(out, 1500))
			}
			_ = os.RemoveAll(dir)
			return
		}
		for _, p := range L.Problems {
			c.Violation("C07/driven-run/"+problemClass(p), fmt.Sprintf("history %d (%s): %s", j.idx, L.Config, p), nil)
		}
		if len(L.Problems) > 0 && len(L.Images) == 0 {
			_ = os.RemoveAll(dir)
			return
		}
		c.Count("histories."+L.Mode, 1)
		for k, v := range L.Counters {
			c.Count("driven."+k, v)
		}
		inside := insideImages(L)
		// verify the images in batches, each batch in its own process
		type span struct{ from, to int }
		var spans []span
		// directed histories: the images of the node set-up are covered by the generated histories
		startAt := 0
		if j.idx >= faultBase {
			// fault-job histories: the prelude (node set-up, first names, a complete job) is covered by the generated histories
			startAt = L.VerifyFrom
			c.Count("histories.fault-job", 1)
		} else if j.idx >= directedBase {
			startAt = len(L.Images)
			for _, e := range L.Entries {
				if e.First >= 0 && e.First < startAt {
					startAt = e.First
				}
			}
		}
		for f := startAt; f < len(L.Images); f += batch {
			t := f + batch
			if t > len(L.Images) {
				t = len(L.Images)
			}
			spans = append(spans, span{f, t})
		}
		results := make([]*imgResult, len(L.Images))
		var wg sync.WaitGroup
		for si, sp := range spans {
			wg.Add(1)
			go func(si int, sp span) {
				defer wg.Done()
				outFile := filepath.Join(dir, fmt.Sprintf("verify-%04d.jsonl", si))
				from := sp.from
				for attempt := 0; from < sp.to && attempt < batch+1; attempt++ {
					sem <- struct{}{}
					cr := core.RunChild("", []string{"verify", filepath.Join(dir, "ledger.json"), strconv.Itoa(from), strconv.Itoa(sp.to), outFile},
						baseEnv, 15*time.Minute, filepath.Join(dir, fmt.Sprintf("verify-%04d-%d.log", si, attempt)))
					<-sem
					done := readResults(outFile, results)
					next := from
					for next < sp.to && results[next] != nil {
						next++
					}
					_ = done
					if next >= sp.to {
						break
					}
					// the child ended before image `next` got a verdict
					if results[next] == nil {
						img := L.Images[next]
						r := &imgResult{Hist: L.Hist, Image: img.Index, Label: img.Label, Counters: map[string]int{}}
						out := tailStr(cr.Output, 5000)
						switch {
						case cr.TimedOut:
							r.Note = map[string]string{"inconclusive": "watchdog fired while recovering the image"}
						case anchoredFrame(out) != "":
							r.fail("C07/recovery-process-died/"+anchoredFrame(out), "the recovering process died: %s", tailStr(out, 2000))
						default:
							r.Note = map[string]string{"inconclusive": fmt.Sprintf("recovering process ended (exit %d): %s", cr.ExitCode, tailStr(out, 1200))}
						}
						results[next] = r
						next++
					}
					from = next
				}
			}(si, sp)
		}
		wg.Wait()
		for i, r := range results {
			if i < startAt {
				continue
			}
			if r == nil {
				c.Inconclusive("history %d image %d: no verdict", j.idx, i)
				continue
			}
			if msg := r.Note["inconclusive"]; msg != "" {
				c.Inconclusive("history %d image %d: %s", j.idx, i, msg)
				continue
			}
			c.Eval(1)
			if msg := r.Note["unrepeatable"]; msg != "" {
				c.Set("example_of_identical_queries_with_different_answers", fmt.Sprintf("history %d image %d: %s", j.idx, r.Image, msg))
			}
			for k, v := range r.Counters {
				if strings.HasPrefix(k, "violations.") {
					continue
				}
				c.Count(k, v)
			}
			if inside[i] != "" {
				c.Count("images_strictly_inside."+inside[i], 1)
				c.Nontrivial(fmt.Sprintf("h%d/%s", L.Hist, L.Images[i].Hash[:16]))
			}
			for _, k := range r.Nontrivial {
				c.Nontrivial(k)
			}
			for _, viol := range r.Violations {
				w := map[string]interface{}{"history": j.idx, "mode": L.Mode, "config": L.Config, "image": r.Image, "label": r.Label, "partitions": r.Parts,
					"flushes": L.Flushes, "entries": entriesBrief(L)}
				for n := 0; n < r.Counters["violations."+viol.Class]; n++ {
					c.Violation(viol.Class, viol.Message, w)
				}
			}
		}
		mu.Lock()
		if sampled < 3 {
			sampled++
			var labels []string
			for i, img := range L.Images {
				if i%(len(L.Images)/8+1) == 0 {
					labels = append(labels, fmt.Sprintf("%d:%s", img.Index, img.Label))
				}
			}
			c.Sample(map[string]interface{}{"history": j.idx, "mode": L.Mode, "config": L.Config, "entries": len(L.Entries), "flush_steps": len(L.Flushes),
				"images": len(L.Images), "some_image_labels": labels})
		}
		mu.Unlock()
		_ = os.RemoveAll(dir)
	})
	if c.Counter("driven.data_flush_started_between_writerows_and_commitsequence")+c.Counter("driven.data_flush_started_concurrently_with_writerows")+
		c.Counter("driven.data_flush_waited_for_commitsequence") == 0 {
		c.Inconclusive("no data flush was started between WriteRows and CommitSequence of a replicated entry")
	}
	if c.Counter("driven.arrivals_at_fs_operations_of_a_flush") == 0 {
		c.Inconclusive("no rows arrived at a file-system operation inside a flush step")
	}
	if c.Counter("driven.fault_job.meta_flush_failed_by_an_injected_io_error") == 0 || c.Counter("driven.fault_job.index_flush_failed_by_an_injected_io_error") == 0 {
		c.Inconclusive("no flush job ran with a failing metadata flush / with a failing index flush (metadata %d, index %d)",
			c.Counter("driven.fault_job.meta_flush_failed_by_an_injected_io_error"), c.Counter("driven.fault_job.index_flush_failed_by_an_injected_io_error"))
	}
	left := c.Counter("required_rows_with_names_a_failed_metadata_flush_left_behind") + c.Counter("required_rows_with_names_a_failed_index_flush_left_behind")
	retried := c.Counter("required_rows_with_names_created_after_a_failed_metadata_flush_and_covered_by_its_retry") +
		c.Counter("required_rows_with_names_created_after_a_failed_index_flush_and_covered_by_its_retry")
	if left == 0 || retried == 0 {
		c.Inconclusive("no image was judged between a failed metadata / index flush and its retry (%d required rows) or after the successful retry with names created in between (%d required rows)", left, retried)
	}
	if c.Counter("entries_replayed") == 0 || c.Counter("images_with_ack_behind_stored_sequence") == 0 {
		c.Inconclusive("recoveries never replayed an entry / no image had the log acknowledgement behind the stored sequence")
	}
	c.Finish()
}

func entriesBrief(L *ledger) []string {
	var out []string
	for _, e := range L.Entries {
		var rows []string
		for _, r := range e.Rows {
			rows = append(rows, fmt.Sprintf("%s/%s@%d", r.Metric, r.UID, r.Slot))
		}
		out = append(out, fmt.Sprintf("entry %d %s seq %d images[%d,%d) applied@%d rows %v", e.ID, e.Part, e.Seq, e.First, e.Last, e.AppliedTick, rows))
	}
	return out
}

func readResults(path string, into []*imgResult) int {
	data, err := os.ReadFile(path)
	if err != nil {
		return 0
	}
	n := 0
	for _, line := range strings.Split(string(data), "\n") {
		if strings.TrimSpace(line) == "" {
			continue
		}
		r := &imgResult{}
		if json.Unmarshal([]byte(line), r) != nil {
			continue
		}
		if r.Image >= 0 && r.Image < len(into) && into[r.Image] == nil {
			into[r.Image] = r
			n++
		}
	}
	return n
}

// insideImages tells for every image whether it was taken strictly inside an operation of the ledger.
func insideImages(L *ledger) []string {
	out := make([]string, len(L.Images))
	mark := func(first, last int, what string) {
		for k := first; k < last-1 && k < len(out); k++ {
			if k >= 0 && out[k] == "" {
				out[k] = what
			}
		}
	}
	for _, f := range L.Flushes {
		mark(f.BeginImg, f.DoneImg, f.Kind+"-flush")
	}
	for _, e := range L.Entries {
		if e.Last >= 0 {
			mark(e.First, e.Last, "write-log")
		}
	}
	return out
}

func problemClass(p string) string {
	p = strings.ToLower(p)
	for _, w := range []string{"flush failed", "writelog", "getmessage", "holds bytes", "does not know", "expired", "partition", "open node", "build entry"} {
		if strings.Contains(p, w) {
			return strings.ReplaceAll(w, " ", "-")
		}
	}
	return "other"
}

// anchoredFrame returns the first anchored lindb file appearing in a crash output.
func anchoredFrame(out string) string {
	if !strings.Contains(out, "panic") && !strings.Contains(out, "fatal error") && !strings.Contains(out, "SIGSEGV") {
		return ""
	}
	for _, f := range []string{"replica/replicator_local.go", "replica/partition.go", "replica/wal.go", "replica/wal_manager.go", "tsdb/data_family.go",
		"tsdb/data_flush_checker.go", "tsdb/database.go", "tsdb/shard.go", "tsdb/memdb/database.go", "kv/flusher.go", "kv/version/log.go",
		"index/metric_meta_database.go", "index/metric_index_database.go", "pkg/queue/consumer_group.go", "pkg/queue/", "tsdb/", "index/", "kv/", "replica/"} {
		if strings.Contains(out, "lindb/"+f) || strings.Contains(out, "/repo/"+f) || strings.Contains(out, "/"+f) {
			return strings.TrimSuffix(f, "/")
		}
	}
	return ""
}
