package main

import (
	"context"
	"fmt"
	"os"
	"path/filepath"
	"sort"
	"strings"
	"sync"
	"sync/atomic"
	"time"

	"github.com/lindb/lindb/config"
	"github.com/lindb/lindb/models"
	"github.com/lindb/lindb/pkg/compress"
	"github.com/lindb/lindb/pkg/queue"
	"github.com/lindb/lindb/replica"
	"github.com/lindb/lindb/rpc"
	"github.com/lindb/lindb/series/metric"
	"github.com/lindb/lindb/tsdb"
	"github.com/lindb/lindb/verif/internal/imgfs"
	"github.com/lindb/lindb/verif/internal/node"
	"github.com/lindb/lindb/verif/internal/seam"

	"github.com/lindb/common/pkg/ltoml"
	coordstorage "github.com/lindb/lindb/coordinator/storage"
)

type partState struct {
	dead   atomic.Bool // the WAL garbage collector removed the partition
	polled atomic.Int64
	key    partKey
	inner  replica.Partition
	outer  replica.Partition
	fam    *famWrap
	log    queue.FanOutQueue
	nodeID models.NodeID
	rep    replica.Replicator
}

type injState struct {
	inj   *injection
	seen  int
	fired bool
}

type driver struct {
	dir   string
	L     *ledger
	plan  *plan
	world *imgfs.World
	n     *node.Node
	wal   replica.WriteAheadLog
	mgr   replica.WriteAheadLogManager
	ctx   context.Context
	stop  context.CancelFunc

	mu        sync.Mutex
	parts     map[partKey]*partState
	bySeq     map[partKey]map[int64]int // (partition, sequence) -> entry index
	tick      atomic.Int64
	arriving  atomic.Bool
	active    bool
	curInj    []*injState
	curFlush  *flushRec
	real      *realTracker
	rejectN   atomic.Int64
	gate      *gcGate
	mapGate   atomic.Pointer[mapGate]
	faultAt   atomic.Pointer[string] // the next creation of a table file whose path contains this fails (one shot)
	jobFault  *jobFaultState         // the operation the running flush job loses (under mu)
	gcMu      sync.Mutex
	gen       map[partKey]int
	resMu     sync.Mutex
	cursor    map[partKey]int64
	payloads  map[partKey]map[string]int
	pending   []chan struct{}
	arrCh     chan func()
	famObsSet func(f *famWrap)
}

func (d *driver) nextTick() int64 { return d.tick.Add(1) }

func (d *driver) count(name string, n int) {
	d.mu.Lock()
	d.L.Counters[name] += n
	d.mu.Unlock()
}

func (d *driver) problem(format string, args ...interface{}) {
	d.mu.Lock()
	d.L.Problems = append(d.L.Problems, fmt.Sprintf(format, args...))
	d.mu.Unlock()
}

func walConfig() config.WAL {
	cfg := config.GlobalStorageConfig().WAL
	cfg.RemoveTaskInterval = ltoml.Duration(1000 * time.Hour) // recovery: no garbage collect task
	return cfg
}

// walConfigGC: the manager's garbage collect task ticks every few milliseconds; what it does is gated by gcGate.
func walConfigGC() config.WAL {
	cfg := config.GlobalStorageConfig().WAL
	cfg.RemoveTaskInterval = ltoml.Duration(4 * time.Millisecond)
	return cfg
}

func skipBuffers(rel string) bool {
	// memory database write buffers (removed by lindb when a shard is loaded)
	return strings.HasSuffix(rel, string(filepath.Separator)+"buffer") || strings.Contains(rel, string(filepath.Separator)+"buffer"+string(filepath.Separator))
}

// installPartitionFn makes the write-ahead log create real partitions around an observing family wrapper; the replica
// loop is driven step-wise unless free is set.
func installPartitionFn(register func(ps *partState), free bool, gates ...*gcGate) {
	var gate *gcGate
	if len(gates) > 0 {
		gate = gates[0]
	}
	replica.NewPartitionFn = func(ctx context.Context, shard tsdb.Shard, family tsdb.DataFamily, currentNodeID models.NodeID,
		log queue.FanOutQueue, cliFct rpc.ClientStreamFactory, stateMgr coordstorage.StateManager) replica.Partition {
		key := partKey{Shard: int(shard.ShardID()), Family: family.FamilyTime()}
		fw := &famWrap{DataFamily: family, key: key, curSeq: -1}
		ps := &partState{key: key, fam: fw, log: log}
		register(ps) // before the partition exists: recovery observes the log as it was opened
		inner := replica.NewPartition(ctx, shard, fw, currentNodeID, log, cliFct, stateMgr)
		ps.inner = inner
		ps.outer = &obsPartition{Partition: inner, stepped: !free, gate: gate, ps: ps}
		return ps.outer
	}
}

// noCluster is the storage state manager of a node without a cluster: remote replicators (built by recovery for a
// follower's consumer group found in a log) can register their watch, no follower is ever live.
type noCluster struct {
	coordstorage.StateManager
}

func (noCluster) WatchNodeStateChangeEvent(models.NodeID, func(models.NodeStateType)) {}

func (noCluster) GetLiveNode(models.NodeID) (models.StatefulNode, bool) {
	return models.StatefulNode{}, false
}

// bindReplicator creates the local replicator like the write handler does and remembers it.
func bindReplicator(ps *partState) error {
	if err := ps.outer.BuildReplicaForLeader(selfNode, []models.NodeID{selfNode}); err != nil {
		return err
	}
	nodes, reps := replica.VerifReplicators(ps.inner)
	for i := range nodes {
		if nodes[i] == selfNode {
			ps.nodeID, ps.rep = nodes[i], reps[i]
			return nil
		}
	}
	return fmt.Errorf("partition %s has no local replicator (%d replicators)", ps.key, len(reps))
}

func runHistory(idx int, dir, tier string, seed, t0 int64) *ledger {
	r := histRand(idx, seed)
	p := makePlan(r, idx, tier, t0)
	switch {
	case idx >= faultBase:
		p = makeFaultPlan(r, idx-faultBase, tier, seed, t0)
	case idx >= directedBase:
		p = directedPlan(idx-directedBase, t0)
	}
	L := &ledger{Hist: idx, Seed: seed, Tier: tier, Mode: "step", T0: t0, Shards: p.Shards, Families: p.Families, Old: p.Old, Counters: map[string]int{}}
	L.Config = fmt.Sprintf("shards=%d families=%d cycles=%v", p.Shards, len(p.Families), p.Cycles)
	nodeDir := filepath.Join(dir, "node")
	world := imgfs.NewWorld(nodeDir, filepath.Join(dir, "img"))
	world.SetSkip(skipBuffers)
	opKinds := map[string]int{}
	traceOps := os.Getenv("VERIF_C07_TRACE") != ""
	world.OnOp = func(label string) { // under the world lock
		if traceOps {
			fmt.Printf("op %s\n", strings.ReplaceAll(label, nodeDir, "<node>"))
		}
		kind := label
		if i := strings.IndexByte(label, ' '); i > 0 {
			kind = label[:i]
		}
		opKinds[kind]++
	}
	d := &driver{dir: dir, L: L, plan: p, world: world, parts: map[partKey]*partState{}, bySeq: map[partKey]map[int64]int{}, arrCh: make(chan func(), 4), gate: &gcGate{}}
	ic := &hookIC{world: world, before: d.before, fault: d.fault}
	seam.NoFsync = true
	seam.InstallKV(ic, &seam.Observer{AfterMap: d.afterMap})
	seam.InstallIndexSequence(ic)
	seam.InstallQueuePages(ic, nil)
	go func() {
		for fn := range d.arrCh {
			fn()
		}
	}()
	var shardIDs []models.ShardID
	for s := 0; s < p.Shards; s++ {
		shardIDs = append(shardIDs, models.ShardID(s))
	}
	n, err := node.Open(node.Options{Dir: nodeDir, Database: dbName, ShardIDs: shardIDs})
	if err != nil {
		d.problem("open node: %v", err)
		return L
	}
	d.n = n
	world.Enable(true)
	world.Snapshot("engine-opened")
	d.ctx, d.stop = context.WithCancel(context.Background())
	installPartitionFn(func(ps *partState) {
		d.mu.Lock()
		d.parts[ps.key] = ps
		d.mu.Unlock()
		ps.fam.afterWriteRows = d.afterWriteRows
		ps.fam.onWriteRows = d.onWriteRows
		ps.fam.onCommit = d.onCommit
		ps.fam.skipAck = func() bool {
			if ps.dead.Load() {
				// lindb would store the acknowledgement into the unmapped page of the consumer group the garbage
				// collector closed (the callback stays registered on the family)
				d.count("ack_callbacks_for_a_partition_the_garbage_collector_removed", 1)
				return true
			}
			return false
		}
		ps.fam.onAck = d.onAck
	}, false, d.gate)
	d.mgr = replica.NewWriteAheadLogManager(d.ctx, walConfigGC(), selfNode, n.Engine, nil, noCluster{})
	d.wal = d.mgr.GetOrCreateLog(dbName)
	// partitions: what the storage write handler does when the first write stream of a (shard, family, leader) arrives
	for s := 0; s < p.Shards; s++ {
		for _, fam := range p.Families {
			key := partKey{Shard: s, Family: fam}
			L.Parts = append(L.Parts, key)
			if _, err := d.wal.GetOrCreatePartition(models.ShardID(s), fam, selfNode); err != nil {
				d.problem("create partition %s: %v", key, err)
				return L
			}
			ps := d.parts[key]
			if ps == nil {
				d.problem("partition %s was not created through NewPartitionFn", key)
				return L
			}
			if err := bindReplicator(ps); err != nil {
				d.problem("build replica %s: %v", key, err)
				return L
			}
		}
	}
	for i := range p.Steps {
		d.runStep(&p.Steps[i])
	}
	world.Snapshot("final")
	world.Enable(false)
	for _, img := range world.Images() {
		L.Images = append(L.Images, imageRec{Index: img.Index, Label: strings.ReplaceAll(img.Label, nodeDir, "<node>"), Dir: img.Dir, Hash: img.Hash})
	}
	L.Counters["images"] = len(L.Images)
	L.Counters["seam_ops"] = int(world.Ops())
	world.Locked(func() {
		for k, v := range opKinds {
			L.Counters["seam_op."+k] = v
		}
	})
	// the process ends here without closing anything: every image is a state a killed node leaves behind
	return L
}

func (d *driver) runStep(s *planStep) {
	switch s.Kind {
	case "arrive":
		d.runActions(s.Actions)
	case "sync":
		for _, key := range d.L.Parts {
			// partition.IsExpire: FanOutQueue.Sync (queue ack = min consumer group ack) + Queue.GC. (Old families are
			// left to the garbage collect task: IsExpire stops the replicator of a drained partition of an old family.)
			if key.Family == d.L.Old || d.parts[key].dead.Load() {
				continue
			}
			if d.parts[key].inner.IsExpire() {
				d.problem("partition %s of a current family reported expired", key)
			}
		}
		d.count("log_sync_gc", 1)
	case "gc":
		d.walGC()
	case "close":
		d.shutdown(s)
	case "cleanup-race":
		d.cleanupRace(s)
	case "recreate":
		d.recreate(partKey{Shard: s.Shard, Family: s.Family})
	case "meta":
		rec := d.beginFlush(s)
		if err := d.n.DB.FlushMeta(); err != nil {
			rec.Err = err.Error()
		}
		d.n.DB.WaitFlushMetaCompleted()
		d.endFlush(rec)
	case "index":
		rec := d.beginFlush(s)
		shard, _ := d.n.DB.GetShard(models.ShardID(s.Shard))
		if err := shard.FlushIndex(); err != nil {
			rec.Err = err.Error()
		}
		shard.WaitFlushIndexCompleted()
		d.endFlush(rec)
	case "data":
		d.flushData(s)
	case "cycle":
		d.realCycle(s)
	}
}

// realTracker follows a flush job run by the real dataFlushChecker.doFlush through the labels of its file-system
// operations: which store is being written tells which step of the job is running.
type realTracker struct {
	recs   map[string]*flushRec
	order  []string
	last   map[int]string // shard -> data key seen last (manifest operations of a day store do not name the family)
	lastOp int64
}

func (d *driver) realCycle(s *planStep) { d.trackedCycle(s, nil) }

// shutdown: what databaseLifecycle.Shutdown does - stop the replicators, close the engine (flushes metadata, indexes and
// every memory database a family still holds), close the logs - with every file-system operation imaged.
func (d *driver) shutdown(s *planStep) {
	d.trackedCycle(s, func() {
		d.mgr.Stop()
		d.n.Engine.Close()
		if err := d.mgr.Close(); err != nil {
			d.problem("close write ahead log: %v", err)
		}
	})
	d.count("shutdowns_under_crash_imaging", 1)
	for _, key := range d.L.Parts {
		d.parts[key].dead.Store(true) // nothing can be appended or replicated any more
	}
}

// trackedCycle runs a flush job of the real doFlush (run == nil) or another operation that flushes metadata, indexes
// and family data in that order, and derives the flush records from the labels of the file-system operations.
func (d *driver) trackedCycle(s *planStep, run func()) {
	tr := &realTracker{recs: map[string]*flushRec{}, last: map[int]string{}}
	mk := func(key, kind string, shard int, fam int64) {
		tr.recs[key] = &flushRec{Kind: kind, Shard: shard, Family: fam, Cycle: s.Cycle, PersistSeq: -1, Real: true, BeginImg: -1, DoneImg: -1}
		tr.order = append(tr.order, key)
	}
	mk("meta", "meta", 0, 0)
	var families []tsdb.DataFamily
	for sh := 0; sh < d.plan.Shards; sh++ {
		mk(fmt.Sprintf("index/%d", sh), "index", sh, 0)
		for _, fam := range d.plan.Families {
			mk(fmt.Sprintf("data/%d/%d", sh, fam), "data", sh, fam)
			families = append(families, d.parts[partKey{Shard: sh, Family: fam}].fam.DataFamily)
		}
	}
	agg := &flushRec{Kind: "cycle"}
	d.mu.Lock()
	d.curInj = nil
	for i := range s.Inject {
		d.curInj = append(d.curInj, &injState{inj: &s.Inject[i]})
	}
	d.curFlush = agg
	d.real = tr
	d.active = true
	d.jobFault = nil
	if s.FaultOp != nil {
		d.jobFault = &jobFaultState{spec: s.FaultOp}
	}
	d.mu.Unlock()
	job := jobRec{Cycle: s.Cycle, BeginImg: d.world.Count()}
	if s.FaultOp != nil {
		job.Target = s.FaultOp.Target
		d.mu.Lock()
		if d.L.VerifyFrom == 0 {
			d.L.VerifyFrom = job.BeginImg
		}
		d.mu.Unlock()
	}
	call := d.nextTick()
	job.BeginTick = call
	for _, rec := range tr.recs {
		rec.BeginTick = call
		rec.SwitchLo = call
	}
	tr.lastOp = call
	if run != nil {
		run()
	} else {
		tsdb.VerifDoFlush(d.n.DB, families)
	}
	d.mu.Lock()
	d.active = false
	d.real = nil
	pend := d.pending
	d.pending = nil
	d.curFlush = nil
	jf := d.jobFault
	d.jobFault = nil
	d.mu.Unlock()
	for _, ch := range pend {
		<-ch
	}
	end, endImg := d.nextTick(), d.world.Count()
	job.DoneTick, job.DoneImg = end, endImg
	d.mu.Lock()
	if jf != nil {
		d.noteJobFault(tr, jf, &job)
	}
	if run == nil {
		d.L.Jobs = append(d.L.Jobs, job)
	}
	for _, key := range tr.order {
		rec := tr.recs[key]
		if rec.BeginImg < 0 { // the store was not written at all
			rec.BeginImg, rec.BeginTickHi, rec.SwitchLo = endImg, end, end
			rec.Skipped = true
		}
		if rec.DoneImg < 0 {
			rec.DoneImg, rec.DoneTick = endImg, end
		}
		if rec.Kind == "data" {
			if seq, ok := d.parts[partKey{Shard: rec.Shard, Family: rec.Family}].fam.DataFamily.GetState().AckSequences[selfNode]; ok {
				rec.PersistSeq = seq
			}
		}
		d.L.Flushes = append(d.L.Flushes, *rec)
		d.L.Counters["flush."+rec.Kind]++
	}
	if run != nil {
		d.L.Counters["flush_cycles_run_by_the_real_doFlush"]--
	}
	d.L.Counters["flush_cycles_run_by_the_real_doFlush"]++
	d.L.Counters["arrivals_at_fs_operations_of_a_flush"] += agg.Injected
	d.L.Counters["arrivals_overlapping_the_flush_operation"] += agg.Overlapped
	d.mu.Unlock()
}

// observe is called (under d.mu) for every non-log operation of a real flush job.
func (tr *realTracker) observe(d *driver, label string) {
	key := ""
	switch {
	case label == "seqsync" || strings.Contains(label, "/"+dbName+"/meta/"):
		key = "meta"
	case strings.Contains(label, "/shard/"):
		rest := label[strings.Index(label, "/shard/")+len("/shard/"):]
		sh := 0
		fmt.Sscanf(rest, "%d", &sh)
		switch {
		case strings.Contains(rest, "/index/"):
			key = fmt.Sprintf("index/%d", sh)
		case strings.Contains(rest, "/segment/"):
			// .../segment/day/20260924/8/000002.sst names the family (hour 8 of the day); the day store's manifest does not
			seg := rest[strings.Index(rest, "/segment/")+len("/segment/"):]
			var day, hour int
			var typ string
			parts := strings.Split(seg, "/")
			if len(parts) >= 4 {
				typ = parts[0]
				fmt.Sscanf(parts[1], "%d", &day)
				if _, err := fmt.Sscanf(parts[2], "%d", &hour); err == nil && typ == "day" {
					t := time.Date(day/10000, time.Month(day/100%100), day%100, hour, 0, 0, 0, time.UTC)
					key = fmt.Sprintf("data/%d/%d", sh, t.UnixMilli())
					tr.last[sh] = key
				}
			}
			if key == "" {
				key = tr.last[sh]
			}
		}
	}
	rec := tr.recs[key]
	if rec == nil {
		return
	}
	now, img := d.tick.Add(1), d.world.Count()
	if rec.BeginImg < 0 {
		rec.BeginImg, rec.BeginTickHi, rec.SwitchLo = img, now, tr.lastOp
	}
	tr.lastOp = now
	// a later step has started: the earlier ones are complete
	done := func(k string) {
		if r := tr.recs[k]; r != nil && r.DoneImg < 0 {
			r.DoneImg, r.DoneTick = img, now
		}
	}
	switch rec.Kind {
	case "index":
		done("meta")
	case "data":
		done("meta")
		done(fmt.Sprintf("index/%d", rec.Shard))
	}
}

func (d *driver) beginFlush(s *planStep) *flushRec {
	rec := &flushRec{Kind: s.Kind, Shard: s.Shard, Family: s.Family, Cycle: s.Cycle, PersistSeq: -1}
	d.mu.Lock()
	d.curInj = nil
	for i := range s.Inject {
		d.curInj = append(d.curInj, &injState{inj: &s.Inject[i]})
	}
	d.curFlush = rec
	d.active = true
	d.mu.Unlock()
	rec.BeginImg = d.world.Count()
	rec.BeginTick = d.nextTick()
	rec.BeginTickHi = rec.BeginTick
	rec.SwitchLo = rec.BeginTick
	return rec
}

func (d *driver) endFlush(rec *flushRec) {
	d.mu.Lock()
	d.active = false
	pend := d.pending
	d.pending = nil
	d.curFlush = nil
	d.mu.Unlock()
	for _, ch := range pend {
		<-ch
	}
	rec.DoneTick = d.nextTick()
	rec.DoneImg = d.world.Count()
	if rec.Err != "" && !rec.Fault {
		d.problem("%s flush failed: %s", rec.Kind, rec.Err)
	}
	if rec.Fault {
		if rec.Err == "" {
			d.problem("the injected table file fault did not make the %s flush fail", rec.Kind)
		}
		d.count("data_flushes_failed_by_an_injected_table_file_fault", 1)
	}
	d.mu.Lock()
	d.L.Flushes = append(d.L.Flushes, *rec)
	d.L.Counters["flush."+rec.Kind]++
	d.L.Counters["arrivals_at_fs_operations_of_a_flush"] += rec.Injected
	d.L.Counters["arrivals_overlapping_the_flush_operation"] += rec.Overlapped
	d.mu.Unlock()
}

func (d *driver) flushData(s *planStep) {
	key := partKey{Shard: s.Shard, Family: s.Family}
	ps := d.parts[key]
	real := ps.fam.DataFamily
	shard, _ := d.n.DB.GetShard(models.ShardID(s.Shard))
	doFlush := func() *flushRec {
		rec := d.beginFlush(s)
		if s.Fault {
			// a transient fault: the table file of this flush cannot be created (the node keeps running)
			rec.Fault = true
			m := segmentPath(s.Shard, s.Family)
			d.faultAt.Store(&m)
		}
		if err := real.Flush(); err != nil {
			rec.Err = err.Error()
		}
		shard.BufferManager().GarbageCollect()
		if seq, ok := real.GetState().AckSequences[selfNode]; ok {
			rec.PersistSeq = seq
		}
		return rec
	}
	if len(s.Racing) > 0 && !ps.dead.Load() && d.racingPossible(s.Racing) {
		// the flush checker's family.Flush starts while the local replicator is between WriteRows and CommitSequence
		// of an entry (a legal schedule: the replicator holds no lock there)
		ids := d.appendRows(s.Racing, 1, false)
		for ps.rep.Pending() > 1 {
			d.stepOnce(ps)
		}
		if len(ids) == 1 && ps.rep.Pending() == 1 {
			var rec *flushRec
			d.mu.Lock()
			raceSeq := d.L.Entries[ids[0]].Seq
			d.mu.Unlock()
			prev := ps.fam.afterWriteRows
			prevOn := ps.fam.onWriteRows
			// the flush runs in its own goroutine (like the flush checker's worker). The replicator waits for it between
			// WriteRows and CommitSequence - but not forever: a lindb that makes the flush wait for CommitSequence must
			// not hang the history.
			done := make(chan struct{})
			started := false
			start := func() {
				started = true
				go func() {
					r := doFlush()
					r.Racing = true
					rec = r
					close(done)
				}()
			}
			blocked := false
			ps.fam.onWriteRows = func(k partKey, seq int64, rows []*metric.StorageRow) {
				prevOn(k, seq, rows)
				if seq == raceSeq && s.RaceDuring {
					// concurrently with WriteRows: the flush may freeze the memory database while the rows are written
					start()
				}
			}
			ps.fam.afterWriteRows = func(k partKey, seq int64) {
				prev(k, seq)
				if seq == raceSeq {
					if !s.RaceDuring {
						start()
					}
					select {
					case <-done:
					case <-time.After(time.Second):
						blocked = true
					}
				}
			}
			d.stepOnce(ps)
			ps.fam.afterWriteRows = prev
			ps.fam.onWriteRows = prevOn
			if started {
				<-done
			}
			if blocked {
				d.count("data_flush_waited_for_commitsequence", 1)
				d.endFlush(rec)
				return
			}
			if rec != nil {
				d.mu.Lock()
				d.L.Entries[ids[0]].Raced = true
				d.mu.Unlock()
				d.endFlush(rec)
				if s.RaceDuring {
					d.count("data_flush_started_concurrently_with_writerows", 1)
				} else {
					d.count("data_flush_started_between_writerows_and_commitsequence", 1)
				}
				return
			}
		}
	} else if len(s.Racing) > 0 {
		d.appendRows(s.Racing, 1, false)
		d.count("racing_flush_not_possible", 1)
	}
	d.endFlush(doFlush())
}

// racingPossible: all series of the rows were applied before a completed metadata flush and a completed index flush
// of their shard began (their names are durable by the protocol).
func (d *driver) racingPossible(rows []rowRec) bool {
	d.mu.Lock()
	defer d.mu.Unlock()
	var lastMeta, lastIndex int64
	for _, f := range d.L.Flushes {
		if f.Kind == "meta" && f.BeginTick > lastMeta {
			lastMeta = f.BeginTick
		}
		if f.Kind == "index" && f.Shard == rows[0].Shard && f.BeginTick > lastIndex {
			lastIndex = f.BeginTick
		}
	}
	limit := lastMeta
	if lastIndex < limit {
		limit = lastIndex
	}
	for _, row := range rows {
		found := false
		for _, e := range d.L.Entries {
			for _, er := range e.Rows {
				if er.Metric == row.Metric && er.UID == row.UID && er.NewSer {
					found = e.AppliedTick > 0 && e.AppliedTick < limit
				}
			}
		}
		if !found {
			return false
		}
	}
	return true
}

// mapGate parks the goroutine that maps a table file whose path contains match (one shot): with match = the shard's
// index store that is the shard's index worker looking a series up.
type mapGate struct {
	match   string
	taken   atomic.Bool
	parked  chan struct{}
	release chan struct{}
}

func (d *driver) afterMap(path string) {
	g := d.mapGate.Load()
	if g == nil || !strings.Contains(path, g.match) || !g.taken.CompareAndSwap(false, true) {
		return
	}
	close(g.parked)
	<-g.release
}

// cleanupRace: see directed history 2003.
func (d *driver) cleanupRace(s *planStep) {
	if len(s.Actions) != 3 {
		return
	}
	psA := d.parts[partKey{Shard: s.Shard, Family: s.Actions[0].Rows[0].Family}]
	psC := d.parts[partKey{Shard: s.Shard, Family: s.Actions[1].Rows[0].Family}]
	psB := d.parts[partKey{Shard: s.Shard, Family: s.Actions[2].Rows[0].Family}]
	// A: a point of a series the memory index knows - the index worker is not involved
	d.appendRows(s.Actions[0].Rows, 1, false)
	for psA.rep.Pending() > 0 {
		d.stepOnce(psA)
	}
	// C: a new series; the index worker looks its tags up in the flushed series table and is parked there
	g := &mapGate{match: fmt.Sprintf("/shard/%d/index/", s.Shard), parked: make(chan struct{}), release: make(chan struct{})}
	d.mapGate.Store(g)
	var wg sync.WaitGroup
	d.appendRows(s.Actions[1].Rows, 1, false)
	wg.Add(1)
	go func() { defer wg.Done(); d.stepOnce(psC) }()
	select {
	case <-g.parked:
	case <-time.After(15 * time.Second):
		d.problem("the index worker did not reach the table lookup it was to be parked at")
		close(g.release)
		wg.Wait()
		return
	}
	// B: the first row of a brand-new metric: WriteRow creates its time series index and hands the row to the (parked) worker
	d.appendRows(s.Actions[2].Rows, 1, false)
	wg.Add(1)
	go func() { defer wg.Done(); d.stepOnce(psB) }()
	written := false
	for i := 0; i < 3000 && !written; i++ { // pacing: until the row is in the memory database of B
		for _, m := range psB.fam.DataFamily.GetState().MemoryDatabases {
			if m.State == "mutable" && m.NumOfSeries > 0 {
				written = true
			}
		}
		if !written {
			time.Sleep(2 * time.Millisecond)
		}
	}
	if !written {
		d.problem("the row of the new metric did not reach the memory database while the index worker was parked")
	}
	// A: flush and close its memory database (IndexDatabase.Cleanup runs for the shard)
	d.flushData(&planStep{Kind: "data", Cycle: s.Cycle, CycKind: "cleanup-race", Shard: s.Shard, Family: psA.key.Family})
	close(g.release)
	done := make(chan struct{})
	go func() { wg.Wait(); close(done) }()
	select {
	case <-done:
		d.count("memory_database_closed_while_the_first_row_of_a_new_metric_waited_for_the_index_worker", 1)
	case <-time.After(30 * time.Second):
		d.problem("replication of the rows that waited for the index worker did not complete")
	}
}

// fault answers whether the operation fails instead of running (injected table file fault).
func (d *driver) fault(label string) error {
	if err := d.jobFaultAt(label); err != nil {
		return err
	}
	m := d.faultAt.Load()
	if m == nil || !strings.HasPrefix(label, "create ") || !strings.Contains(label, *m) {
		return nil
	}
	if !d.faultAt.CompareAndSwap(m, nil) {
		return nil
	}
	return fmt.Errorf("injected fault: cannot create %s", label[len("create "):])
}

// before runs ahead of every seam operation, outside the world lock.
func (d *driver) before(label string) {
	if d.arriving.Load() || strings.Contains(label, "/wal/") {
		return
	}
	d.mu.Lock()
	if !d.active {
		d.mu.Unlock()
		return
	}
	if d.real != nil {
		d.real.observe(d, label)
	}
	var fire *injection
	for _, st := range d.curInj {
		if st.fired || !strings.HasPrefix(label, st.inj.Prefix) || !strings.Contains(label, st.inj.Contains) {
			continue
		}
		if st.seen == st.inj.Nth {
			st.fired = true
			fire = st.inj
			break
		}
		st.seen++
	}
	rec := d.curFlush
	d.mu.Unlock()
	if fire == nil {
		return
	}
	done := make(chan struct{})
	d.arrCh <- func() {
		d.arriving.Store(true)
		d.runActions(fire.Actions)
		d.arriving.Store(false)
		close(done)
	}
	d.mu.Lock()
	rec.Injected++
	if fire.Targeted != "" {
		d.L.Counters["targeted_arrival."+fire.Targeted]++
	}
	d.mu.Unlock()
	select {
	case <-done:
	case <-time.After(1500 * time.Millisecond):
		// the arriving rows need a lock the flushing goroutine holds around this operation: let the operation go on,
		// the rows complete concurrently with the rest of the flush step
		d.mu.Lock()
		rec.Overlapped++
		d.pending = append(d.pending, done)
		d.mu.Unlock()
	}
}

// ackFollower makes sure the partition has a second consumer group - the one a remote replicator to follower node 2
// would own - that has consumed and acknowledged everything appended so far. (IsExpire closes a drained group of an
// old partition, so the group is looked up again every time.)
func (d *driver) ackFollower(ps *partState) {
	cg, err := ps.log.GetOrCreateConsumerGroup("2")
	if err != nil {
		d.problem("follower consumer group of %s: %v", ps.key, err)
		return
	}
	cg.SetSeq(ps.log.Queue().AppendedSeq())
	d.count("follower_group_acknowledged_everything", 1)
}

// recreate does what the storage write handler does when a write stream arrives for a (shard, family, leader) whose
// log partition the garbage collector has removed: GetOrCreatePartition + BuildReplicaForLeader (a new, empty log).
func (d *driver) recreate(key partKey) {
	old := d.parts[key]
	if old == nil || !old.dead.Load() {
		return
	}
	if _, err := d.wal.GetOrCreatePartition(models.ShardID(key.Shard), key.Family, selfNode); err != nil {
		d.problem("re-create partition %s: %v", key, err)
		return
	}
	ps := d.parts[key]
	if ps == old {
		d.problem("partition %s was not re-created", key)
		return
	}
	if err := bindReplicator(ps); err != nil {
		d.problem("build replica %s: %v", key, err)
		return
	}
	d.resMu.Lock()
	delete(d.cursor, key)
	d.resMu.Unlock()
	d.mu.Lock()
	delete(d.bySeq, key)
	delete(d.payloads, key)
	if d.gen == nil {
		d.gen = map[partKey]int{}
	}
	d.gen[key]++
	d.L.Counters["log_partitions_recreated_after_garbage_collection"]++
	d.mu.Unlock()
}

// walGC opens the gate for the manager's garbage collect task until it has asked every live partition once and has
// finished that pass (= started the next one), and notes which partitions it removed.
func (d *driver) walGC() {
	d.gcMu.Lock()
	defer d.gcMu.Unlock()
	type st struct {
		ps     *partState
		before int64
	}
	var live []st
	oldAlive := false
	for _, key := range d.L.Parts {
		if ps := d.parts[key]; !ps.dead.Load() {
			live = append(live, st{ps, 0})
			if key.Family == d.L.Old {
				oldAlive = true
			}
		}
	}
	if len(live) == 0 {
		return
	}
	// IsExpire walks the consumer groups of a partition in map order: several passes while a partition of the old family
	// has a second (follower) consumer group that has acknowledged everything
	passes := 1
	if oldAlive {
		passes = 3
	}
	passDone := true
	for pass := 0; pass < passes && passDone; pass++ {
		for i := range live {
			live[i].before = live[i].ps.polled.Load()
			if ps := live[i].ps; ps.key.Family == d.L.Old && !ps.dead.Load() {
				d.ackFollower(ps)
			}
		}
		d.gate.open.Store(true)
		deadline := time.Now().Add(20 * time.Second) // watchdog
		passDone = false
		for !passDone && time.Now().Before(deadline) {
			time.Sleep(time.Millisecond)
			all := true
			for _, l := range live {
				if l.ps.polled.Load() == l.before && !l.ps.dead.Load() {
					all = false
				}
			}
			if !all {
				continue
			}
			// every partition was asked; the pass (stop, close, remove of the expired ones) is over when the task asks again
			mark := d.gate.polls.Load()
			for time.Now().Before(deadline) {
				stillLive := false
				for _, l := range live {
					if !l.ps.dead.Load() {
						stillLive = true
					}
				}
				if d.gate.polls.Load() > mark || !stillLive {
					passDone = true
					break
				}
				time.Sleep(time.Millisecond)
			}
		}
		d.gate.open.Store(false)
		// let a poll that slipped through the closing gate finish before the follower group is touched again
		time.Sleep(10 * time.Millisecond)
		d.count("wal_garbage_collect_passes", 1)
	}
	if !passDone {
		d.problem("garbage collect task did not complete a pass")
	}
	d.count("wal_garbage_collect_runs", 1)
	for _, l := range live {
		ps, key := l.ps, l.ps.key
		if !ps.dead.Load() {
			if key.Family == d.L.Old {
				d.count("wal_garbage_collect_kept_a_partition_of_the_old_family", 1)
			}
			continue
		}
		// the directory is removed right after Close: wait for it (pacing)
		for i := 0; i < 2000; i++ {
			if _, err := os.Stat(ps.log.Path()); err != nil {
				break
			}
			time.Sleep(time.Millisecond)
		}
		rec := removalRec{Part: key, Tick: d.nextTick(), Img: d.world.Count(), Appended: -1, Stored: -1}
		d.mu.Lock()
		for _, e := range d.L.Entries {
			if e.Part == key && e.Seq > rec.Appended {
				rec.Appended = e.Seq
			}
		}
		d.mu.Unlock()
		if seq, ok := ps.fam.DataFamily.GetState().AckSequences[selfNode]; ok {
			rec.Stored = seq
		}
		d.mu.Lock()
		d.L.Removals = append(d.L.Removals, rec)
		d.L.Counters["log_partitions_removed_by_the_garbage_collector"]++
		if rec.Stored < rec.Appended {
			d.L.Counters["log_partitions_removed_with_unflushed_entries"]++
		}
		d.mu.Unlock()
	}
	d.world.Snapshot("wal-gc")
}

func (d *driver) runActions(acts []action) {
	for i := range acts {
		a := &acts[i]
		switch a.Kind {
		case "append":
			d.appendRows(a.Rows, a.Writers, a.Split, a.Reject)
		case "replicate":
			for _, key := range d.L.Parts {
				ps := d.parts[key]
				if ps.dead.Load() {
					continue
				}
				for i := 0; (a.Steps < 0 || i < a.Steps) && ps.rep.Pending() > 0; i++ {
					d.stepOnce(ps)
				}
			}
		}
	}
}

// appendRows builds the entries of the rows and appends them with WriteLog from `writers` concurrent callers.
func (d *driver) appendRows(rows []rowRec, writers int, split bool, reject ...string) []int {
	var built []builtEntry
	if split {
		for i := range rows {
			b, err := buildEntries(rows[i:i+1], d.plan.Shards)
			if err != nil {
				d.problem("build entry: %v", err)
				return nil
			}
			built = append(built, b...)
		}
	} else {
		b, err := buildEntries(rows, d.plan.Shards)
		if err != nil {
			d.problem("build entry: %v", err)
			return nil
		}
		built = b
	}
	live := built[:0]
	for _, b := range built {
		if d.parts[b.part].dead.Load() {
			d.count("entries_not_appended_because_their_partition_was_removed", 1)
			continue
		}
		live = append(live, b)
	}
	built = live
	if len(built) == 0 {
		return nil
	}
	// entries the local replicator cannot apply, appended right behind the valid entries of the same partition
	for _, kind := range reject {
		if kind == "" || len(built) == 0 {
			continue
		}
		built = append(built, builtEntry{part: built[0].part, payload: d.rejectPayload(kind), reject: kind})
		writers = 1 // keep the order: valid entries first
	}
	if writers < 1 {
		writers = 1
	}
	if writers > len(built) {
		writers = len(built)
	}
	before := map[partKey]int64{}
	for _, b := range built {
		before[b.part] = d.parts[b.part].log.Queue().AppendedSeq()
	}
	ids := make([]int, len(built))
	d.mu.Lock()
	for i, b := range built {
		e := entryRec{ID: len(d.L.Entries), Part: b.part, Seq: -1, Rows: b.rows, First: -1, Last: -1, Writers: writers, Reject: b.reject, Garbage: b.reject != "", Gen: d.gen[b.part]}
		if b.reject != "" {
			d.L.Counters["rejected_entries_appended."+b.reject]++
		}
		ids[i] = e.ID
		d.L.Entries = append(d.L.Entries, e)
		if d.payloads == nil {
			d.payloads = map[partKey]map[string]int{}
		}
		if d.payloads[b.part] == nil {
			d.payloads[b.part] = map[string]int{}
		}
		d.payloads[b.part][string(b.payload)] = e.ID // payloads are unique (every row has its own uid / slot)
	}
	d.mu.Unlock()
	var wg sync.WaitGroup
	for w := 0; w < writers; w++ {
		wg.Add(1)
		go func(w int) {
			defer wg.Done()
			for i := w; i < len(built); i += writers {
				first := d.world.Count()
				wt := d.nextTick()
				err := d.parts[built[i].part].outer.WriteLog(built[i].payload)
				last := d.world.Count()
				d.mu.Lock()
				e := &d.L.Entries[ids[i]]
				e.First, e.WriteTick = first, wt
				if err != nil {
					d.L.Problems = append(d.L.Problems, fmt.Sprintf("WriteLog entry %d: %v", e.ID, err))
				} else {
					e.Last = last
				}
				d.mu.Unlock()
			}
		}(w)
	}
	wg.Wait()
	// which sequence did each entry get? (WriteLog does not tell; with concurrent writers only the log knows)
	for part := range before {
		d.resolveSeqs(part)
	}
	d.count("entries_appended", len(built))
	if writers > 1 {
		d.count("append_actions_with_concurrent_writers", 1)
	}
	return ids
}

// rejectPayload builds a log entry the local replicator cannot apply (unique bytes per entry).
//
//	corrupt  not a snappy stream: Uncompress fails, the replicator calls IgnoreMessage
//	garbage  a valid snappy stream of bytes that are not flat rows: UnmarshalRows panics (recovered by partition.replica)
func (d *driver) rejectPayload(kind string) []byte {
	n := d.rejectN.Add(1)
	switch kind {
	case "garbage":
		w := compress.NewSnappyWriter()
		_, _ = w.Write([]byte{0xde, 0xad, 0xbe, 0xef, 1, 2, 3, 4, 5, 6, 7, 8, 9, 10, 11, 12, 13, 14, 15, 16, byte(n), byte(n >> 8)})
		_ = w.Close()
		data := w.Bytes()
		_ = w.Close() // Bytes() re-arms the writer (a goroutine of the s2 stream writer); the writer is dropped here
		return data
	default:
		return []byte{1, 2, 3, byte(n), byte(n >> 8), 0xff}
	}
}

// resolveSeqs reads the messages the log of a partition received since the last call and finds the entries they are.
func (d *driver) resolveSeqs(part partKey) {
	d.resMu.Lock()
	defer d.resMu.Unlock()
	ps := d.parts[part]
	if ps.dead.Load() {
		return
	}
	if d.cursor == nil {
		d.cursor = map[partKey]int64{}
	}
	cur, ok := d.cursor[part]
	if !ok {
		// a log starts behind its acknowledged sequence (-1 for a brand-new one)
		cur = ps.log.Queue().AcknowledgedSeq()
	}
	to := ps.log.Queue().AppendedSeq()
	for seq := cur + 1; seq <= to; seq++ {
		msg, err := ps.rep.GetMessage(seq)
		if err != nil {
			d.problem("GetMessage(%d) of %s: %v", seq, part, err)
			d.cursor[part] = seq
			continue
		}
		d.mu.Lock()
		id, found := d.payloads[part][string(msg)]
		if found && d.L.Entries[id].Seq < 0 {
			d.L.Entries[id].Seq = seq
			if d.bySeq[part] == nil {
				d.bySeq[part] = map[int64]int{}
			}
			d.bySeq[part][seq] = id
			delete(d.payloads[part], string(msg))
		} else {
			d.L.Problems = append(d.L.Problems, fmt.Sprintf("log sequence %d of %s holds bytes no writer appended", seq, part))
		}
		d.mu.Unlock()
		d.cursor[part] = seq
	}
}

// entryOf finds the ledger entry of a log sequence (reading the log when the writer has not done so yet).
func (d *driver) entryOf(key partKey, seq int64) (int, bool) {
	d.mu.Lock()
	id, ok := d.bySeq[key][seq]
	d.mu.Unlock()
	if ok {
		return id, true
	}
	d.resolveSeqs(key)
	d.mu.Lock()
	id, ok = d.bySeq[key][seq]
	d.mu.Unlock()
	return id, ok
}

func (d *driver) stepOnce(ps *partState) {
	replica.VerifReplicaStep(ps.inner, ps.nodeID, ps.rep)
	d.count("replication_steps", 1)
}

func (d *driver) onWriteRows(key partKey, seq int64, _ []*metric.StorageRow) {
	t := d.nextTick()
	if id, ok := d.entryOf(key, seq); ok {
		d.mu.Lock()
		d.L.Entries[id].ApplyLo = t
		d.mu.Unlock()
	}
}

func (d *driver) onCommit(key partKey, seq int64) {
	t := d.nextTick()
	if id, ok := d.entryOf(key, seq); ok {
		d.mu.Lock()
		d.L.Entries[id].CommitTick = t
		d.mu.Unlock()
	}
}

// afterWriteRows: the local replicator's WriteRows returned (rows are in the memory database, names and series were
// created), CommitSequence not yet called.
func (d *driver) afterWriteRows(key partKey, seq int64) {
	t := d.nextTick()
	id0, known := d.entryOf(key, seq)
	d.mu.Lock()
	var rows []rowRec
	if known {
		rows = d.L.Entries[id0].Rows
	}
	d.mu.Unlock()
	var ids []rowIDs
	for i := range rows {
		ids = append(ids, lookupIDs(d.n, &rows[i]))
	}
	d.mu.Lock()
	if id, ok := d.bySeq[key][seq]; ok {
		d.L.Entries[id].IDs = ids
		d.L.Entries[id].AppliedTick = t
		if d.active {
			d.L.Counters["entries_applied_during_a_flush_step"]++
		}
	} else {
		d.L.Problems = append(d.L.Problems, fmt.Sprintf("replicator wrote sequence %d of %s which the ledger does not know", seq, key))
	}
	d.mu.Unlock()
}

func (d *driver) onAck(key partKey, seq int64) {
	t := d.nextTick()
	img := d.world.Count()
	d.mu.Lock()
	d.L.Acks = append(d.L.Acks, ackRec{Part: key, Seq: seq, Tick: t, Img: img})
	d.mu.Unlock()
}

func sortedParts(m map[partKey]*partState) []partKey {
	var keys []partKey
	for k := range m {
		keys = append(keys, k)
	}
	sort.Slice(keys, func(i, j int) bool {
		if keys[i].Shard != keys[j].Shard {
			return keys[i].Shard < keys[j].Shard
		}
		return keys[i].Family < keys[j].Family
	})
	return keys
}

var _ = metric.NewStorageBatchRows
var _ = os.Getenv
