package main

import (
	"bytes"
	"fmt"
	"os"
	"strings"
	"sync"
	"sync/atomic"

	protoMetricsV1 "github.com/lindb/common/proto/gen/v1/linmetrics"

	"github.com/lindb/lindb/models"
	"github.com/lindb/lindb/pkg/compress"
	"github.com/lindb/lindb/pkg/timeutil"
	"github.com/lindb/lindb/replica"
	"github.com/lindb/lindb/series/metric"
	"github.com/lindb/lindb/tsdb"
	"github.com/lindb/lindb/verif/internal/imgfs"
)

// hookIC is the seam interceptor of the driven run: the world lock + image of imgfs, preceded by a hook that runs
// outside the world lock (it lets rows arrive right before a chosen file-system operation of a flush).
type hookIC struct {
	world  *imgfs.World
	before func(label string)
	fault  func(label string) error // non-nil answer: the operation fails with it instead of running
	// sample > 1: only about every sample-th operation is followed by an image (free running histories: less
	// serialisation, the goroutines of the node interleave more freely)
	sample int64
	n      atomic.Int64
}

func (h *hookIC) Do(label string, op func() error) error {
	if b := h.before; b != nil {
		b(label)
	}
	if h.fault != nil {
		if err := h.fault(label); err != nil {
			return err
		}
	}
	if h.sample > 1 && h.n.Add(1)%h.sample != 0 {
		return h.world.DoMaybe(label, func() (bool, error) { return false, op() })
	}
	if strings.HasPrefix(label, "write ") {
		// a write into lindb's buffered writer: it reaches the file system only when the buffer runs over; the state
		// after it is a new crash state exactly when the size of the file on disk moved
		path := label[len("write "):]
		return h.world.DoMaybe(label, func() (bool, error) {
			before := fileSize(path)
			err := op()
			return fileSize(path) != before, err
		})
	}
	return h.world.Do(label, op)
}

func fileSize(path string) int64 {
	st, err := os.Stat(path)
	if err != nil {
		return -1
	}
	return st.Size()
}

// gcGate lets the write ahead log manager's own garbage collect task (a timer goroutine: garbageCollect -> destroy ->
// IsExpire of every partition, then Stop/Close/remove of the expired ones) run, but only while the history says so:
// outside a window IsExpire answers false without touching the partition.
type gcGate struct {
	open  atomic.Bool
	polls atomic.Int64 // IsExpire calls forwarded to real partitions
}

// obsPartition is the partition the write-ahead log gets from NewPartitionFn: the real partition, observed. In stepped
// histories the free running replica loop is not started (the engine advances replication with VerifReplicaStep).
type obsPartition struct {
	replica.Partition
	stepped bool
	gate    *gcGate
	ps      *partState
}

func (p *obsPartition) StartReplica() {
	if !p.stepped {
		p.Partition.StartReplica()
	}
}

// IsExpire is what writeAheadLog.destroy asks (the garbage collect task).
func (p *obsPartition) IsExpire() bool {
	if p.gate == nil || !p.gate.open.Load() || p.ps.dead.Load() {
		return false
	}
	expired := p.Partition.IsExpire()
	p.ps.polled.Add(1)
	p.gate.polls.Add(1)
	if expired {
		// destroy will now stop and close the partition and remove its directory
		p.ps.dead.Store(true)
	}
	return expired
}

// famWrap is the data family handed to the real partition / local replicator. It forwards everything to the real
// family and reports the calls the replicator makes around it.
type famWrap struct {
	tsdb.DataFamily
	key partKey

	mu     sync.Mutex
	curSeq int64
	// observers (any may be nil)
	onValidate     func(key partKey, seq int64, ok bool)
	onWriteRows    func(key partKey, seq int64, rows []*metric.StorageRow)
	afterWriteRows func(key partKey, seq int64) // after the rows are in the memory database, before CommitSequence
	onCommit       func(key partKey, seq int64)
	onAck          func(key partKey, seq int64)
	skipAck        func() bool // true: do not forward the ack callback (its consumer group was closed)
}

func (f *famWrap) ValidateSequence(leader int32, seq int64) bool {
	ok := f.DataFamily.ValidateSequence(leader, seq)
	f.mu.Lock()
	f.curSeq = seq
	f.mu.Unlock()
	if f.onValidate != nil {
		f.onValidate(f.key, seq, ok)
	}
	return ok
}

func (f *famWrap) WriteRows(rows []*metric.StorageRow) error {
	f.mu.Lock()
	seq := f.curSeq
	f.mu.Unlock()
	if f.onWriteRows != nil {
		f.onWriteRows(f.key, seq, rows)
	}
	err := f.DataFamily.WriteRows(rows)
	if f.afterWriteRows != nil {
		f.afterWriteRows(f.key, seq)
	}
	return err
}

func (f *famWrap) CommitSequence(leader int32, seq int64) {
	f.DataFamily.CommitSequence(leader, seq)
	if f.onCommit != nil {
		f.onCommit(f.key, seq)
	}
}

func (f *famWrap) AckSequence(leader int32, fn func(seq int64)) {
	f.DataFamily.AckSequence(leader, func(seq int64) {
		if f.skipAck != nil && f.skipAck() && os.Getenv("VERIF_C07_FORWARD_STALE_ACK") == "" {
			return
		}
		fn(seq)
		if f.onAck != nil {
			f.onAck(f.key, seq)
		}
	})
}

// ---------------------------------------------------------------------------------------------
// log entries as the broker builds them

func toProto(row *rowRec) *protoMetricsV1.Metric {
	p := toPoint(row)
	m := &protoMetricsV1.Metric{Name: p.Metric, Timestamp: p.Timestamp}
	keys := make([]string, 0, len(p.Tags))
	for k := range p.Tags {
		keys = append(keys, k)
	}
	sortStrings(keys)
	for _, k := range keys {
		m.Tags = append(m.Tags, &protoMetricsV1.KeyValue{Key: k, Value: p.Tags[k]})
	}
	for _, f := range p.Fields {
		m.SimpleFields = append(m.SimpleFields, &protoMetricsV1.SimpleField{Name: f.Name, Type: protoMetricsV1.SimpleFieldType_DELTA_SUM, Value: f.Value})
	}
	return m
}

type builtEntry struct {
	part    partKey
	rows    []rowRec
	payload []byte
	reject  string
}

// buildEntries does what the broker does between the ingestion handler and the storage node's WriteLog: proto metric ->
// flat row (metric.NewProtoConverter), routing by tags hash and family (BrokerBatchRows.NewShardGroupIterator /
// FamilyRowsForNextShard), BrokerRow.WriteTo into a snappy chunk (replica.chunk = compress.NewSnappyWriter), one
// chunk per (shard, family).
func buildEntries(rows []rowRec, shards int) ([]builtEntry, error) {
	converter := metric.NewProtoConverter(models.NewDefaultLimits())
	batch := metric.NewBrokerBatchRows()
	defer batch.Release()
	byKey := map[string]rowRec{}
	for i := range rows {
		m := toProto(&rows[i])
		if err := batch.TryAppend(func(row *metric.BrokerRow) error {
			row.IsOutOfTimeRange = false
			return converter.ConvertTo(m, row)
		}); err != nil {
			return nil, fmt.Errorf("convert row %s: %w", rows[i].key(), err)
		}
		byKey[fmt.Sprintf("%s|%s|%d", rows[i].Metric, rows[i].UID, rows[i].ts())] = rows[i]
	}
	var out []builtEntry
	it := batch.NewShardGroupIterator(int32(shards))
	for it.HasRowsForNextShard() {
		shardIdx, famIt := it.FamilyRowsForNextShard(timeutil.Interval(intervalMs))
		for famIt.HasNextFamily() {
			familyTime, brows := famIt.NextFamily()
			w := compress.NewSnappyWriter()
			var raw bytes.Buffer
			for i := range brows {
				if _, err := brows[i].WriteTo(w); err != nil {
					return nil, err
				}
				_, _ = brows[i].WriteTo(&raw)
			}
			if err := w.Close(); err != nil {
				return nil, err
			}
			e := builtEntry{part: partKey{Shard: shardIdx, Family: familyTime}, payload: w.Bytes()}
			_ = w.Close() // Bytes() re-arms the writer (a goroutine of the s2 stream writer); the writer is dropped here
			// read the rows back from the block to learn which rows the entry carries
			sb := metric.NewStorageBatchRows()
			sb.UnmarshalRows(raw.Bytes())
			for _, sr := range sb.Rows() {
				uid := ""
				kv := sr.NewKeyValueIterator()
				for kv.HasNext() {
					k, v := string(kv.NextKey()), string(kv.NextValue())
					if k == "uid" {
						uid = v
					}
				}
				r, ok := byKey[fmt.Sprintf("%s|%s|%d", string(sr.Name()), uid, sr.Timestamp())]
				if !ok {
					return nil, fmt.Errorf("row %s/%s@%d of the built block is not a generated row", sr.Name(), uid, sr.Timestamp())
				}
				if r.Shard != shardIdx || r.Family != familyTime {
					return nil, fmt.Errorf("row %s routed to shard %d family %d, generator expected shard %d family %d", r.key(), shardIdx, familyTime, r.Shard, r.Family)
				}
				e.rows = append(e.rows, r)
			}
			out = append(out, e)
		}
	}
	return out, nil
}

func sortStrings(s []string) {
	for i := 1; i < len(s); i++ {
		for j := i; j > 0 && s[j] < s[j-1]; j-- {
			s[j], s[j-1] = s[j-1], s[j]
		}
	}
}
