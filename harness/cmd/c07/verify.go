package main

import (
	"context"
	"encoding/binary"
	"fmt"
	"os"
	"path/filepath"
	"runtime/debug"
	"sort"
	"strconv"
	"strings"
	"time"

	"github.com/lindb/lindb/models"
	"github.com/lindb/lindb/pkg/queue/page"
	"github.com/lindb/lindb/replica"
	"github.com/lindb/lindb/series/metric"
	"github.com/lindb/lindb/verif/internal/core"
	"github.com/lindb/lindb/verif/internal/node"
	"github.com/lindb/lindb/verif/internal/seam"
)

// partObs is what the recovery of one image observed for one log partition.
type partObs struct {
	Key        partKey `json:"key"`
	Existed    bool    `json:"existed"` // the log directory was in the image
	Appended   int64   `json:"appended"`
	QueueAck   int64   `json:"queue_ack"`
	GroupAck   int64   `json:"group_ack"` // local replicator's consumer group, as opened from the image (before the replicator exists)
	GroupCons  int64   `json:"group_consumed"`
	HasGroup   bool    `json:"has_group"`
	RawAck     int64   `json:"raw_ack"` // bytes of the consumer group meta page in the image
	HasRaw     bool    `json:"has_raw"`
	Durable    int64   `json:"durable"`     // sequence stored in the data family's recovered version (-1 none)
	StartAck   int64   `json:"start_ack"`   // replicator ack after it was created
	StartIndex int64   `json:"start_index"` // first sequence the replicator will consume
	Applied    []int64 `json:"applied"`     // sequences whose rows the replay wrote
	Rejected   []int64 `json:"rejected"`    // sequences ValidateSequence refused
	Steps      int     `json:"steps"`
	EndCons    int64   `json:"end_consumed"`
	EndApp     int64   `json:"end_appended"`
}

type imgResult struct {
	Hist       int               `json:"hist"`
	Image      int               `json:"image"`
	Label      string            `json:"label"`
	Counters   map[string]int    `json:"counters"`
	Violations []core.Violation  `json:"violations"`
	Nontrivial []string          `json:"nontrivial"`
	Parts      []*partObs        `json:"parts,omitempty"`
	Note       map[string]string `json:"note,omitempty"`
	ElapsedMs  int64             `json:"elapsed_ms"`
}

var verbose = os.Getenv("VERIF_C07_VERBOSE") != ""

func (r *imgResult) fail(class, format string, args ...interface{}) {
	if verbose {
		fmt.Printf("  FAIL image %d %s: %s\n", r.Image, class, fmt.Sprintf(format, args...))
	}
	for _, v := range r.Violations {
		if v.Class == class {
			r.Counters["violations."+class]++
			return
		}
	}
	r.Counters["violations."+class]++
	r.Violations = append(r.Violations, core.Violation{Class: class, Message: fmt.Sprintf("hist %d image %d (after %q): ", r.Hist, r.Image, r.Label) + fmt.Sprintf(format, args...)})
}

// verifier holds the ledger derived tables shared by all images of a history.
type verifier struct {
	L           *ledger
	metaFirst   map[string]int64 // dictionary component -> tick by which it certainly existed in the driven run
	seriesFirst map[string]int64
	metaLo      map[string]int64 // dictionary component -> tick before which it certainly did not exist
	seriesLo    map[string]int64
	slotOwner   map[string]*rowRef // family/slot -> row
	rows        []*rowRef
	metrics     []string
	windows     [][2]int64 // logical time spans of the flush cycles (lazily built)
}

type rowRef struct {
	row   *rowRec
	entry *entryRec
	ids   *rowIDs // ids of the row's names in the driven run (nil if the entry was never applied there)
}

func newVerifier(L *ledger) *verifier {
	v := &verifier{L: L, metaFirst: map[string]int64{}, seriesFirst: map[string]int64{}, metaLo: map[string]int64{}, seriesLo: map[string]int64{}, slotOwner: map[string]*rowRef{}}
	seen := map[string]bool{}
	for i := range L.Entries {
		e := &L.Entries[i]
		for j := range e.Rows {
			row := &e.Rows[j]
			ref := &rowRef{row: row, entry: e}
			if j < len(e.IDs) {
				ref.ids = &e.IDs[j]
			}
			v.rows = append(v.rows, ref)
			v.slotOwner[fmt.Sprintf("%d/%d", row.Family, row.Slot)] = ref
			if !seen[row.Metric] {
				seen[row.Metric] = true
				v.metrics = append(v.metrics, row.Metric)
			}
			if e.AppliedTick > 0 {
				meta, ser := row.components()
				for _, c := range meta {
					if t, ok := v.metaFirst[c]; !ok || e.AppliedTick < t {
						v.metaFirst[c] = e.AppliedTick
					}
				}
				if t, ok := v.seriesFirst[ser]; !ok || e.AppliedTick < t {
					v.seriesFirst[ser] = e.AppliedTick
				}
				lo := e.ApplyLo
				if lo == 0 {
					lo = e.AppliedTick
				}
				for _, c := range meta {
					if t, ok := v.metaLo[c]; !ok || lo < t {
						v.metaLo[c] = lo
					}
				}
				if t, ok := v.seriesLo[ser]; !ok || lo < t {
					v.seriesLo[ser] = lo
				}
			}
		}
	}
	sort.Strings(v.metrics)
	return v
}

// covered: every dictionary entry the row needs was created before a metadata flush that had completed at image k
// began, and its series before an index flush of its shard that had completed at image k began. By the flush protocol
// such a row must be resolvable after a crash at image k.
func (v *verifier) covered(row *rowRec, k int) (meta, index bool) {
	var lastMeta, lastIndex int64 // begin tick of the latest completed flushes
	for _, f := range v.L.Flushes {
		if f.Err != "" || k < f.DoneImg {
			continue
		}
		if f.Kind == "meta" && f.BeginTick > lastMeta {
			lastMeta = f.BeginTick
		}
		if f.Kind == "index" && f.Shard == row.Shard && f.BeginTick > lastIndex {
			lastIndex = f.BeginTick
		}
	}
	comps, ser := row.components()
	meta = true
	for _, c := range comps {
		t, ok := v.metaFirst[c]
		if !ok || t >= lastMeta {
			meta = false
		}
	}
	t, ok := v.seriesFirst[ser]
	index = ok && t < lastIndex
	return meta, index
}

// inHole: the row sits in the window of the node flush protocol (metadata PrepareFlush/Flush -> index
// PrepareFlush/Flush -> data Flush) in which lindb makes index entries and data durable whose dictionary entries (or
// series entries) are not: at image k no completed metadata flush covers one of the row's dictionary names and an
// index flush of its shard or a data flush of its partition that began after that name was created had already started
// writing; or no completed index flush of its shard covers its series and a data flush of its partition that began
// after the series was created had started writing. Damage to such a row after a crash at image k is the known protocol defect; damage to any
// other row is not.
func (v *verifier) inHole(ref *rowRef, k int) bool {
	row := ref.row
	var lastMeta, lastIndex int64
	for _, f := range v.L.Flushes {
		if f.Err != "" || k < f.DoneImg {
			continue
		}
		if f.Kind == "meta" && f.BeginTick > lastMeta {
			lastMeta = f.BeginTick
		}
		if f.Kind == "index" && f.Shard == row.Shard && f.BeginTick > lastIndex {
			lastIndex = f.BeginTick
		}
	}
	// earliest creation tick of a dictionary name no completed metadata flush covers / of the series entry if no
	// completed index flush covers it
	metaUncovered, seriesUncovered := int64(-1), int64(-1)
	comps, ser := row.components()
	for _, c := range comps {
		if t, ok := v.metaFirst[c]; ok && t >= lastMeta {
			if lo := v.metaLo[c]; metaUncovered < 0 || lo < metaUncovered {
				metaUncovered = lo
			}
		}
	}
	if t, ok := v.seriesFirst[ser]; ok && t >= lastIndex {
		seriesUncovered = v.seriesLo[ser]
	}
	if metaUncovered < 0 && seriesUncovered < 0 {
		return false
	}
	for _, f := range v.L.Flushes {
		if f.BeginImg > k || f.Err != "" {
			continue
		}
		ownData := f.Kind == "data" && f.Shard == ref.entry.Part.Shard && f.Family == ref.entry.Part.Family
		// a dictionary name that is not durable: index entries (index flush of the shard) or data (data flush of the
		// partition) that refer to its id became durable if such a flush swapped its stores after the name was created
		if metaUncovered >= 0 && f.BeginTickHi >= metaUncovered && ((f.Kind == "index" && f.Shard == row.Shard) || ownData) {
			return true
		}
		// a series entry that is not durable (its dictionary names are): only data of the row flushed with the log
		// sequence hurts. An index flush that is still running does NOT count: its stores are committed in an order
		// (series mapping last) that lets the replay index the series again wherever the flush is cut.
		if seriesUncovered >= 0 && f.BeginTickHi >= seriesUncovered && ownData {
			return true
		}
	}
	return false
}

// holeIDs: the ids the crashed run had given to the names of the rows that are in the flush protocol window at image k.
// Durable index entries and data may still carry them while the dictionaries have forgotten the names, so recovery hands
// them out again.
func (v *verifier) holeIDs(k int) idSet {
	set := idSet{}
	for _, ref := range v.rows {
		if ref.ids != nil && v.inHole(ref, k) {
			set.addRow(ref.row, ref.ids)
		}
	}
	return set
}

// overlapsDataFlush: a data flush of the entry's family ran (partly) between the start of the replicator's WriteRows
// and its CommitSequence for this entry.
func (v *verifier) overlapsDataFlush(e *entryRec) bool {
	if e.ApplyLo == 0 {
		return false
	}
	end := e.CommitTick
	if end == 0 {
		end = 1 << 62
	}
	for _, f := range v.L.Flushes {
		if f.Kind == "data" && f.Shard == e.Part.Shard && f.Family == e.Part.Family && f.SwitchLo < end && f.BeginTickHi > e.ApplyLo && f.BeginTickHi > f.SwitchLo {
			return true
		}
	}
	return false
}

// validEntryBetween returns an entry with rows of the partition whose sequence lies in (lo, hi] and whose WriteLog had
// started at image k.
func (v *verifier) validEntryBetween(key partKey, k int, lo, hi int64) *entryRec {
	for i := range v.L.Entries {
		e := &v.L.Entries[i]
		if e.Part == key && e.Reject == "" && len(e.Rows) > 0 && e.Seq > lo && e.Seq <= hi && e.First >= 0 && k >= e.First {
			return e
		}
	}
	return nil
}

// storedAtRemoval: the sequence stored with the family's flushed data when the garbage collector removed the partition.
func (v *verifier) storedAtRemoval(key partKey) int64 {
	stored := int64(-1)
	for _, r := range v.L.Removals {
		if r.Part == key && r.Stored > stored {
			stored = r.Stored
		}
	}
	return stored
}

// anyEntryStarted: had a WriteLog of the partition been called when image k was taken?
func (v *verifier) anyEntryStarted(key partKey, k int) bool {
	for i := range v.L.Entries {
		e := &v.L.Entries[i]
		if e.Part == key && e.First >= 0 && k >= e.First {
			return true
		}
	}
	return false
}

func readRawGroupAck(imgDir string, key partKey) (int64, bool) {
	p := filepath.Join(imgDir, "wal", dbName, strconv.Itoa(key.Shard), time.UnixMilli(key.Family).UTC().Format("20060102150405"),
		strconv.Itoa(selfNode), "cg", strconv.Itoa(selfNode), "0.bat")
	data, err := os.ReadFile(p)
	if err != nil || len(data) < 16 {
		return 0, false
	}
	return int64(binary.LittleEndian.Uint64(data[8:16])), true
}

func walDirExists(imgDir string, key partKey) bool {
	p := filepath.Join(imgDir, "wal", dbName, strconv.Itoa(key.Shard), time.UnixMilli(key.Family).UTC().Format("20060102150405"), strconv.Itoa(selfNode))
	_, err := os.Stat(p)
	return err == nil
}

// verifyImage recovers the node from the image directory (in place) and applies the oracle.
func (v *verifier) verifyImage(img imageRec, deep bool) (res *imgResult) {
	L := v.L
	k := img.Index
	start := time.Now()
	res = &imgResult{Hist: L.Hist, Image: k, Label: img.Label, Counters: map[string]int{}, Note: map[string]string{}}
	defer func() { res.ElapsedMs = time.Since(start).Milliseconds() }()
	defer func() {
		if p := recover(); p != nil {
			res.fail("C07/recovery-panics", "%v\n%s", p, tailStr(string(debug.Stack()), 3000))
			res.Note["panicked"] = "1"
		}
	}()
	imgDir := img.Dir
	obs := map[partKey]*partObs{}
	for _, key := range L.Parts {
		o := &partObs{Key: key, Appended: -1, QueueAck: -1, GroupAck: -1, GroupCons: -1, Durable: -1, StartAck: -1, StartIndex: -1, EndCons: -1, EndApp: -1}
		o.Existed = walDirExists(imgDir, key)
		o.RawAck, o.HasRaw = readRawGroupAck(imgDir, key)
		obs[key] = o
		res.Parts = append(res.Parts, o)
	}
	parts := map[partKey]*partState{}
	replaying := false
	installPartitionFn(func(ps *partState) {
		parts[ps.key] = ps
		o := obs[ps.key]
		if o == nil {
			o = &partObs{Key: ps.key}
			obs[ps.key] = o
			res.Parts = append(res.Parts, o)
			res.fail("C07/recovery-finds-unknown-partition", "log partition %s was never created by the history", ps.key)
		}
		// the log as opened from the image, before any replicator is attached to it
		o.Appended = ps.log.Queue().AppendedSeq()
		o.QueueAck = ps.log.Queue().AcknowledgedSeq()
		for _, name := range ps.log.ConsumerGroupNames() {
			if name == strconv.Itoa(selfNode) {
				if cg, err := ps.log.GetOrCreateConsumerGroup(name); err == nil {
					o.HasGroup, o.GroupAck, o.GroupCons = true, cg.AcknowledgedSeq(), cg.ConsumedSeq()
				}
			}
		}
		if seq, ok := ps.fam.DataFamily.GetState().AckSequences[selfNode]; ok {
			o.Durable = seq
		}
		ps.fam.onValidate = func(key partKey, seq int64, ok bool) {
			if !ok {
				o.Rejected = append(o.Rejected, seq)
			}
		}
		ps.fam.onWriteRows = func(key partKey, seq int64, rows []*metric.StorageRow) {
			if replaying {
				o.Applied = append(o.Applied, seq)
			}
		}
	}, false)
	n, err := node.Open(node.Options{Dir: imgDir, Database: dbName, ShardIDs: shardIDs(L.Shards)})
	if err != nil {
		res.fail("C07/recovery-fails/engine", "engine does not start on the image: %v", err)
		return res
	}
	defer n.Close()
	ctx, cancel := context.WithCancel(context.Background())
	defer cancel()
	mgr := replica.NewWriteAheadLogManager(ctx, walConfig(), selfNode, n.Engine, nil, noCluster{})
	defer mgr.Close()
	if err := mgr.Recovery(); err != nil {
		res.fail("C07/recovery-fails/wal", "WriteAheadLogManager.Recovery: %v", err)
		return res
	}
	recovered := len(parts)
	// entries still in a log must be replayed by the restart itself, not only when the next write stream of that
	// (shard, family) happens to arrive: Recovery has to rebuild the local replicator of every consumer group it finds
	for key, ps := range parts {
		if o := obs[key]; o != nil && o.HasGroup {
			if _, reps := replica.VerifReplicators(ps.inner); len(reps) == 0 {
				res.fail("C07/recovery-does-not-restart-replication", "%s: the log has a consumer group of the local replicator (ack %d, appended %d) but WriteAheadLogManager.Recovery built no replicator",
					key, o.GroupAck, o.Appended)
			} else {
				res.Counters["replicators_rebuilt_by_recovery"]++
			}
		}
	}
	// what the next write stream of each (shard, family) does: partition + local replicator
	wal := mgr.GetOrCreateLog(dbName)
	for _, key := range L.Parts {
		if _, err := wal.GetOrCreatePartition(models.ShardID(key.Shard), key.Family, selfNode); err != nil {
			res.fail("C07/recovery-fails/partition", "GetOrCreatePartition(%s): %v", key, err)
			return res
		}
		ps := parts[key]
		if err := bindReplicator(ps); err != nil {
			res.fail("C07/recovery-fails/partition", "BuildReplicaForLeader(%s): %v", key, err)
			return res
		}
		o := obs[key]
		o.StartAck = ps.rep.AckIndex()
		o.StartIndex = ps.rep.ReplicaIndex()
	}
	res.Counters["partitions_recovered_from_the_image"] += recovered

	// (i) acknowledged position vs. durably stored sequence
	for _, key := range L.Parts {
		o := obs[key]
		if !o.Existed {
			continue
		}
		res.Counters["ack_vs_stored_sequence_compared"]++
		// an acknowledgement above the stored sequence is harmless only over entries that carry nothing: entries the
		// replicator rejected (IgnoreMessage acknowledges such an entry when everything before it is acknowledged)
		if o.HasGroup && o.GroupAck > o.Durable {
			if e := v.validEntryBetween(key, k, o.Durable, o.GroupAck); e != nil {
				res.fail("C07/ack-ahead-of-stored-sequence", "%s: consumer group of the local replicator acknowledged %d, the data family's recovered version stores sequence %d (log appended %d); entry %d (seq %d, %d rows) lies between",
					key, o.GroupAck, o.Durable, o.Appended, e.ID, e.Seq, len(e.Rows))
			} else {
				res.Counters["images_with_ack_ahead_only_over_rejected_entries"]++
			}
		}
		if o.QueueAck > o.Durable {
			switch {
			case !v.anyEntryStarted(key, k):
				// the log never held an entry: the page that keeps appended/acknowledged was caught between its creation
				// (zero filled = "sequence 0") and the two stores that initialise it to -1
				res.fail("C07/half-initialised-queue-meta-page/truncation-barrier-ahead-of-stored-sequence",
					"%s: the queue opens with appended=%d acknowledged=%d although nothing was ever appended; the data family stores sequence %d", key, o.Appended, o.QueueAck, o.Durable)
			case v.validEntryBetween(key, k, o.Durable, o.QueueAck) != nil:
				res.fail("C07/log-truncation-barrier-ahead-of-stored-sequence", "%s: queue acknowledged %d, the data family's recovered version stores sequence %d", key, o.QueueAck, o.Durable)
			}
		}
		if o.HasRaw && o.RawAck > o.Durable && !(o.HasGroup && o.GroupAck <= o.Durable) {
			res.Counters["raw_ack_ahead"]++
		} else if o.HasRaw && o.RawAck > o.Durable {
			res.Counters["raw_ack_ahead_but_clamped_when_the_log_is_opened"]++
		}
		if o.GroupAck < o.Durable && o.HasGroup {
			res.Counters["images_with_ack_behind_stored_sequence"]++
			res.Nontrivial = append(res.Nontrivial, fmt.Sprintf("h%d/ack-behind/%s", L.Hist, img.Hash[:12]))
		}
		if o.StartIndex <= o.Durable && o.Appended >= o.StartIndex {
			res.Counters["images_where_replay_starts_at_or_below_stored_sequence"]++
		}
	}

	// a log partition whose directory is gone (write ahead log garbage collector) must not have held entries above the
	// sequence stored with the family's flushed data
	for _, key := range L.Parts {
		o := obs[key]
		if o.Existed {
			continue
		}
		for i := range L.Entries {
			e := &L.Entries[i]
			if e.Part == key && e.Reject == "" && len(e.Rows) > 0 && e.Last >= 0 && k >= e.Last && e.Seq > o.Durable {
				res.fail("C07/log-partition-removed-before-its-entries-were-flushed", "%s: the directory of the log partition is not in the image; entry %d (seq %d, WriteLog returned at image %d) is above the sequence %d stored with the family's flushed data; removals: %+v",
					key, e.ID, e.Seq, e.Last, o.Durable, L.Removals)
				break
			}
		}
		if v.anyEntryStarted(key, k) {
			res.Counters["images_with_a_garbage_collected_log_partition"]++
		}
	}

	// (ii) replay: until consumed = appended, bounded by the number of pending entries
	replaying = true
	for _, key := range L.Parts {
		ps, o := parts[key], obs[key]
		bound := int(ps.rep.Pending()) + 2
		for ps.rep.Pending() > 0 && o.Steps < bound {
			replica.VerifReplicaStep(ps.inner, ps.nodeID, ps.rep)
			o.Steps++
		}
		o.EndApp = ps.log.Queue().AppendedSeq()
		o.EndCons = ps.rep.ReplicaIndex() - 1
		if ps.rep.Pending() > 0 {
			res.fail("C07/replay-does-not-finish", "%s: after %d steps consumed=%d appended=%d", key, o.Steps, o.EndCons, o.EndApp)
		}
		for _, seq := range o.Applied {
			if seq <= o.Durable {
				res.fail("C07/entry-at-or-below-stored-sequence-applied-again", "%s: replay wrote the rows of sequence %d, the recovered version stores sequence %d (replicator started at %d, ack %d)",
					key, seq, o.Durable, o.StartIndex, o.StartAck)
			}
		}
		res.Counters["entries_replayed"] += len(o.Applied)
		res.Counters["entries_refused_by_validate_sequence"] += len(o.Rejected)
	}
	replaying = false
	if err := n.FlushAll(); err != nil {
		res.fail("C07/recovery-fails/flush", "flush after replay: %v", err)
		return res
	}
	v.checkData(res, n, k, obs, "")
	// new rows after recovery: their names must not collide with what the flushed files already use
	v.freshWrite(res, n, parts, k, obs)
	if deep {
		// a second restart: what recovery + replay + flush made durable must still be there
		mgr.Close()
		n2, err := n.Reopen()
		if err != nil {
			res.fail("C07/recovery-fails/second-restart", "%v", err)
			return res
		}
		defer n2.Close()
		v.checkData(res, n2, k, obs, "/after-second-restart")
		res.Counters["images_checked_again_after_a_second_restart"]++
	}
	res.Counters["images_recovered_and_checked"]++
	return res
}

func shardIDs(n int) []models.ShardID {
	var ids []models.ShardID
	for s := 0; s < n; s++ {
		ids = append(ids, models.ShardID(s))
	}
	return ids
}

// queryCells runs one query and returns uid -> slot key (family/slot) -> value for one field.
func queryCells(c *node.Cluster, L *ledger, sql, fieldName string) (map[string]map[string]float64, error) {
	qr := c.Query(sql)
	if qr.Err != nil {
		return nil, qr.Err
	}
	if qr.Stuck || qr.TimedOut {
		return nil, fmt.Errorf("query did not answer (stuck=%v timedout=%v)", qr.Stuck, qr.TimedOut)
	}
	out := map[string]map[string]float64{}
	if qr.ResultSet == nil {
		return out, nil
	}
	for _, s := range qr.ResultSet.Series {
		uid := s.Tags["uid"]
		for fname, pts := range s.Fields {
			if fname != fieldName {
				continue
			}
			for ts, val := range pts {
				if val == 0 {
					continue
				}
				fam := ts / hourMs * hourMs
				slot := (ts - fam) / intervalMs
				m := out[uid]
				if m == nil {
					m = map[string]float64{}
					out[uid] = m
				}
				m[fmt.Sprintf("%d/%d", fam, slot)] += val
			}
		}
	}
	return out, nil
}

func notFound(err error) bool {
	if err == nil {
		return false
	}
	s := err.Error()
	return strings.Contains(s, "not found") || strings.Contains(s, "not exist") || strings.Contains(s, "notfound")
}

// timeRanges groups the families into query ranges of at most two hours (a longer range makes lindb pick a coarser
// interval than the 10s slots the rows are identified by).
func (v *verifier) timeRanges() [][2]int64 {
	fams := append([]int64(nil), v.L.Families...)
	sort.Slice(fams, func(i, j int) bool { return fams[i] < fams[j] })
	var out [][2]int64
	for _, f := range fams {
		if n := len(out); n > 0 && f+hourMs-out[n-1][0] <= 2*hourMs {
			out[n-1][1] = f + hourMs
			continue
		}
		out = append(out, [2]int64{f, f + hourMs})
	}
	return out
}

func (v *verifier) timeRangeOld() (string, string) {
	lo, hi := v.L.Families[0], v.L.Families[0]
	for _, f := range v.L.Families {
		if f < lo {
			lo = f
		}
		if f > hi {
			hi = f
		}
	}
	return fmtTime(lo), fmtTime(hi + hourMs - 1000)
}

// status of an entry at image k
const (
	stAbsent = iota
	stMay
	stMust
)

func entryStatus(e *entryRec, k int) int {
	switch {
	case e.First < 0 || k < e.First:
		return stAbsent
	case e.Last >= 0 && k >= e.Last:
		return stMust
	default:
		return stMay
	}
}

// checkData queries the recovered node and compares with the ledger.
func (v *verifier) checkData(res *imgResult, n *node.Node, k int, obs map[partKey]*partObs, suffix string) {
	L := v.L
	c := node.NewCluster(n, node.Layout{})
	defer c.Close()
	c.Watchdog = 60 * time.Second
	// expectation per row
	type cell struct {
		ref    *rowRef
		status int
	}
	// an entry whose WriteLog was in flight when the image was taken counts iff the recovered log contains it
	inflight := map[int]int{}
	statusOf := func(e *entryRec) int {
		st := entryStatus(e, k)
		if st != stMay || e.Seq < 0 {
			return st
		}
		if o := obs[e.Part]; o != nil && o.Appended >= e.Seq {
			inflight[e.ID] = stMust
			return stMust
		}
		inflight[e.ID] = stAbsent
		return stAbsent
	}
	byMetric := map[string][]cell{}
	for _, ref := range v.rows {
		byMetric[ref.row.Metric] = append(byMetric[ref.row.Metric], cell{ref, statusOf(ref.entry)})
	}
	if suffix == "" {
		for _, st := range inflight {
			if st == stMust {
				res.Counters["in_flight_entries_found_in_the_recovered_log"]++
			} else {
				res.Counters["in_flight_entries_not_in_the_recovered_log"]++
			}
		}
	}
	applied := map[string]bool{}
	for key, o := range obs {
		for _, s := range o.Applied {
			applied[fmt.Sprintf("%s/%d", key, s)] = true
		}
	}
	hole := v.holeIDs(k)
	if len(hole) == 0 && suffix == "" {
		res.Counters["images_without_a_row_in_the_flush_protocol_window"]++
	}
	reuseCache := map[*rowRef]string{}
	ownReuse := func(ref *rowRef) string {
		if len(hole) == 0 {
			return ""
		}
		if why, ok := reuseCache[ref]; ok {
			return why
		}
		now := lookupIDs(n, ref.row)
		why := hole.collision(ref.row, &now)
		reuseCache[ref] = why
		return why
	}
	// reused: a name of the row now carries an id that durable index entries or data of a row in the flush protocol
	// window still use for another name
	reused := ownReuse
	// classify a row the recovered node does not return although it must
	classifyLost := func(ref *rowRef) string {
		e := ref.entry
		o := obs[e.Part]
		if e.Gen > 0 && e.AppliedTick == 0 && e.Seq <= v.storedAtRemoval(e.Part) {
			// the log of this partition was re-created (sequence 0 again) after the garbage collector had removed the
			// drained one; the family still remembers the sequence stored with its flushed data and refuses the entry
			return "C07/late-write-refused-after-log-garbage-collection/sequence-of-the-new-log-at-or-below-the-stored-sequence"
		}
		if cls := v.lostAroundFailedFlush(ref, k, o.Durable); cls != "" {
			// not a row of the flush protocol window: it was applied strictly between two flush jobs
			res.Counters["rows_damaged_around_a_failed_flush"]++
			return cls
		}
		if v.inHole(ref, k) {
			res.Counters["rows_damaged_in_the_flush_protocol_window"]++
			if e.Seq > o.Durable {
				return "C07/flush-protocol-window/replayed-row-not-returned"
			}
			return "C07/flush-protocol-window/flushed-row-not-returned"
		}
		if why := reused(ref); why != "" {
			res.Counters["rows_damaged_by_reuse_of_an_id_from_the_flush_protocol_window"]++
			res.Note["reuse"] = why
			return "C07/flush-protocol-window/id-of-unflushed-name-reused"
		}
		if e.Seq > o.Durable {
			switch {
			case !o.Existed:
				return "C07/logged-entry-lost/log-partition-removed-before-the-entry-was-flushed"
			case e.Seq <= o.StartAck:
				return "C07/logged-entry-lost/acknowledged-above-stored-sequence"
			case !applied[fmt.Sprintf("%s/%d", e.Part, e.Seq)]:
				return "C07/logged-entry-lost/not-replayed"
			default:
				return "C07/logged-entry-lost/replayed-but-not-returned-by-query"
			}
		}
		for _, f := range v.L.Flushes {
			if f.Kind == "data" && f.Fault && f.Shard == e.Part.Shard && f.Family == e.Part.Family && e.AppliedTick > f.BeginTick {
				// the entry went into the second memory database of a family whose frozen one could not be flushed; the
				// stored sequence covers it although only the frozen database's table can have been committed
				return "C07/entry-at-or-below-stored-sequence-not-in-flushed-data/family-held-two-memory-databases"
			}
		}
		meta, index := v.covered(ref.row, k)
		switch {
		case meta && index:
			return "C07/flushed-data-unresolvable/names-covered-by-a-completed-metadata-and-index-flush"
		case !meta:
			return "C07/flushed-data-unresolvable/names-not-covered-by-a-metadata-flush-but-nothing-written-after-them"
		default:
			return "C07/flushed-data-unresolvable/series-not-covered-by-an-index-flush-but-nothing-written-after-it"
		}
	}
	// classify a value found where the ledger has none: whose data is it?
	classifyForeign := func(slotKey string, selected []*rowRef) (string, string) {
		owner, ok := v.slotOwner[slotKey]
		if !ok {
			return "C07/query-returns-data-nobody-wrote", "no row of the history uses this slot"
		}
		st := statusOf(owner.entry)
		if st == stAbsent {
			return "C07/query-returns-data-of-an-entry-appended-after-the-image", owner.row.key()
		}
		if cls := v.lostAroundFailedFlush(owner, k, obs[owner.entry.Part].Durable); cls != "" {
			return strings.TrimSuffix(cls, "/replayed-row-not-returned") + "/row-returned-under-another-name", owner.row.key()
		}
		if v.inHole(owner, k) {
			return "C07/flush-protocol-window/row-returned-under-another-name", owner.row.key()
		}
		if why := reused(owner); why != "" {
			return "C07/flush-protocol-window/id-of-unflushed-name-reused", owner.row.key() + ": " + why
		}
		// the names the query itself resolves (metric, field, group-by keys, filter value) are names of the rows it selects
		for _, ref := range selected {
			if why := reused(ref); why != "" {
				return "C07/flush-protocol-window/id-of-unflushed-name-reused", owner.row.key() + "; a name the query resolves: " + why
			}
		}
		return "C07/data-attributed-to-wrong-series", owner.row.key()
	}
	queries := 0
	for _, tr := range v.timeRanges() {
		from, to := fmtTime(tr[0]), fmtTime(tr[1]-1000)
		for _, m := range v.metrics {
			var cells []cell
			for _, cl := range byMetric[m] {
				if cl.ref.row.Family >= tr[0] && cl.ref.row.Family < tr[1] {
					cells = append(cells, cl)
				}
			}
			if len(cells) == 0 {
				continue
			}
			anyExpected := false
			for _, cl := range cells {
				if cl.status != stAbsent {
					anyExpected = true
				}
			}
			// fields and tag keys of the metric according to the ledger rows that may exist
			fields := map[string]bool{}
			keys := map[string]bool{}
			hosts := map[string]bool{}
			for _, cl := range cells {
				if cl.status == stAbsent {
					continue
				}
				for _, f := range cl.ref.row.Fields {
					fields[f] = true
				}
				for kx := range cl.ref.row.Extra {
					keys[kx] = true
				}
				hosts[cl.ref.row.Host] = true
			}
			if !anyExpected {
				fields["f"] = true
			}
			type q struct {
				name, sql, field string
				sel              func(r *rowRec) bool
			}
			var qs []q
			for _, f := range sortedKeys(fields) {
				f := f
				qs = append(qs, q{"field " + f, fmt.Sprintf("select %s from '%s' where time >= '%s' and time <= '%s' group by uid limit 100000", f, m, from, to), f,
					func(r *rowRec) bool { return hasStr(r.Fields, f) }})
			}
			for _, kx := range sortedKeys(keys) {
				kx := kx
				qs = append(qs, q{"group by " + kx, fmt.Sprintf("select f from '%s' where time >= '%s' and time <= '%s' group by uid,%s limit 100000", m, from, to, kx), "f",
					func(r *rowRec) bool { _, ok := r.Extra[kx]; return ok }})
			}
			if hs := sortedKeys(hosts); len(hs) > 0 {
				h := hs[(k+len(m))%len(hs)]
				qs = append(qs, q{"where host=" + h, fmt.Sprintf("select f from '%s' where host='%s' and time >= '%s' and time <= '%s' group by uid limit 100000", m, h, from, to), "f",
					func(r *rowRec) bool { return r.Host == h }})
			}
			for qi, qq := range qs {
				qi, qq := qi, qq
				type failure struct{ class, msg string }
				evaluate := func(got map[string]map[string]float64, err error) ([]failure, map[string]int) {
					var fails []failure
					cnt := map[string]int{}
					add := func(class, format string, args ...interface{}) {
						fails = append(fails, failure{class, fmt.Sprintf(format, args...)})
					}
					if err != nil {
						if !notFound(err) {
							add("C07/query-fails"+suffix, "%s: %v", qq.sql, err)
							return fails, cnt
						}
						got = map[string]map[string]float64{}
						cnt["queries_answered_not_found"]++
					}
					used := map[string]bool{}
					var selected []*rowRef
					for _, cl := range cells {
						row := cl.ref.row
						if !qq.sel(row) {
							continue
						}
						if cl.status != stAbsent {
							selected = append(selected, cl.ref)
						}
						slotKey := fmt.Sprintf("%d/%d", row.Family, row.Slot)
						val := got[row.UID][slotKey]
						used[row.UID+"@"+slotKey] = true
						switch cl.status {
						case stMust:
							cnt["rows_required"]++
							if qi == 0 {
								if v.inHole(cl.ref, k) {
									cnt["required_rows_inside_the_flush_protocol_window"]++
								} else {
									cnt["required_rows_outside_the_flush_protocol_window"]++
								}
								if waiting, _, _, retried := v.failedFlushState(row, k); waiting != "" || retried != "" {
									if waiting != "" {
										cnt["required_rows_with_names_a_failed_"+kindWord(waiting)+"_flush_left_behind"]++
									}
									if retried != "" {
										cnt["required_rows_with_names_created_after_a_failed_"+kindWord(retried)+"_flush_and_covered_by_its_retry"]++
									}
								}
							}
							switch {
							case val == 1:
								cnt["rows_found_exactly_once"]++
							case val == 0:
								cls := classifyLost(cl.ref)
								add(cls+suffix, "row %s (entry %d, %s seq %d; stored sequence %d, replicator restarted at %d) is not returned by %q [%s] %s",
									row.key(), cl.ref.entry.ID, cl.ref.entry.Part, cl.ref.entry.Seq, obs[cl.ref.entry.Part].Durable, obs[cl.ref.entry.Part].StartIndex, qq.sql, qq.name, res.Note["reuse"])
							default:
								o := obs[cl.ref.entry.Part]
								cls := "C07/entry-counted-twice/above-stored-sequence"
								if cl.ref.entry.Seq <= o.Durable {
									cls = "C07/entry-counted-twice/at-or-below-stored-sequence"
								} else if cl.ref.entry.Raced || v.overlapsDataFlush(cl.ref.entry) {
									// the flush that started between WriteRows and CommitSequence of this entry stored its rows
									// under the previous sequence
									cls = "C07/entry-counted-twice/data-flush-started-between-writerows-and-commitsequence"
								}
								diag := ""
								if !isExpectedClass(cls) {
									diag = "; families: " + familyStates(n)
								}
								add(cls+suffix, "row %s (entry %d, %s seq %d) has value %v instead of 1 in %q; stored sequence %d, replay applied %v%s",
									row.key(), cl.ref.entry.ID, cl.ref.entry.Part, cl.ref.entry.Seq, val, qq.sql, o.Durable, o.Applied, diag)
							}
						case stMay:
							// WriteLog never returned and the sequence is unknown: nothing to require
						case stAbsent:
							if val != 0 {
								add("C07/query-returns-data-of-an-entry-appended-after-the-image"+suffix, "row %s has value %v in %q", row.key(), val, qq.sql)
							}
						}
					}
					// anything else in the answer
					for uid, slots := range got {
						for slotKey, val := range slots {
							if used[uid+"@"+slotKey] {
								continue
							}
							cls, owner := classifyForeign(slotKey, selected)
							add(cls+suffix, "%q returns value %v for uid %s at slot %s, which belongs to %s", qq.sql, val, uid, slotKey, owner)
						}
					}

					return fails, cnt
				}
				unexpectedOf := func(fails []failure) string {
					var keys []string
					for _, f := range fails {
						if !isExpectedClass(f.class) {
							keys = append(keys, f.class+" "+f.msg)
						}
					}
					sort.Strings(keys)
					return strings.Join(keys, "\n")
				}
				ask := func() ([]failure, map[string]int) {
					got, err := queryCells(c, L, qq.sql, qq.field)
					queries++
					if verbose {
						fmt.Printf("  QUERY %s -> err=%v %v\n", qq.sql, err, got)
					}
					return evaluate(got, err)
				}
				fails, cnt := ask()
				if first := unexpectedOf(fails); first != "" {
					// lindb's query engine does not always give the same answer to the same query on the same quiescent node
					// (seen under load: one cell counted twice in one answer and once in the next, 'exceed timeout'); that is
					// not what this property is about: an unexpected verdict counts only if two of three identical queries give it
					f2, c2 := ask()
					if unexpectedOf(f2) != first {
						f3, c3 := ask()
						res.Counters["identical_queries_with_different_answers_at_quiescence"]++
						res.Note["unrepeatable"] = fmt.Sprintf("first answer: %s | second answer: %s | third answer: %s", tailStr(first, 600), tailStr(unexpectedOf(f2), 300), tailStr(unexpectedOf(f3), 300))
						if unexpectedOf(f3) == unexpectedOf(f2) {
							fails, cnt = f2, c2
						} else if unexpectedOf(f3) != first {
							_ = c3 // three different answers: keep the first
						}
					}
				}
				for key, val := range cnt {
					res.Counters[key] += val
				}
				for _, f := range fails {
					res.fail(f.class, "%s", f.msg)
				}
			}
		}
	}
	res.Counters["queries"] += queries
}

// freshWrite appends one entry with a brand-new metric, tag values and series through the recovered log, replicates,
// flushes and queries it: the answer must contain exactly the new row.
func (v *verifier) freshWrite(res *imgResult, n *node.Node, parts map[partKey]*partState, k int, obs map[partKey]*partObs) {
	L := v.L
	var recent []int64
	for _, f := range L.Families {
		if f != L.Old {
			recent = append(recent, f)
		}
	}
	fam := recent[k%len(recent)]
	slot := -1
	for s := 0; s < slotsPerFam; s++ {
		if _, used := v.slotOwner[fmt.Sprintf("%d/%d", fam, s)]; !used {
			slot = s
			break
		}
	}
	if slot < 0 {
		return
	}
	rows := []rowRec{{Metric: "fresh", UID: "fresh-u", Host: "fresh-h", Fields: []string{"f"}, Family: fam, Slot: slot}}
	if L.Shards > 1 {
		s, err := node.ShardOf(toPoint(&rows[0]), L.Shards)
		if err != nil {
			return
		}
		rows[0].Shard = s
	}
	built, err := buildEntries(rows, L.Shards)
	if err != nil || len(built) != 1 {
		res.fail("C07/harness", "fresh entry: %v", err)
		return
	}
	ps := parts[built[0].part]
	if err := ps.outer.WriteLog(built[0].payload); err != nil {
		res.fail("C07/write-after-recovery-fails", "WriteLog: %v", err)
		return
	}
	for i := 0; ps.rep.Pending() > 0 && i < 4; i++ {
		replica.VerifReplicaStep(ps.inner, ps.nodeID, ps.rep)
	}
	if err := n.FlushAll(); err != nil {
		res.fail("C07/recovery-fails/flush", "flush after fresh write: %v", err)
		return
	}
	c := node.NewCluster(n, node.Layout{})
	defer c.Close()
	from, to := fmtTime(fam), fmtTime(fam+hourMs-1000)
	sql := fmt.Sprintf("select f from 'fresh' where time >= '%s' and time <= '%s' group by uid limit 100000", from, to)
	slotKey := fmt.Sprintf("%d/%d", fam, slot)
	got, err := queryCells(c, L, sql, "f")
	asExpected := func(g map[string]map[string]float64, e error) bool {
		return e == nil && len(g) == 1 && len(g["fresh-u"]) == 1 && g["fresh-u"][slotKey] == 1
	}
	if !asExpected(got, err) {
		// same rule as for the other queries: an unexpected answer counts if two of three identical queries give it
		g2, e2 := queryCells(c, L, sql, "f")
		if asExpected(g2, e2) {
			res.Counters["identical_queries_with_different_answers_at_quiescence"]++
			res.Note["unrepeatable"] = fmt.Sprintf("%q: first answer %v / %v, second answer as expected", sql, got, err)
			if g3, e3 := queryCells(c, L, sql, "f"); asExpected(g3, e3) {
				got, err = g3, e3
			}
		}
	}
	lostClass := "C07/write-after-recovery-lost"
	foreignClass := "C07/new-names-after-recovery-show-foreign-data"
	nowIDs := lookupIDs(n, &rows[0])
	if why := v.holeIDs(k).collision(&rows[0], &nowIDs); why != "" {
		lostClass, foreignClass = "C07/flush-protocol-window/id-of-unflushed-name-reused", "C07/flush-protocol-window/id-of-unflushed-name-reused"
		res.Note["reuse-fresh"] = why
	}
	if o := obs[built[0].part]; o.QueueAck > o.Appended && !v.anyEntryStarted(built[0].part, k) {
		lostClass = "C07/half-initialised-queue-meta-page/first-entry-after-recovery-lost"
	}
	if err != nil {
		res.fail(lostClass, "entry appended to %s after recovery (queue opened with appended=%d acknowledged=%d): %q: %v", built[0].part, obs[built[0].part].Appended, obs[built[0].part].QueueAck, sql, err)
		return
	}
	if got["fresh-u"][slotKey] != 1 {
		res.fail(lostClass, "entry appended to %s after recovery (queue opened with appended=%d acknowledged=%d): %q returns %v for the new row", built[0].part, obs[built[0].part].Appended, obs[built[0].part].QueueAck, sql, got)
	}
	for uid, slots := range got {
		for sk, val := range slots {
			if uid == "fresh-u" && sk == slotKey {
				continue
			}
			cls := foreignClass
			if owner, ok := v.slotOwner[sk]; ok {
				if v.inHole(owner, k) {
					cls = "C07/flush-protocol-window/row-returned-under-a-name-created-after-recovery"
				}
				res.fail(cls, "%q (a metric created after recovery) returns value %v for uid %s at slot %s, the data of row %s", sql, val, uid, sk, owner.row.key())
			} else {
				res.fail(cls, "%q returns value %v for uid %s at slot %s", sql, val, uid, sk)
			}
		}
	}
	res.Counters["fresh_rows_written_after_recovery"]++
}

// familyStates describes the opened data families: memory databases and level-0 files (diagnostics).
func familyStates(n *node.Node) string {
	var out []string
	for _, f := range n.AllFamilies() {
		st := f.GetState()
		var mem []string
		for _, m := range st.MemoryDatabases {
			mem = append(mem, fmt.Sprintf("%s:%d series", m.State, m.NumOfSeries))
		}
		out = append(out, fmt.Sprintf("%s flushing=%v memdbs=%v level0=%d seq=%v/%v", f.Indicator(), f.IsFlushing(), mem, node.Level0Files(f), st.ReplicaSequences, st.AckSequences))
	}
	return strings.Join(out, " | ")
}

func sortedKeys(m map[string]bool) []string {
	var ks []string
	for k := range m {
		ks = append(ks, k)
	}
	sort.Strings(ks)
	return ks
}

func hasStr(s []string, x string) bool {
	for _, v := range s {
		if v == x {
			return true
		}
	}
	return false
}

func tailStr(s string, n int) string {
	if len(s) > n {
		return s[len(s)-n:]
	}
	return s
}

// setupVerifyProcess prepares a process that recovers images: pass-through seams without fsync/msync.
func setupVerifyProcess() {
	seam.NoFsync = true
	seam.InstallKV(seam.Direct{}, nil)
	page.MMapSyncFunc = func([]byte) error { return nil }
}
