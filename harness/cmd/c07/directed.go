package main

// Directed minimal histories: deterministic reproductions of the genuine findings (history index 2000 + n).
//
//	2000  a data flush starts between the replicator's WriteRows and CommitSequence of an entry for an existing series
//	2001  a row with new names is applied right after the metadata flush swapped its stores; index and data flush follow
//	2003  a memory database of one family is closed while the first row of a brand-new metric, written into another
//	      family of the shard, still waits for the shard's (parked) index worker
//	2002  the log partition of an old family is drained and removed by the WAL garbage collector, then a late write
//	      re-creates it: the new log starts at sequence 0, the family refuses everything up to its stored sequence
//
// By hand: LOG_LEVEL=fatal TZ=UTC bin/c07 hist 2000 <dir> quick ; bin/c07 verify <dir>/ledger.json 0 100000 <dir>/out.jsonl

const directedBase = 2000

func directedPlan(n int, t0 int64) *plan {
	fam := t0
	p := &plan{Shards: 1, Families: []int64{fam}, Cycles: []string{"directed"}}
	row := func(metric, uid, host string, slot int, newSeries bool) rowRec {
		return rowRec{Metric: metric, UID: uid, Host: host, Fields: []string{"f"}, Family: fam, Slot: slot, Shard: 0, NewSer: newSeries}
	}
	appendRepl := func(rows ...rowRec) []action {
		return []action{{Kind: "append", Rows: rows, Writers: 1}, {Kind: "replicate", Steps: -1}}
	}
	switch n {
	case 0:
		p.Steps = []planStep{
			{Kind: "arrive", Cycle: -1, Actions: appendRepl(row("m0", "u1", "h1", 10, true))},
			{Kind: "meta", Cycle: 0, CycKind: "quiet"},
			{Kind: "index", Cycle: 0, CycKind: "quiet", Shard: 0},
			{Kind: "data", Cycle: 0, CycKind: "quiet", Shard: 0, Family: fam},
			// second cycle: nothing new in the dictionaries; the data flush starts while entry 1 (a point of the existing
			// series) is between WriteRows and CommitSequence
			{Kind: "meta", Cycle: 1, CycKind: "busy"},
			{Kind: "index", Cycle: 1, CycKind: "busy", Shard: 0},
			{Kind: "data", Cycle: 1, CycKind: "busy", Shard: 0, Family: fam, Racing: []rowRec{row("m0", "u1", "h1", 20, false)}},
		}
	case 2:
		// an old family: its log partition is drained, the garbage collector removes it, a late write arrives
		old := t0 - 72*hourMs
		p.Families = []int64{fam, old}
		p.Old = old
		orow := func(uid string, slot int, newSeries bool) rowRec {
			r := row("m0", uid, "h1", slot, newSeries)
			r.Family = old
			return r
		}
		p.Steps = []planStep{
			{Kind: "arrive", Cycle: -1, Actions: appendRepl(orow("u1", 10, true), orow("u1", 11, false))},
			{Kind: "meta", Cycle: 0, CycKind: "quiet"},
			{Kind: "index", Cycle: 0, CycKind: "quiet", Shard: 0},
			{Kind: "data", Cycle: 0, CycKind: "quiet", Shard: 0, Family: fam},
			{Kind: "data", Cycle: 0, CycKind: "quiet", Shard: 0, Family: old},
			{Kind: "gc", Cycle: 0},
			{Kind: "recreate", Shard: 0, Family: old},
			{Kind: "arrive", Cycle: 1, Actions: appendRepl(orow("u1", 20, false))},
			{Kind: "arrive", Cycle: 1, Actions: appendRepl(orow("u2", 21, true))},
			{Kind: "arrive", Cycle: 1, Actions: appendRepl(orow("u2", 22, false))},
			{Kind: "meta", Cycle: 1, CycKind: "quiet"},
			{Kind: "index", Cycle: 1, CycKind: "quiet", Shard: 0},
			{Kind: "data", Cycle: 1, CycKind: "quiet", Shard: 0, Family: old},
		}
	case 3:
		// three families of one shard share the shard's memory index database and its one index worker:
		// A gets a point of a known series (no work for the index worker), the worker is parked while it indexes a new
		// series written into C, the first row of a brand-new metric is written into B (its time series index exists, the
		// row waits in the worker's channel), the memory database of A is flushed and closed (IndexDatabase.Cleanup),
		// the worker goes on.
		famB, famC := fam-hourMs, fam-2*hourMs
		p.Families = []int64{fam, famB, famC}
		rb := row("mx", "u3", "h1", 30, true)
		rb.Family = famB
		rc := row("m0", "u2", "h1", 31, true)
		rc.Family = famC
		p.Steps = []planStep{
			{Kind: "arrive", Cycle: -1, Actions: appendRepl(row("m0", "u1", "h1", 10, true))},
			{Kind: "meta", Cycle: 0, CycKind: "quiet"},
			{Kind: "index", Cycle: 0, CycKind: "quiet", Shard: 0},
			{Kind: "data", Cycle: 0, CycKind: "quiet", Shard: 0, Family: fam},
			{Kind: "cleanup-race", Cycle: 1, Shard: 0, Family: fam, Actions: []action{
				{Kind: "append", Rows: []rowRec{row("m0", "u1", "h1", 11, false)}, Writers: 1}, // A
				{Kind: "append", Rows: []rowRec{rc}, Writers: 1},                               // C: parks the worker
				{Kind: "append", Rows: []rowRec{rb}, Writers: 1},                               // B: brand-new metric
			}},
			{Kind: "arrive", Cycle: 1, Actions: []action{{Kind: "replicate", Steps: -1}}},
			{Kind: "meta", Cycle: 2, CycKind: "quiet"},
			{Kind: "index", Cycle: 2, CycKind: "quiet", Shard: 0},
			{Kind: "data", Cycle: 2, CycKind: "quiet", Shard: 0, Family: fam},
			{Kind: "data", Cycle: 2, CycKind: "quiet", Shard: 0, Family: famB},
			{Kind: "data", Cycle: 2, CycKind: "quiet", Shard: 0, Family: famC},
		}
	default:
		p.Steps = []planStep{
			{Kind: "arrive", Cycle: -1, Actions: appendRepl(row("m0", "u1", "h1", 10, true))},
			// the row arrives at the first file-system operation of the metadata flush (= after PrepareFlush)
			{Kind: "meta", Cycle: 0, CycKind: "busy", Inject: []injection{{Nth: 0, Actions: appendRepl(row("m1", "u2", "h2", 20, true))}}},
			{Kind: "index", Cycle: 0, CycKind: "busy", Shard: 0},
			{Kind: "data", Cycle: 0, CycKind: "busy", Shard: 0, Family: fam},
		}
	}
	return p
}
