package main

// runFreeHistory: placeholder, replaced below.
func runFreeHistory(idx int, dir, tier string, seed, t0 int64) *ledger {
	return runHistory(idx, dir, tier, seed, t0)
}
