package main

import (
	"context"
	"fmt"
	"path/filepath"
	"strings"
	"sync"
	"time"

	"github.com/lindb/lindb/models"
	"github.com/lindb/lindb/replica"
	"github.com/lindb/lindb/tsdb"
	"github.com/lindb/lindb/verif/internal/imgfs"
	"github.com/lindb/lindb/verif/internal/node"
	"github.com/lindb/lindb/verif/internal/seam"
)

// runFreeHistory: the same node, but nothing is stepped: every partition runs its real replica loop (StartReplica),
// 3 writers append a backlog of entries, a flusher runs whole flush jobs through the real doFlush and another
// goroutine drives log Sync/GC, all at the same time. About every 4th file-system operation / page store is followed by
// an image (taken under the world lock: a state the directory really had while everything was running).
// The ledger records logical times around WriteLog, the replicator's WriteRows/CommitSequence and the flush jobs; the
// oracle is the one of the stepped histories.
func runFreeHistory(idx int, dir, tier string, seed, t0 int64) *ledger {
	r := histRand(idx, seed)
	shards := 1 + idx%2
	recent := []int64{t0, t0 - hourMs}
	old := t0 - 72*hourMs
	families := append(append([]int64(nil), recent...), old)
	p := &plan{Shards: shards, Families: families, Old: old}
	L := &ledger{Hist: idx, Seed: seed, Tier: tier, Mode: "free", T0: t0, Shards: shards, Families: families, Old: old, Counters: map[string]int{}}
	L.Config = fmt.Sprintf("free shards=%d families=%d", shards, len(families))
	nodeDir := filepath.Join(dir, "node")
	world := imgfs.NewWorld(nodeDir, filepath.Join(dir, "img"))
	world.SetSkip(skipBuffers)
	d := &driver{dir: dir, L: L, plan: p, world: world, parts: map[partKey]*partState{}, bySeq: map[partKey]map[int64]int{}, arrCh: make(chan func(), 4), gate: &gcGate{}}
	ic := &hookIC{world: world, before: d.before}
	seam.NoFsync = true
	seam.InstallKV(ic, nil)
	seam.InstallIndexSequence(ic)
	seam.InstallQueuePages(ic, nil)
	n, err := node.Open(node.Options{Dir: nodeDir, Database: dbName, ShardIDs: shardIDs(shards)})
	if err != nil {
		d.problem("open node: %v", err)
		return L
	}
	d.n = n
	world.Enable(true)
	world.Snapshot("engine-opened")
	d.ctx, d.stop = context.WithCancel(context.Background())
	installPartitionFn(func(ps *partState) {
		d.mu.Lock()
		d.parts[ps.key] = ps
		d.mu.Unlock()
		ps.fam.afterWriteRows = d.afterWriteRows
		ps.fam.onWriteRows = d.onWriteRows
		ps.fam.onCommit = d.onCommit
		ps.fam.onAck = d.onAck
		ps.fam.skipAck = func() bool {
			if ps.dead.Load() {
				d.count("ack_callbacks_for_a_partition_the_garbage_collector_removed", 1)
				return true
			}
			return false
		}
	}, true, d.gate)
	d.mgr = replica.NewWriteAheadLogManager(d.ctx, walConfigGC(), selfNode, n.Engine, nil, noCluster{})
	d.wal = d.mgr.GetOrCreateLog(dbName)
	var fams []tsdb.DataFamily
	for s := 0; s < shards; s++ {
		for _, fam := range families {
			key := partKey{Shard: s, Family: fam}
			L.Parts = append(L.Parts, key)
			if _, err := d.wal.GetOrCreatePartition(models.ShardID(s), fam, selfNode); err != nil {
				d.problem("create partition %s: %v", key, err)
				return L
			}
			ps := d.parts[key]
			if err := bindReplicator(ps); err != nil {
				d.problem("build replica %s: %v", key, err)
				return L
			}
			fams = append(fams, ps.fam.DataFamily)
		}
	}
	g := newGen(r, shards, recent)
	g.old = old
	g.slots[old] = r.Perm(slotsPerFam)
	g.maxMet = 3
	drained := func(limit time.Duration) bool { // pacing only
		deadline := time.Now().Add(limit)
		for time.Now().Before(deadline) {
			busy := false
			for _, key := range L.Parts {
				if !d.parts[key].dead.Load() && d.parts[key].rep.Pending() > 0 {
					busy = true
				}
			}
			if !busy {
				return true
			}
			time.Sleep(2 * time.Millisecond)
		}
		return false
	}
	cycle := func(c int) {
		d.realCycle(&planStep{Kind: "cycle", Cycle: c})
	}
	// phase 1: some series whose names become durable
	for i := 0; i < 3; i++ {
		a := g.appendAction(4)
		d.appendRows(a.Rows, 1, false)
	}
	old1 := g.oldAction()
	d.appendRows(old1.Rows, 1, false)
	drained(20 * time.Second)
	time.Sleep(5 * time.Millisecond)
	// the garbage collect task while the entries of the old family are consumed but not flushed ...
	d.walGC()
	cycle(0)
	// ... and after they were flushed and acknowledged (the partitions of the old family are removed)
	d.walGC()
	ic.sample = 4
	rounds := 2
	if tier == "thorough" {
		rounds = 3
	}
	for round := 1; round <= rounds; round++ {
		g.cycle = round
		// backlog: entries with many rows, half of them points of old series
		var batches [][]rowRec
		nb := 10 + r.Intn(6)
		for b := 0; b < nb; b++ {
			fam := g.fam()
			var rows []rowRec
			nr := 6 + r.Intn(6)
			for i := 0; i < nr; i++ {
				kind := "series"
				if r.Intn(2) == 0 {
					kind = "point"
				}
				rows = append(rows, g.row(kind, fam, nil))
			}
			batches = append(batches, rows)
		}
		flushDelay := time.Duration(r.Intn(30)) * time.Millisecond
		var wg sync.WaitGroup
		var bmu sync.Mutex
		next := 0
		for w := 0; w < 3; w++ {
			wg.Add(1)
			go func() {
				defer wg.Done()
				for {
					bmu.Lock()
					if next >= len(batches) {
						bmu.Unlock()
						return
					}
					rows := batches[next]
					bi := next
					next++
					bmu.Unlock()
					switch bi % 5 {
					case 2:
						d.appendRows(rows, 1, false, "corrupt") // an entry the replicator rejects, behind valid ones
					case 4:
						d.appendRows(rows, 1, false, "garbage")
					default:
						d.appendRows(rows, 1, false)
					}
				}
			}()
		}
		wg.Add(1)
		go func() {
			defer wg.Done()
			time.Sleep(flushDelay)
			cycle(round)
			if round%2 == 1 {
				cycle(round) // a second job right behind
			}
		}()
		wg.Add(1)
		go func() {
			defer wg.Done()
			for i := 0; i < 3; i++ {
				time.Sleep(flushDelay / 2)
				for _, key := range L.Parts {
					if key.Family != old && !d.parts[key].dead.Load() {
						d.parts[key].inner.IsExpire()
					}
				}
				d.count("log_sync_gc", 1)
				d.walGC()
			}
		}()
		wg.Wait()
		if round < rounds {
			drained(20 * time.Second)
		}
	}
	world.Snapshot("final")
	world.Enable(false)
	d.mu.Lock()
	for _, img := range world.Images() {
		L.Images = append(L.Images, imageRec{Index: img.Index, Label: strings.ReplaceAll(img.Label, nodeDir, "<node>"), Dir: img.Dir, Hash: img.Hash})
	}
	L.Counters["images"] = len(L.Images)
	L.Counters["seam_ops"] = int(world.Ops())
	overl := 0
	v := &verifier{L: L}
	for i := range L.Entries {
		if v.overlapsDataFlush(&L.Entries[i]) {
			overl++
		}
	}
	L.Counters["free.entries_applied_while_a_data_flush_of_their_family_ran"] = overl
	// a private copy: the replica loops may still be applying entries
	cp := *L
	cp.Entries = append([]entryRec(nil), L.Entries...)
	cp.Flushes = append([]flushRec(nil), L.Flushes...)
	cp.Acks = append([]ackRec(nil), L.Acks...)
	d.mu.Unlock()
	return &cp
}
