package main

import (
	"fmt"
	"math/rand"
	"time"

	"github.com/lindb/lindb/verif/internal/node"
)

// The plan of a history is a pure function of (seed, tier, history index): which rows arrive when, which flush steps
// run, and at which file-system operation of a flush step further rows arrive.

type action struct {
	Kind    string   `json:"kind"` // append | replicate | sync
	Rows    []rowRec `json:"rows,omitempty"`
	Writers int      `json:"writers,omitempty"` // append: concurrent WriteLog callers (entries are spread over them)
	Steps   int      `json:"steps,omitempty"`   // replicate: steps per partition, -1 = until nothing is pending
	Split   bool     `json:"split,omitempty"`   // append: one entry per row instead of one per (shard, family)
	// Reject: append an entry the replicator cannot apply (corrupt | garbage) behind the valid entries, same partition
	Reject string `json:"reject,omitempty"`
}

// injection: when the Nth file-system operation of the flush step whose label starts with Prefix and contains
// Contains is about to run, the actions are executed (by the arrival goroutine, the operation waits for them).
type injection struct {
	Prefix   string   `json:"prefix"`
	Contains string   `json:"contains"`
	Nth      int      `json:"nth"`
	Actions  []action `json:"actions"`
	Targeted string   `json:"targeted,omitempty"`
}

type planStep struct {
	Kind    string      `json:"kind"` // arrive | meta | index | data | sync
	Cycle   int         `json:"cycle"`
	CycKind string      `json:"cyc_kind"`
	Actions []action    `json:"actions,omitempty"`
	Shard   int         `json:"shard"`
	Family  int64       `json:"fam"`
	Inject  []injection `json:"inject,omitempty"`
	Racing  []rowRec    `json:"racing,omitempty"` // data flush started between WriteRows and CommitSequence of this entry
	// RaceDuring: the flush is started by another goroutine right before the replicator's WriteRows of that entry
	RaceDuring bool `json:"race_during,omitempty"`
	// Fault: the creation of the table file of this data flush fails (the memory database stays frozen in the family)
	Fault bool `json:"fault,omitempty"`
	// FaultOp (cycle steps): a file-system operation of the metadata flush or of a shard's index flush of this job fails
	FaultOp *faultSpec `json:"fault_op,omitempty"`
}

type plan struct {
	Shards   int        `json:"shards"`
	Families []int64    `json:"families"`
	Old      int64      `json:"old"`
	Steps    []planStep `json:"steps"`
	Cycles   []string   `json:"cycles"`
}

type gMetric struct {
	name   string
	hosts  []string
	fields []string // beyond "f"
	keys   []string // beyond uid, host
}

type gSeries struct {
	m     *gMetric
	uid   string
	host  string
	extra map[string]string
	fld   []string
	shard int
	safe  int // names are durable once cycle `safe` has completed
}

type gen struct {
	r        *rand.Rand
	shards   int
	families []int64
	old      int64 // old family (its log partitions become candidates of the WAL garbage collector); 0 = none
	oldGone  bool  // the plan has run the garbage collector after the old family was drained: no more rows for it
	slots    map[int64][]int
	uidN     int
	hostN    int
	extraN   int
	metrics  []*gMetric
	series   []*gSeries
	maxMet   int
	cycle    int
	inFlush  bool // rows generated now arrive after the cycle's metadata flush began
	lastUsed *gMetric
}

func newGen(r *rand.Rand, shards int, families []int64) *gen {
	g := &gen{r: r, shards: shards, families: families, slots: map[int64][]int{}, maxMet: 4}
	for _, f := range families {
		g.slots[f] = r.Perm(slotsPerFam)
	}
	return g
}

func (g *gen) slot(fam int64) int {
	s := g.slots[fam]
	if len(s) == 0 {
		panic("c07: out of slots for a family (history too long)")
	}
	v := s[0]
	g.slots[fam] = s[1:]
	return v
}

func (g *gen) safeCycle() int {
	if g.inFlush {
		return g.cycle + 1
	}
	return g.cycle
}

func (g *gen) shardOf(row *rowRec) int {
	if g.shards == 1 {
		return 0
	}
	s, err := node.ShardOf(toPoint(row), g.shards)
	if err != nil {
		panic(err)
	}
	return s
}

func toPoint(row *rowRec) node.Point {
	tags := map[string]string{"uid": row.UID, "host": row.Host}
	for k, v := range row.Extra {
		tags[k] = v
	}
	p := node.Point{Metric: row.Metric, Tags: tags, Timestamp: row.ts()}
	for _, f := range row.Fields {
		p.Fields = append(p.Fields, node.Field{Name: f, Type: node.Sum, Value: 1})
	}
	return p
}

func (g *gen) newMetric() *gMetric {
	m := &gMetric{name: fmt.Sprintf("m%d", len(g.metrics))}
	g.metrics = append(g.metrics, m)
	return m
}

func (g *gen) pickMetric(allowNew bool) *gMetric {
	if len(g.metrics) == 0 || (allowNew && len(g.metrics) < g.maxMet && g.r.Intn(4) == 0) {
		return g.newMetric()
	}
	return g.metrics[g.r.Intn(len(g.metrics))]
}

func (g *gen) pickHost(m *gMetric) string {
	if len(m.hosts) == 0 || (len(m.hosts) < 4 && g.r.Intn(3) == 0) {
		g.hostN++
		h := fmt.Sprintf("h%d", g.hostN)
		m.hosts = append(m.hosts, h)
		return h
	}
	return m.hosts[g.r.Intn(len(m.hosts))]
}

// row kinds: series (new series, maybe new metric / host), point (existing series, new slot),
// tagkey (new series with a new tag key on an existing metric), field (new series with a new field on an existing metric)
func (g *gen) row(kind string, fam int64, m *gMetric) rowRec {
	switch kind {
	case "point":
		if len(g.series) == 0 {
			return g.row("series", fam, m)
		}
		s := g.series[g.r.Intn(len(g.series))]
		return g.pointOf(s, fam)
	}
	if m == nil {
		m = g.pickMetric(kind == "series")
	}
	g.lastUsed = m
	g.uidN++
	s := &gSeries{m: m, uid: fmt.Sprintf("u%d", g.uidN), host: g.pickHost(m), safe: g.safeCycle(), fld: []string{"f"}}
	switch kind {
	case "tagkey":
		g.extraN++
		k := fmt.Sprintf("k%d", g.extraN)
		m.keys = append(m.keys, k)
		s.extra = map[string]string{k: fmt.Sprintf("x%d", g.extraN)}
	case "field":
		g.extraN++
		f := fmt.Sprintf("g%d", g.extraN)
		m.fields = append(m.fields, f)
		s.fld = append(s.fld, f)
	default:
		// now and then a series uses one of the extra keys / fields the metric already has
		if len(m.keys) > 0 && g.r.Intn(3) == 0 {
			k := m.keys[g.r.Intn(len(m.keys))]
			g.extraN++
			s.extra = map[string]string{k: fmt.Sprintf("x%d", g.extraN)}
		}
		if len(m.fields) > 0 && g.r.Intn(3) == 0 {
			s.fld = append(s.fld, m.fields[g.r.Intn(len(m.fields))])
		}
	}
	row := rowRec{Metric: m.name, UID: s.uid, Host: s.host, Extra: s.extra, Fields: s.fld, Family: fam, Slot: g.slot(fam), NewSer: true}
	row.Shard = g.shardOf(&row)
	s.shard = row.Shard
	g.series = append(g.series, s)
	return row
}

func (g *gen) pointOf(s *gSeries, fam int64) rowRec {
	return rowRec{Metric: s.m.name, UID: s.uid, Host: s.host, Extra: s.extra, Fields: s.fld, Family: fam, Slot: g.slot(fam), Shard: s.shard}
}

// rowsFor makes n rows that the routing sends to the given shard and family: points of existing series of the shard,
// or new series whose tags hash into it.
func (g *gen) rowsFor(shard int, fam int64, n int) []rowRec {
	var rows []rowRec
	var own []*gSeries
	for _, s := range g.series {
		if s.shard == shard {
			own = append(own, s)
		}
	}
	for i := 0; i < n; i++ {
		if len(own) > 0 && (i > 0 || g.r.Intn(2) == 0) {
			rows = append(rows, g.pointOf(own[g.r.Intn(len(own))], fam))
			continue
		}
		m := g.pickMetric(false)
		for try := 0; try < 64; try++ {
			g.uidN++
			probe := rowRec{Metric: m.name, UID: fmt.Sprintf("u%d", g.uidN), Host: g.pickHost(m), Fields: []string{"f"}, Family: fam, Slot: 0}
			if g.shardOf(&probe) != shard {
				continue
			}
			s := &gSeries{m: m, uid: probe.UID, host: probe.Host, safe: g.safeCycle(), fld: []string{"f"}, shard: shard}
			g.series = append(g.series, s)
			own = append(own, s)
			probe.Slot, probe.Shard, probe.NewSer = g.slot(fam), shard, true
			rows = append(rows, probe)
			break
		}
	}
	return rows
}

// segmentPath is the part of a table file label that names the data family's directory.
func segmentPath(shard int, fam int64) string {
	t := time.UnixMilli(fam).UTC()
	return fmt.Sprintf("/shard/%d/segment/day/%s/%d/", shard, t.Format("20060102"), t.Hour())
}

// duringDataFlush: an entry for exactly the family being flushed is appended and replicated after its table file was
// written and before the flush commits and acknowledges.
func (g *gen) duringDataFlush(shard int, fam int64) injection {
	// ("create": the first operation on the table file; its close and the manifest commit run under the family lock)
	return injection{Prefix: "create ", Contains: segmentPath(shard, fam), Nth: 0, Targeted: "data-flush-of-the-family",
		Actions: []action{{Kind: "append", Rows: g.rowsFor(shard, fam, 1+g.r.Intn(2)), Writers: 1}, {Kind: "replicate", Steps: -1}}}
}

// oldAction: 1-2 rows for the old family.
func (g *gen) oldAction() action {
	a := action{Kind: "append", Writers: 1}
	n := 1 + g.r.Intn(2)
	for i := 0; i < n; i++ {
		kind := "series"
		if i > 0 && g.r.Intn(2) == 0 {
			kind = "point"
		}
		a.Rows = append(a.Rows, g.row(kind, g.old, nil))
	}
	return a
}

func (g *gen) fam() int64 { return g.families[g.r.Intn(len(g.families))] }

// appendAction makes 1..maxRows rows of one family.
func (g *gen) appendAction(maxRows int) action {
	fam := g.fam()
	n := 1 + g.r.Intn(maxRows)
	a := action{Kind: "append", Writers: 1}
	for i := 0; i < n; i++ {
		kind := "series"
		if g.r.Intn(4) == 0 {
			kind = "point"
		}
		a.Rows = append(a.Rows, g.row(kind, fam, nil))
	}
	if n > 1 && g.r.Intn(3) == 0 {
		a.Split = true
		a.Writers = 1 + g.r.Intn(3)
	}
	return a
}

func (g *gen) replicate(all bool) action {
	if all || g.r.Intn(3) > 0 {
		return action{Kind: "replicate", Steps: -1}
	}
	return action{Kind: "replicate", Steps: 1}
}

func (g *gen) rejectKind() string {
	if g.r.Intn(2) == 0 {
		return "corrupt"
	}
	return "garbage"
}

func (g *gen) arrival(maxRows int, replAll bool) []action {
	acts := []action{g.appendAction(maxRows)}
	if g.r.Intn(4) == 0 {
		acts[0].Reject = g.rejectKind()
	}
	if g.r.Intn(3) == 0 {
		acts = append(acts, g.appendAction(maxRows))
	}
	acts = append(acts, g.replicate(replAll))
	return acts
}

func (g *gen) genericInjection(maxNth int) injection {
	return injection{Nth: g.r.Intn(maxNth), Actions: g.arrival(2, false)}
}

// racingRows picks an old series (names durable since an earlier completed cycle) of the given shard.
func (g *gen) racingRows(shard int, fam int64) []rowRec {
	var old []*gSeries
	for _, s := range g.series {
		if s.safe < g.cycle && s.shard == shard {
			old = append(old, s)
		}
	}
	if len(old) == 0 {
		return nil
	}
	n := 1 + g.r.Intn(2)
	var rows []rowRec
	for i := 0; i < n; i++ {
		rows = append(rows, g.pointOf(old[g.r.Intn(len(old))], fam))
	}
	return rows
}

func makePlan(r *rand.Rand, idx int, tier string, t0 int64) *plan {
	shards := 1 + idx%2
	nfam := 1 + (idx/2)%2
	families := []int64{t0}
	if nfam == 2 {
		families = append(families, t0-hourMs)
	}
	g := newGen(r, shards, families)
	// a family three days back: the write ahead log garbage collector removes its partitions once they are drained
	// (quick tier: only in the histories with one shard)
	old := t0 - 72*hourMs
	allFamilies := append([]int64(nil), families...)
	if tier == "thorough" || shards == 1 {
		g.old = old
		g.slots[old] = r.Perm(slotsPerFam)
		allFamilies = append(allFamilies, old)
	} else {
		old = 0
		g.oldGone = true
	}
	p := &plan{Shards: shards, Families: allFamilies, Old: old}
	// cycle kinds: every history has a truly idle flush cycle (preceded by a cycle that flushes the leftovers of the
	// cycle before) followed by a cycle with new names; busy cycles have rows arriving at file-system operations of
	// the flush steps.
	var cycles []string
	switch idx % 3 {
	case 0:
		cycles = []string{"busy", "busy", "drain", "idle", "busy"}
	case 1:
		cycles = []string{"quiet", "idle", "busy", "drain"}
	default:
		cycles = []string{"busy", "busy", "drain", "idle", "quiet"}
	}
	if tier == "thorough" && r.Intn(2) == 0 {
		cycles = append(cycles, "busy")
	}
	p.Cycles = cycles
	add := func(s planStep) { p.Steps = append(p.Steps, s) }
	// the last busy cycle after the first cycle is driven step by step and starts its data flushes between WriteRows and
	// CommitSequence of an entry for old series; of the other cycles about half run through the real doFlush
	raceCycle := -1
	nrace := idx
	for c, kind := range cycles {
		if kind == "busy" && c >= 1 && raceCycle < 0 {
			raceCycle = c
		}
	}
	_ = nrace
	endCycle := func(c int, kind string) {
		if r.Intn(2) == 0 {
			add(planStep{Kind: "sync", Cycle: c, CycKind: kind})
		}
		if kind == "drain" && !g.oldGone {
			// everything of the old family is flushed and acknowledged now: the garbage collector removes its partitions
			add(planStep{Kind: "gc", Cycle: c, CycKind: kind})
			g.oldGone = true
		} else if r.Intn(3) == 0 {
			add(planStep{Kind: "gc", Cycle: c, CycKind: kind})
		}
	}
	// setup arrivals
	g.cycle = 0
	setup := []action{g.appendAction(3)}
	if old != 0 {
		setup = append(setup, g.oldAction())
	}
	add(planStep{Kind: "arrive", Cycle: -1, Actions: append(setup, g.appendAction(2), g.replicate(true))})
	// the garbage collect task runs while the entries of the old family are consumed but not flushed
	add(planStep{Kind: "gc", Cycle: -1})
	for c, kind := range cycles {
		g.cycle = c
		g.inFlush = false
		busy := kind == "busy"
		if busy || kind == "quiet" {
			acts := g.arrival(3, false)
			if r.Intn(2) == 0 {
				acts = append(acts, g.arrival(2, false)...)
			}
			if !g.oldGone && r.Intn(2) == 0 {
				acts = append(acts, g.oldAction(), action{Kind: "replicate", Steps: -1})
			}
			add(planStep{Kind: "arrive", Cycle: c, CycKind: kind, Actions: acts})
			if !g.oldGone && r.Intn(2) == 0 {
				add(planStep{Kind: "gc", Cycle: c, CycKind: kind})
			}
		}
		g.inFlush = true
		if c != raceCycle && r.Intn(2) == 0 {
			// the whole cycle through the real dataFlushChecker.doFlush (tsdb.VerifDoFlush): rows arrive at file-system
			// operations of its metadata / index / data part
			cyc := planStep{Kind: "cycle", Cycle: c, CycKind: kind}
			if busy {
				if r.Intn(2) == 0 {
					inj := g.genericInjection(12)
					inj.Contains = "/meta/"
					cyc.Inject = append(cyc.Inject, inj)
				}
				if g.lastUsed != nil && r.Intn(2) == 0 {
					k := "tagkey"
					if r.Intn(2) == 0 {
						k = "field"
					}
					row := g.row(k, g.fam(), g.lastUsed)
					cyc.Inject = append(cyc.Inject, injection{Prefix: "close ", Contains: "/kv/schema/", Nth: 0, Targeted: "schema-" + k,
						Actions: []action{{Kind: "append", Rows: []rowRec{row}, Writers: 1}, {Kind: "replicate", Steps: -1}}})
				}
				if r.Intn(2) == 0 {
					inj := g.genericInjection(14)
					inj.Contains = "/index/"
					cyc.Inject = append(cyc.Inject, inj)
				}
				cyc.Inject = append(cyc.Inject, g.duringDataFlush(0, families[0]))
				if r.Intn(2) == 0 {
					inj := g.genericInjection(2)
					inj.Contains = "/segment/"
					cyc.Inject = append(cyc.Inject, inj)
				}
			}
			add(cyc)
			endCycle(c, kind)
			continue
		}
		meta := planStep{Kind: "meta", Cycle: c, CycKind: kind}
		if busy {
			if r.Intn(3) > 0 {
				meta.Inject = append(meta.Inject, g.genericInjection(14))
			}
			// targeted: a new tag key or field for a metric whose schema is being flushed, right after the schema
			// table was written and before the flush marks the schema persisted
			if g.lastUsed != nil {
				k := "tagkey"
				if r.Intn(2) == 0 {
					k = "field"
				}
				row := g.row(k, g.fam(), g.lastUsed)
				meta.Inject = append(meta.Inject, injection{Prefix: "close ", Contains: "/kv/schema/", Nth: 0, Targeted: "schema-" + k,
					Actions: []action{{Kind: "append", Rows: []rowRec{row}, Writers: 1}, {Kind: "replicate", Steps: -1}}})
			}
		}
		add(meta)
		if busy && r.Intn(2) == 0 {
			add(planStep{Kind: "arrive", Cycle: c, CycKind: kind, Actions: g.arrival(2, false)})
		}
		for s := 0; s < shards; s++ {
			ix := planStep{Kind: "index", Cycle: c, CycKind: kind, Shard: s}
			if busy && r.Intn(2) == 0 {
				ix.Inject = append(ix.Inject, g.genericInjection(16))
			}
			add(ix)
			if busy && r.Intn(2) == 0 {
				add(planStep{Kind: "arrive", Cycle: c, CycKind: kind, Actions: g.arrival(2, false)})
			}
			for _, fam := range allFamilies {
				d := planStep{Kind: "data", Cycle: c, CycKind: kind, Shard: s, Family: fam}
				if busy && !(fam == old && g.oldGone) {
					switch {
					case c == raceCycle:
						d.Racing = g.racingRows(s, fam)
						d.RaceDuring = nrace%2 == 1
						if d.RaceDuring && len(d.Racing) > 0 {
							// more rows: the write takes longer
							for i := 0; i < 4; i++ {
								d.Racing = append(d.Racing, g.racingRows(s, fam)[0])
							}
						}
						nrace++
					default:
						d.Inject = append(d.Inject, g.duringDataFlush(s, fam))
						if r.Intn(2) == 0 {
							// more rows (any family) while the table file of the data flush is being written
							d.Inject = append(d.Inject, g.genericInjection(2))
						}
					}
				}
				add(d)
			}
		}
		endCycle(c, kind)
	}
	g.cycle = len(cycles)
	g.inFlush = false
	// tail: entries that stay in the log (partly not even replicated) when the history ends
	// ... among them valid entries followed by an entry the replicator rejects, all replicated and none flushed
	withReject := g.appendAction(3)
	withReject.Reject, withReject.Split, withReject.Writers = "corrupt", false, 1
	tail := []action{withReject, {Kind: "replicate", Steps: -1}, g.appendAction(3), g.replicate(false), g.appendAction(2)}
	if r.Intn(2) == 0 {
		tail = append(tail, action{Kind: "replicate", Steps: 1})
	}
	add(planStep{Kind: "arrive", Cycle: len(cycles), Actions: tail})
	if tier == "thorough" || idx%3 == 0 {
		// shutdown with a family that holds two memory databases: a data flush fails when it creates its table file
		// (the frozen memory database stays, lindb never retries it), more entries go into the new one, the node is
		// closed (every file-system operation of the close is a crash point)
		fam := families[0]
		c := len(cycles) + 1
		add(planStep{Kind: "arrive", Cycle: c, Actions: []action{{Kind: "replicate", Steps: -1},
			{Kind: "append", Rows: g.rowsFor(0, fam, 2), Writers: 1}, {Kind: "replicate", Steps: -1}}})
		add(planStep{Kind: "data", Cycle: c, CycKind: "fault", Shard: 0, Family: fam, Fault: true})
		add(planStep{Kind: "arrive", Cycle: c, Actions: []action{{Kind: "append", Rows: g.rowsFor(0, fam, 2), Writers: 1},
			{Kind: "append", Rows: g.rowsFor(0, fam, 1), Writers: 1}, {Kind: "replicate", Steps: -1}, g.appendAction(2)}})
		add(planStep{Kind: "close", Cycle: c + 1, CycKind: "shutdown"})
	}
	return p
}

func histRand(idx int, seed int64) *rand.Rand {
	return rand.New(rand.NewSource(seed*7919 + int64(idx)*104729 + 17))
}

func planFor(idx int, tier string, seed, t0 int64) *plan {
	switch {
	case idx >= faultBase:
		return makeFaultPlan(histRand(idx, seed), idx-faultBase, tier, seed, t0)
	case idx >= directedBase:
		return directedPlan(idx-directedBase, t0)
	}
	return makePlan(histRand(idx, seed), idx, tier, t0)
}
