package main

import (
	"fmt"
	"math/rand"
	"strings"
)

// Fault-job histories (history index faultBase + n): an I/O FAULT - not a crash - inside a real flush job.
//
//	names A arrive and are replicated, [a complete flush job, names B arrive]                       (prelude, not verified)
//	flush job F through the real doFlush -> flushShard -> Flush; one file-system operation of its metadata flush or
//	  of a shard's index flush fails (the operation is not executed, as with EIO / ENOSPC); the node keeps running
//	names C arrive (new metric, new series, new tag key / field, new tag values) and are replicated
//	0, 1 or 2 further flush jobs, all operations succeeding, with more new names between them
//	a tail of entries that stay in the log
//
// Nothing arrives while a job runs: every row of these histories is applied strictly between two flush jobs, so none
// of them is in the window of the flush protocol. Every file-system operation and log page store from the start of
// job F on is a crash point; the images are judged like all others (ack vs stored sequence, exactly-once ledger
// through the query path). The position of the fault is stratified over the stores of a job:
//
//	metadata: the id sequence file's sync, and for each of the ns / metric / schema / tv stores the creation, a write
//	          and the close of its table file and the write / sync of the manifest record that commits it
//	index:    the same for the metric(-inverted) / forward / inverted / series stores of the shard
const faultBase = 3000

// faultSpec: while the job runs, the Nth operation whose label starts with Op and contains Store fails. With Arm set
// only operations after the first one whose label contains Arm count (the manifest operations that commit the table
// file of one store).
type faultSpec struct {
	Target string `json:"target"` // meta/<store>/<operation> | index/<store>/<operation>
	Kind   string `json:"kind"`   // meta | index
	Shard  int    `json:"shard"`
	Arm    string `json:"arm,omitempty"`
	Op     string `json:"op"`
	Store  string `json:"store"`
	Nth    int    `json:"nth"`
}

func (sp *faultSpec) matches(label string) bool {
	if sp.Store == "seqsync" {
		return label == "seqsync"
	}
	return strings.HasPrefix(label, sp.Op+" ") && strings.Contains(label, sp.Store)
}

var faultOps = []string{"create", "write", "close", "manifest-write", "manifest-sync"}

func storeSpecs(kind string, shard int, base string, stores []string) []faultSpec {
	var out []faultSpec
	for _, st := range stores {
		dir := base + "/" + st + "/"
		for _, op := range faultOps {
			sp := faultSpec{Target: kind + "/" + st + "/" + op, Kind: kind, Shard: shard, Op: op, Store: dir}
			switch op {
			case "manifest-write":
				sp.Arm, sp.Op, sp.Store = dir, "write", base+"/MANIFEST"
			case "manifest-sync":
				sp.Arm, sp.Op, sp.Store = dir, "sync", base+"/MANIFEST"
			}
			out = append(out, sp)
		}
	}
	return out
}

// metaFaultSpecs / indexFaultSpecs: every position of the stratification, in a fixed order.
func metaFaultSpecs() []faultSpec {
	out := []faultSpec{{Target: "meta/sequence/sync", Kind: "meta", Store: "seqsync"}}
	return append(out, storeSpecs("meta", 0, "/"+dbName+"/meta/kv", []string{"ns", "metric", "schema", "tv"})...)
}

func indexFaultSpecs(shard int) []faultSpec {
	return storeSpecs("index", shard, fmt.Sprintf("/%s/shard/%d/index", dbName, shard), []string{"metric", "forward", "inverted", "series"})
}

// faultSpecFor chooses the fault position of fault-job history n: even n = index flush, odd n = metadata flush; the
// position walks through the list with the seed and n, so that seeds x histories cover every (store, operation).
// History 0 of every run stays on the first two index stores (nothing of the shard's index is durable when they fail).
func faultSpecFor(n int, seed int64, shards int) faultSpec {
	s := int(seed % 1000003)
	if s < 0 {
		s = -s
	}
	if n%2 == 0 {
		shard := (n / 2) % shards
		all := indexFaultSpecs(shard)
		if n == 0 {
			return all[s%10] // metric | forward store, every operation
		}
		return all[(s*7+(n/2)*3+10)%len(all)]
	}
	all := metaFaultSpecs()
	return all[(s*5+(n/2)*4+7)%len(all)]
}

type jobFaultState struct {
	spec  *faultSpec
	armed bool
	seen  int
	fired string
	after int // operations on stores of the same flush seen after the failed one
}

// sameFlush: the label names a store of the flush (metadata / index of the shard) the fault belongs to.
func (sp *faultSpec) sameFlush(label string) bool {
	if sp.Kind == "meta" {
		return label == "seqsync" || strings.Contains(label, "/"+dbName+"/meta/")
	}
	return strings.Contains(label, fmt.Sprintf("/%s/shard/%d/index/", dbName, sp.Shard))
}

// noteJobFault (under d.mu, before the flush records of the job are closed): the flush the operation belongs to is
// recorded as failed; what the job did afterwards is counted.
func (d *driver) noteJobFault(tr *realTracker, jf *jobFaultState, job *jobRec) {
	sp := jf.spec
	if jf.fired == "" {
		d.L.Counters["fault_job.fault_position_not_reached"]++
		return
	}
	job.Fired = strings.ReplaceAll(jf.fired, d.world.Root(), "<node>")
	key := "meta"
	if sp.Kind == "index" {
		key = fmt.Sprintf("index/%d", sp.Shard)
	}
	rec := tr.recs[key]
	if rec == nil {
		return
	}
	rec.Err = "injected I/O error at " + job.Fired
	rec.JobFault = true
	d.L.Counters["fault_job."+sp.Kind+"_flush_failed_by_an_injected_io_error"]++
	d.L.Counters["fault_job.at."+sp.Target]++
	if jf.after > 0 {
		d.L.Counters["fault_job.flush_went_on_writing_after_the_failed_operation"]++
	}
	for k, r := range tr.recs {
		if k == key {
			continue
		}
		if r.BeginImg < 0 {
			// the job gave up: these flushes did not run (they neither cover a name nor make anything durable)
			if sp.Kind == "meta" || (r.Kind == "data" && r.Shard == sp.Shard) {
				r.Err = "not run: the flush job gave up after its " + sp.Kind + " flush failed"
			}
			continue
		}
		switch {
		case sp.Kind == "index" && r.Kind == "data" && r.Shard == sp.Shard:
			d.L.Counters["fault_job.family_data_flushed_by_the_job_after_its_index_flush_failed"]++
		case sp.Kind == "meta" && r.Kind != "meta":
			d.L.Counters["fault_job."+r.Kind+"_flushed_by_the_job_after_its_metadata_flush_failed"]++
		}
	}
}

// jobFaultAt answers whether this operation is the one the running flush job loses.
func (d *driver) jobFaultAt(label string) error {
	if strings.Contains(label, "/wal/") {
		return nil
	}
	d.mu.Lock()
	defer d.mu.Unlock()
	st := d.jobFault
	if st == nil || !d.active {
		return nil
	}
	sp := st.spec
	if st.fired != "" {
		if sp.sameFlush(label) {
			st.after++
		}
		return nil
	}
	if sp.Arm != "" && !st.armed {
		if strings.Contains(label, sp.Arm) {
			st.armed = true
		}
		return nil
	}
	if !sp.matches(label) {
		return nil
	}
	if st.seen < sp.Nth {
		st.seen++
		return nil
	}
	st.fired = label
	return fmt.Errorf("injected I/O error at %q", label)
}

// namesArrival: entries whose rows need new dictionary and index entries of every kind - a brand-new metric, a new
// series of an existing metric (new tag values), a new tag key or field of an existing metric - plus a point of an
// existing series; all replicated before the next step.
func (g *gen) namesArrival(withNewMetric bool) []action {
	fam := g.fam()
	var rows []rowRec
	var existing *gMetric
	if len(g.metrics) > 0 {
		existing = g.metrics[g.r.Intn(len(g.metrics))]
	}
	if withNewMetric || existing == nil {
		rows = append(rows, g.row("series", fam, g.newMetric()))
	}
	if existing != nil {
		rows = append(rows, g.row("series", g.fam(), existing))
		k := "tagkey"
		if g.r.Intn(2) == 0 {
			k = "field"
		}
		rows = append(rows, g.row(k, g.fam(), existing))
		rows = append(rows, g.row("point", g.fam(), nil))
	}
	a := action{Kind: "append", Rows: rows, Writers: 1}
	if g.r.Intn(2) == 0 {
		a.Split = true // one log entry per row
	}
	return []action{a, {Kind: "replicate", Steps: -1}}
}

func makeFaultPlan(r *rand.Rand, n int, tier string, seed, t0 int64) *plan {
	shards := 1
	if tier == "thorough" && n%8 >= 6 {
		shards = 2
	}
	spec := faultSpecFor(n, seed, shards)
	families := []int64{t0}
	if (n/2)%2 == 1 {
		families = append(families, t0-hourMs)
	}
	g := newGen(r, shards, families)
	g.oldGone = true
	p := &plan{Shards: shards, Families: families}
	// the ns store only has something to flush in the first job of a node
	pre := 1
	if strings.HasPrefix(spec.Target, "meta/ns/") || (tier == "thorough" && r.Intn(4) == 0) {
		pre = 0
	}
	post := 1 + (n/2+int(seed%2))%2
	if tier == "thorough" {
		post = (n / 2) % 3
	}
	p.Cycles = []string{fmt.Sprintf("fault-job %s pre=%d post=%d", spec.Target, pre, post)}
	add := func(s planStep) { p.Steps = append(p.Steps, s) }
	arrive := func(c int, newMetric bool) {
		acts := g.namesArrival(newMetric)
		if shards > 1 {
			acts = append(acts, g.namesArrival(false)...) // both shards get new series
		}
		add(planStep{Kind: "arrive", Cycle: c, CycKind: "fault-job", Actions: acts})
	}
	c := 0
	g.cycle = c
	arrive(-1, true)
	arrive(-1, true)
	if pre == 1 {
		add(planStep{Kind: "cycle", Cycle: c, CycKind: "fault-job"})
		c++
		g.cycle = c
		arrive(c, true)
	}
	sp := spec
	if sp.Op == "write" && sp.Arm == "" {
		sp.Nth = r.Intn(6) // a table file takes some tens of writes
	}
	add(planStep{Kind: "cycle", Cycle: c, CycKind: "fault-job", FaultOp: &sp})
	c++
	g.cycle = c
	arrive(c, true) // between the failed job and the next one
	for i := 0; i < post; i++ {
		add(planStep{Kind: "cycle", Cycle: c, CycKind: "fault-job"})
		c++
		g.cycle = c
		arrive(c, i == 0)
	}
	tail := []action{{Kind: "append", Rows: []rowRec{g.row("series", g.fam(), nil)}, Writers: 1}}
	add(planStep{Kind: "arrive", Cycle: c, CycKind: "fault-job", Actions: tail})
	return p
}

// jobWindows: logical time spans of the flush cycles of a ledger (all flush steps with the same cycle number).
func jobWindows(L *ledger) [][2]int64 {
	byCycle := map[int]*[2]int64{}
	var order []int
	for _, f := range L.Flushes {
		w := byCycle[f.Cycle]
		if w == nil {
			w = &[2]int64{f.BeginTick, f.DoneTick}
			byCycle[f.Cycle] = w
			order = append(order, f.Cycle)
		}
		if f.BeginTick < w[0] {
			w[0] = f.BeginTick
		}
		if f.DoneTick > w[1] {
			w[1] = f.DoneTick
		}
	}
	var out [][2]int64
	for _, c := range order {
		out = append(out, *byCycle[c])
	}
	return out
}

// ---------------------------------------------------------------------------------------------
// oracle side: rows and failed flushes

type compSpan struct {
	name      string
	kind      string // meta | index
	lo, first int64  // the dictionary / index entry was created in the driven run between these logical times
}

// compSpans: the dictionary entries and the series entry the row needs, with the time they were created.
func (v *verifier) compSpans(row *rowRec) []compSpan {
	comps, ser := row.components()
	var out []compSpan
	for _, c := range comps {
		if t, ok := v.metaFirst[c]; ok {
			out = append(out, compSpan{c, "meta", v.metaLo[c], t})
		}
	}
	if t, ok := v.seriesFirst[ser]; ok {
		out = append(out, compSpan{ser, "index", v.seriesLo[ser], t})
	}
	return out
}

// betweenJobs: the span lies strictly between two flush cycles (it overlaps no cycle of the history).
func (v *verifier) betweenJobs(lo, first int64) bool {
	if v.windows == nil {
		v.windows = jobWindows(v.L)
		if v.windows == nil {
			v.windows = [][2]int64{}
		}
	}
	for _, w := range v.windows {
		if lo <= w[1] && first >= w[0] {
			return false
		}
	}
	return true
}

func sameStore(f *flushRec, kind string, shard int) bool {
	return f.Kind == kind && (kind == "meta" || f.Shard == shard)
}

// failedFlushState relates a row to the failed metadata / index flushes of the history at image k.
//
//	waiting  kind of a name of the row that no completed flush covers, that was created strictly between two flush
//	         jobs and that a flush which had failed by image k should have made durable (it began after the name was
//	         created); allBetween tells that every uncovered name of the row was created strictly between jobs
//	retried  kind of a name of the row that was created strictly between jobs, after a failed flush had returned and
//	         with no successful flush of that store in between (the store still held the frozen part of the failed
//	         flush), and that a successful flush which began after its creation and had completed by image k covers
func (v *verifier) failedFlushState(row *rowRec, k int) (waiting string, waitingFlush *flushRec, allBetween bool, retried string) {
	var lastMeta, lastIndex int64
	for _, f := range v.L.Flushes {
		if f.Err != "" || k < f.DoneImg {
			continue
		}
		if f.Kind == "meta" && f.BeginTick > lastMeta {
			lastMeta = f.BeginTick
		}
		if f.Kind == "index" && f.Shard == row.Shard && f.BeginTick > lastIndex {
			lastIndex = f.BeginTick
		}
	}
	allBetween = true
	for _, c := range v.compSpans(row) {
		last := lastMeta
		if c.kind == "index" {
			last = lastIndex
		}
		between := v.betweenJobs(c.lo, c.first)
		if c.first >= last { // no completed flush covers it
			if !between {
				allBetween = false
				continue
			}
			for i := range v.L.Flushes {
				f := &v.L.Flushes[i]
				if f.JobFault && sameStore(f, c.kind, row.Shard) && f.BeginTick >= c.first && f.DoneImg <= k {
					if waiting == "" || c.kind == "meta" {
						waiting, waitingFlush = c.kind, f
					}
				}
			}
			continue
		}
		if !between {
			continue
		}
		var failed *flushRec
		for i := range v.L.Flushes {
			f := &v.L.Flushes[i]
			if f.JobFault && sameStore(f, c.kind, row.Shard) && f.DoneTick <= c.lo && (failed == nil || f.DoneTick > failed.DoneTick) {
				failed = f
			}
		}
		if failed == nil {
			continue
		}
		healed, covered := false, false
		for i := range v.L.Flushes {
			f := &v.L.Flushes[i]
			if f.Err != "" || !sameStore(f, c.kind, row.Shard) {
				continue
			}
			if f.BeginTick >= failed.DoneTick && f.DoneTick <= c.lo {
				healed = true
			}
			if f.BeginTick >= c.first && f.DoneImg <= k {
				covered = true
			}
		}
		if covered && !healed && (retried == "" || c.kind == "meta") {
			retried = c.kind
		}
	}
	return waiting, waitingFlush, allBetween, retried
}

func kindWord(kind string) string {
	if kind == "meta" {
		return "metadata"
	}
	return "index"
}

// lostAroundFailedFlush classifies a required row the recovered node does not return by the failed flushes of the
// history; "" = they do not explain it.
func (v *verifier) lostAroundFailedFlush(ref *rowRef, k int, durable int64) string {
	e := ref.entry
	waiting, failed, allBetween, retried := v.failedFlushState(ref.row, k)
	if waiting != "" && allBetween && e.Seq <= durable {
		// the family data was flushed (and the log acknowledged) by the very job whose metadata / index flush failed
		for i := range v.L.Flushes {
			d := &v.L.Flushes[i]
			if d.Kind == "data" && d.Cycle == failed.Cycle && d.Shard == e.Part.Shard && d.Family == e.Part.Family && !d.Skipped && d.Err == "" &&
				d.BeginImg <= k && d.PersistSeq >= e.Seq {
				return "C07/flushed-data-unresolvable/applied-between-flush-jobs/family-data-flushed-by-the-job-whose-" + kindWord(waiting) + "-flush-failed"
			}
		}
	}
	if retried != "" && !v.inHole(ref, k) {
		cls := "C07/flushed-data-unresolvable/applied-between-flush-jobs/after-failed-" + kindWord(retried) + "-flush-and-successful-retry"
		if e.Seq > durable {
			// the retry had completed its metadata / index flush, the family data was not flushed yet: the entry is replayed
			// on a node whose dictionaries / index hold only a part of what the completed flushes should have stored
			cls += "/replayed-row-not-returned"
		}
		return cls
	}
	return ""
}
