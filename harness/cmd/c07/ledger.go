package main

import (
	"encoding/json"
	"fmt"
	"os"
	"sort"
	"time"
)

// Everything the driver of a history knows is written into a ledger; the per-image oracle decides from the ledger
// and from what it observes on the recovered image.

const (
	dbName      = "vdb"
	selfNode    = 1 // node id of the storage node (leader and only replica of every shard)
	intervalMs  = 10_000
	hourMs      = 3600_000
	slotsPerFam = 360
)

// rowRec is one written data point. Its identity is (metric, uid, slot); a slot is used by one row of a history only
// (per family), so a value found in a query result can always be attributed to the row that owns it.
type rowRec struct {
	Metric string            `json:"m"`
	UID    string            `json:"uid"`
	Host   string            `json:"host"`
	Extra  map[string]string `json:"extra,omitempty"` // further tag keys of this series
	Fields []string          `json:"f"`               // sum fields, every one written with value 1
	Family int64             `json:"fam"`             // family start time (ms)
	Slot   int               `json:"slot"`            // 10s slot inside the family
	Shard  int               `json:"shard"`           // shard the real routing assigns (filled by the generator)
	NewSer bool              `json:"new"`             // first row of its series
}

func (r *rowRec) ts() int64 { return r.Family + int64(r.Slot)*intervalMs + 1000 }

func (r *rowRec) key() string { return fmt.Sprintf("%s|%s|%d|%d", r.Metric, r.UID, r.Family, r.Slot) }

// components lists the dictionary/index entries the row needs to be resolvable: the oracle uses the tick at which
// each of them was first applied on the node to decide whether a completed flush covers them.
func (r *rowRec) components() (meta []string, series string) {
	meta = append(meta, "metric:"+r.Metric)
	for _, f := range r.Fields {
		meta = append(meta, "field:"+r.Metric+"/"+f)
	}
	meta = append(meta, "tagkey:"+r.Metric+"/uid", "tagkey:"+r.Metric+"/host",
		"tagvalue:"+r.Metric+"/uid="+r.UID, "tagvalue:"+r.Metric+"/host="+r.Host)
	for k, v := range r.Extra {
		meta = append(meta, "tagkey:"+r.Metric+"/"+k, "tagvalue:"+r.Metric+"/"+k+"="+v)
	}
	sort.Strings(meta)
	return meta, fmt.Sprintf("series:%d/%s/%s", r.Shard, r.Metric, r.UID)
}

type partKey struct {
	Shard  int   `json:"shard"`
	Family int64 `json:"fam"`
}

func (p partKey) String() string {
	return fmt.Sprintf("shard%d/%s", p.Shard, time.UnixMilli(p.Family).UTC().Format("2006010215"))
}

// entryRec is one write-ahead-log entry (one compressed chunk of flat rows for one shard and family).
type entryRec struct {
	ID    int      `json:"id"`
	Part  partKey  `json:"part"`
	Seq   int64    `json:"seq"` // log sequence the entry received (-1 unknown)
	Rows  []rowRec `json:"rows"`
	IDs   []rowIDs `json:"ids,omitempty"` // ids of the rows' names right after the entry was applied in the driven run
	First int      `json:"first"`         // number of images before WriteLog was called
	Last  int      `json:"last"`          // number of images when WriteLog had returned (-1: never returned)
	// AppliedTick: logical time at which the local replicator's WriteRows for this entry returned in the driven run
	// (0 = not applied before the end of the history).
	AppliedTick int64 `json:"applied_tick"`
	ApplyLo     int64 `json:"apply_lo"`    // logical time right before that WriteRows was called (0 = never)
	CommitTick  int64 `json:"commit_tick"` // logical time right after CommitSequence of the entry
	WriteTick   int64 `json:"write_tick"`
	Writers     int   `json:"writers"` // number of concurrent WriteLog callers in the append action
	Garbage     bool  `json:"garbage,omitempty"`
	// Gen: generation of the log partition (0 = the first log; > 0: the log was re-created after the WAL garbage
	// collector had removed the partition, its sequences start at 0 again)
	Gen int `json:"gen,omitempty"`
	// Reject: the entry is one the local replicator cannot apply (corrupt | garbage); it carries no rows
	Reject string `json:"reject,omitempty"`
	// Raced: a data flush of the family started after the replicator's WriteRows of this entry had returned and before
	// its CommitSequence
	Raced bool `json:"raced,omitempty"`
}

// flushRec is one flush step of the node flush protocol.
type flushRec struct {
	Kind      string `json:"kind"` // meta | index | data
	Shard     int    `json:"shard"`
	Family    int64  `json:"fam"`
	Cycle     int    `json:"cycle"`
	BeginTick int64  `json:"begin_tick"` // logical time right before the flush call (the memory stores are swapped after it)
	// BeginTickHi: logical time at which the swap had certainly happened. Step-wise cycles call each flush themselves
	// (= BeginTick); in cycles run by the real doFlush it is the time of the first file-system operation of the store.
	BeginTickHi int64 `json:"begin_tick_hi"`
	// SwitchLo: logical time after which the swap happened (real doFlush: time of the last file-system operation seen
	// before the first one of this store; step-wise: BeginTick)
	SwitchLo int64  `json:"switch_lo"`
	Real     bool   `json:"real,omitempty"`
	DoneTick int64  `json:"done_tick"`
	BeginImg int    `json:"begin_img"`
	DoneImg  int    `json:"done_img"` // number of images when the call had returned
	Racing   bool   `json:"racing,omitempty"`
	Fault    bool   `json:"fault,omitempty"` // the creation of the flush's table file was made to fail
	Err      string `json:"err,omitempty"`
	// JobFault: a file-system operation of this metadata / index flush, run inside a real flush job, was made to fail
	// (Err names it); the node kept running
	JobFault bool `json:"job_fault,omitempty"`
	// Skipped: the flush job never touched this store (nothing to flush, or the job had given up before)
	Skipped bool `json:"skipped,omitempty"`
	// data flushes: sequence persisted according to the family state after the call
	PersistSeq int64 `json:"persist_seq"`
	Injected   int   `json:"injected"`   // arrivals executed at file-system operations of this step
	Overlapped int   `json:"overlapped"` // arrivals that could not complete while the operation waited
}

type ackRec struct {
	Part partKey `json:"part"`
	Seq  int64   `json:"seq"`
	Tick int64   `json:"tick"`
	Img  int     `json:"img"`
}

// removalRec: the write ahead log garbage collect task (writeAheadLog.destroy) removed the directory of a partition.
type removalRec struct {
	Part partKey `json:"part"`
	Tick int64   `json:"tick"`
	Img  int     `json:"img"` // number of images when the removal was noticed
	// Appended / Stored: appended sequence of the log and sequence stored with the family's flushed data at that time
	Appended int64 `json:"appended"`
	Stored   int64 `json:"stored"`
}

// jobRec is one flush job run through the real dataFlushChecker.doFlush.
type jobRec struct {
	Cycle     int    `json:"cycle"`
	BeginTick int64  `json:"begin_tick"`
	DoneTick  int64  `json:"done_tick"`
	BeginImg  int    `json:"begin_img"`
	DoneImg   int    `json:"done_img"`
	Target    string `json:"target,omitempty"` // planned fault position (store/operation), "" = none
	Fired     string `json:"fired,omitempty"`  // label of the operation that was made to fail
}

type imageRec struct {
	Index int    `json:"index"`
	Label string `json:"label"`
	Dir   string `json:"dir"`
	Hash  string `json:"hash"`
}

type ledger struct {
	Hist     int          `json:"hist"`
	Seed     int64        `json:"seed"`
	Tier     string       `json:"tier"`
	Mode     string       `json:"mode"` // step | free
	T0       int64        `json:"t0"`
	Shards   int          `json:"shards"`
	Families []int64      `json:"families"`
	Old      int64        `json:"old"` // family (3 days old) whose log partitions the WAL garbage collector may remove; 0 = none
	Parts    []partKey    `json:"parts"`
	Removals []removalRec `json:"removals"`
	Entries  []entryRec   `json:"entries"`
	Flushes  []flushRec   `json:"flushes"`
	Acks     []ackRec     `json:"acks"`
	Images   []imageRec   `json:"images"`
	Jobs     []jobRec     `json:"jobs,omitempty"`
	Config   string       `json:"config"`
	// VerifyFrom: first image the parent has verified (fault-job histories: the images of the prelude are what the
	// generated step histories cover)
	VerifyFrom int `json:"verify_from,omitempty"`
	// counters observed while driving
	Counters map[string]int `json:"counters"`
	Problems []string       `json:"problems"` // driver level failures (lindb call returned an error, ...)
}

func (l *ledger) save(path string) error {
	data, err := json.Marshal(l)
	if err != nil {
		return err
	}
	return os.WriteFile(path, data, 0o644)
}

func loadLedger(path string) (*ledger, error) {
	data, err := os.ReadFile(path)
	if err != nil {
		return nil, err
	}
	l := &ledger{}
	if err := json.Unmarshal(data, l); err != nil {
		return nil, err
	}
	return l, nil
}

func fmtTime(ms int64) string { return time.UnixMilli(ms).UTC().Format("2006-01-02 15:04:05") }
