package main

// Partly completed rollups (clause "no file that ... a pending rollup still needs is ever deleted or unmapped").
//
// A source store with >= 2 rollup target intervals marks every flushed table once per interval. A rollup job completes
// for the intervals whose target store is open and whose merge succeeds, and leaves the others pending. The table must
// stay on disk (and readable by file number) until the LAST interval's rollup has completed, no matter which flushes,
// level-0 compactions, clean-ups, cache clean-ups or store reopen run in between.
//
// The monitor does not ask lindb which rollups are pending: it keeps its own ledger of (table, interval) pairs and
// takes a pair off the ledger only when the target family of that interval demonstrably holds every token that was
// flushed into the table (the target family installs its output before the source family deletes the mark, so a table
// that lindb may legitimately delete is never pending in the ledger).

import (
	"fmt"
	"math/rand"
	"os"
	"path/filepath"
	"sort"
	"strconv"
	"sync"
	"time"

	"github.com/lindb/common/pkg/ltoml"

	"github.com/lindb/lindb/kv"
	"github.com/lindb/lindb/kv/table"
	"github.com/lindb/lindb/kv/version"
	"github.com/lindb/lindb/pkg/timeutil"
	"github.com/lindb/lindb/verif/internal/kvtok"
	"github.com/lindb/lindb/verif/internal/seam"
)

// rollupBase marks run indices of the directed partial-rollup schedules.
const rollupBase = 200000

const (
	srcInterval  = timeutil.Interval(10_000)    // 10s: "day" stores
	fiveMinutes  = timeutil.Interval(300_000)   // 5m: "month" stores
	oneHour      = timeutil.Interval(3_600_000) // 1h: "year" stores
	failableName = "verifTokenUnionFailableC02"
)

// ---- a token-union merger whose rollup merges can be made to fail per target interval ----

var (
	failMu      sync.Mutex
	failRatios  = map[uint16]bool{} // target/source interval ratios whose rollup merges fail
	failedMerge = map[uint16]int{}  // how many merges were failed, per ratio
)

func setRollupFails(iv timeutil.Interval, fail bool) {
	failMu.Lock()
	if fail {
		failRatios[uint16(iv/srcInterval)] = true
	} else {
		delete(failRatios, uint16(iv/srcInterval))
	}
	failMu.Unlock()
}

func failedMerges() int {
	failMu.Lock()
	defer failMu.Unlock()
	n := 0
	for _, c := range failedMerge {
		n += c
	}
	return n
}

type failableMerger struct {
	flusher kv.Flusher
	ratio   uint16 // != 0: this merger works for a rollup job with this interval ratio
}

func (m *failableMerger) Init(params map[string]interface{}) {
	if r, ok := params[kv.RollupContext].(kv.Rollup); ok && r != nil {
		m.ratio = r.IntervalRatio()
	}
}

func (m *failableMerger) Merge(key uint32, values [][]byte) error {
	if m.ratio != 0 {
		failMu.Lock()
		fail := failRatios[m.ratio]
		if fail {
			failedMerge[m.ratio]++
		}
		failMu.Unlock()
		if fail {
			return fmt.Errorf("harness: rollup merge for interval ratio %d fails on purpose", m.ratio)
		}
	}
	set := map[uint32]struct{}{}
	pad := 0
	for _, v := range values {
		ts, err := kvtok.Decode(v)
		if err != nil {
			return fmt.Errorf("merge key %d: %w", key, err)
		}
		for _, t := range ts {
			set[t] = struct{}{}
		}
		if p := len(v) - 4 - 4*len(ts); p > pad {
			pad = p
		}
	}
	ts := make([]uint32, 0, len(set))
	for t := range set {
		ts = append(ts, t)
	}
	return m.flusher.Add(key, kvtok.Encode(ts, pad))
}

func init() {
	kv.RegisterMerger(failableName, func(flusher kv.Flusher) (kv.Merger, error) {
		return &failableMerger{flusher: flusher}, nil
	})
}

// ---- where the stores of one source family and its rollup targets live ----

type familyDate struct{ year, month, day, hour int }

var familyDates = []familyDate{{2019, 7, 4, 10}, {2021, 12, 31, 23}, {2020, 2, 29, 0}, {2023, 1, 1, 5}}

type targetRef struct {
	interval  timeutil.Interval
	storeName string
	famName   string
	opt       kv.StoreOption
	mu        sync.Mutex
	store     kv.Store // nil while the target store is not open
}

func (t *targetRef) get() kv.Store {
	t.mu.Lock()
	defer t.mu.Unlock()
	return t.store
}

func (t *targetRef) set(s kv.Store) {
	t.mu.Lock()
	t.store = s
	t.mu.Unlock()
}

// open opens (creates) the target store of the interval.
func (t *targetRef) open() error {
	st, err := kv.GetStoreManager().CreateStore(t.storeName, t.opt)
	if err != nil {
		return err
	}
	t.set(st)
	return nil
}

func (t *targetRef) close() {
	if t.get() == nil {
		return
	}
	t.set(nil)
	_ = kv.GetStoreManager().CloseStore(t.storeName)
}

type rollupWorld struct {
	srcName, srcFamName string
	srcFamDir           string
	targets             map[timeutil.Interval]*targetRef
}

// newRollupWorld lays the stores out the way lindb's shards do: <root>/shard/<interval type>/<segment>/<family>.
// The names follow the calendar (day store yyyymmdd / family = hour, month store yyyymm / family = day of month,
// year store yyyy / family = month); lindb derives the same names from the source store's name in family.rollup().
func newRollupWorld(root string, d familyDate, levels int, ttl time.Duration) *rollupWorld {
	base := filepath.Join(root, "shard")
	w := &rollupWorld{
		srcName:    filepath.Join(base, "day", fmt.Sprintf("%04d%02d%02d", d.year, d.month, d.day)),
		srcFamName: strconv.Itoa(d.hour),
		targets:    map[timeutil.Interval]*targetRef{},
	}
	w.srcFamDir = filepath.Join(w.srcName, w.srcFamName)
	mk := func(iv timeutil.Interval, storeName, famName string) {
		opt := kv.DefaultStoreOption()
		opt.Levels = levels
		opt.TTL = ltoml.Duration(ttl)
		opt.Source = iv
		w.targets[iv] = &targetRef{interval: iv, storeName: storeName, famName: famName, opt: opt}
	}
	mk(fiveMinutes, filepath.Join(base, "month", fmt.Sprintf("%04d%02d", d.year, d.month)), strconv.Itoa(d.day))
	mk(oneHour, filepath.Join(base, "year", fmt.Sprintf("%04d", d.year)), strconv.Itoa(d.month))
	return w
}

// ---- the ledger of rollups that have not completed ----

type ledgerFile struct {
	number table.FileNumber
	toks   map[uint32][]uint32        // key -> tokens flushed into this table
	done   map[timeutil.Interval]bool // intervals whose target family was seen to hold all of them (sticky)
}

type rollupLedger struct {
	mu      sync.Mutex
	order   []timeutil.Interval // the store's rollup target intervals, in configuration order
	files   map[table.FileNumber]*ledgerFile
	targets map[timeutil.Interval]*targetRef
}

func newRollupLedger(order []timeutil.Interval, targets map[timeutil.Interval]*targetRef) *rollupLedger {
	return &rollupLedger{order: order, files: map[table.FileNumber]*ledgerFile{}, targets: targets}
}

func (l *rollupLedger) register(fn table.FileNumber, toks map[uint32][]uint32) {
	l.mu.Lock()
	l.files[fn] = &ledgerFile{number: fn, toks: toks, done: map[timeutil.Interval]bool{}}
	l.mu.Unlock()
}

// targetHolds reports whether the target family of the interval shows every token of the table.
func (l *rollupLedger) targetHolds(iv timeutil.Interval, lf *ledgerFile) bool {
	ref := l.targets[iv]
	if ref == nil {
		return false
	}
	st := ref.get()
	if st == nil {
		return false
	}
	fam := st.GetFamily(ref.famName)
	if fam == nil {
		return false
	}
	snap := fam.GetSnapshot()
	defer snap.Close()
	for key, want := range lf.toks {
		have := map[uint32]bool{}
		err := snap.Load(key, func(value []byte) error {
			ts, err := kvtok.Decode(value)
			for _, t := range ts {
				have[t] = true
			}
			return err
		})
		if err != nil {
			return false
		}
		for _, t := range want {
			if !have[t] {
				return false
			}
		}
	}
	return true
}

// pending returns the intervals (in configuration order) whose rollup of the table has not completed, and the ones
// that have. known=false: the table is not a flush output the ledger knows.
func (l *rollupLedger) pending(fn table.FileNumber) (pend, done []timeutil.Interval, known bool) {
	l.mu.Lock()
	defer l.mu.Unlock()
	lf, ok := l.files[fn]
	if !ok {
		return nil, nil, false
	}
	for _, iv := range l.order {
		if !lf.done[iv] && l.targetHolds(iv, lf) {
			lf.done[iv] = true
		}
		if lf.done[iv] {
			done = append(done, iv)
		} else {
			pend = append(pend, iv)
		}
	}
	return pend, done, true
}

func (l *rollupLedger) numbers() []table.FileNumber {
	l.mu.Lock()
	defer l.mu.Unlock()
	var out []table.FileNumber
	for fn := range l.files {
		out = append(out, fn)
	}
	sort.Slice(out, func(i, j int) bool { return out[i] < out[j] })
	return out
}

func (l *rollupLedger) tokens(fn table.FileNumber) map[uint32][]uint32 {
	l.mu.Lock()
	defer l.mu.Unlock()
	if lf := l.files[fn]; lf != nil {
		return lf.toks
	}
	return nil
}

func ivNames(ivs []timeutil.Interval) []string {
	var out []string
	for _, iv := range ivs {
		out = append(out, iv.String())
	}
	return out
}

func hasInterval(ivs []timeutil.Interval, iv timeutil.Interval) bool {
	for _, x := range ivs {
		if x == iv {
			return true
		}
	}
	return false
}

// ---- monitor: the delete seam and the cross-check against lindb's own marks ----

// ledgerBeforeRemove is called from the delete seam for a table of the source family.
func (m *monitor) ledgerBeforeRemove(name string) {
	desc := version.ParseFileName(name)
	if desc == nil {
		return
	}
	pend, done, known := m.ledger.pending(desc.FileNumber)
	if !known {
		return
	}
	m.count("rollup.ledger_tables_deleted", 1)
	if len(pend) == 0 {
		m.count("rollup.ledger_tables_deleted_after_their_last_rollup_completed", 1)
		return
	}
	// what does lindb itself say at this moment?
	m.mu.Lock()
	fam := m.family
	m.mu.Unlock()
	if fam == nil {
		// the store is being opened: its start-up clean-up decides on the recovered marks
		m.violate("C02/table-deleted-at-store-open-while-unfinished-rollup-needs-it",
			"table %s is deleted by the clean-up of the store being opened; rollups completed for %v, not completed for %v (no target family holds its tokens)",
			name, ivNames(done), ivNames(pend))
		return
	}
	snap := fam.GetSnapshot()
	live := snap.GetCurrent().GetFamilyVersion().GetLiveRollupFiles()
	snap.Close()
	stillMarked := false
	for _, iv := range pend {
		if hasInterval(live[desc.FileNumber], iv) {
			stillMarked = true
		}
	}
	if stillMarked {
		m.violate("C02/table-deleted-while-pending-rollup-needs-it",
			"table %s is being deleted although it is still marked for rollup to %v (live marks %v)", name, ivNames(pend), ivNames(live[desc.FileNumber]))
		return
	}
	m.violate("C02/table-deleted-after-pending-rollup-mark-lost",
		"table %s is being deleted: its rollup completed for %v only, the rollup to %v never ran (no target family holds its tokens) "+
			"but lindb's live rollup marks for it are %v", name, ivNames(done), ivNames(pend), ivNames(live[desc.FileNumber]))
}

// crossCheckMarks compares lindb's live rollup marks with the ledger. Sound while jobs run: the tables are taken from
// the ledger first (they were committed, with their marks, before they got there), the marks are read next and the
// ledger is evaluated last, so a pair that is still pending then was pending - and had to be marked - when the marks
// were read.
func (m *monitor) crossCheckMarks(fam kv.Family, stage string) {
	numbers := m.ledger.numbers()
	snap := fam.GetSnapshot()
	live := snap.GetCurrent().GetFamilyVersion().GetLiveRollupFiles()
	current := snap.GetCurrent().GetRollupFiles()
	snap.Close()
	for _, fn := range numbers {
		pend, done, _ := m.ledger.pending(fn)
		if len(pend) > 0 && len(done) > 0 {
			m.count("rollup.cross_checks_of_a_partly_rolled_table", 1)
		}
		for _, iv := range pend {
			m.count("rollup.cross_checks_of_a_pending_pair", 1)
			if !hasInterval(live[fn], iv) || !hasInterval(current[fn], iv) {
				m.violate("C02/rollup-mark-lost-before-rollup-completed",
					"%s: table %d: rollup completed for %v, not for %v, but the marks are live=%v current=%v: the mark of %v is gone although no target family holds the table's tokens",
					stage, fn, ivNames(done), ivNames(pend), ivNames(live[fn]), ivNames(current[fn]), iv)
			}
		}
	}
}

// checkPendingTablesReadable: every table an unfinished rollup still needs must be on disk and must give, by file
// number (the way doRollupWork reads it once it left the version), exactly what was flushed into it.
func (m *monitor) checkPendingTablesReadable(fam kv.Family, stage string) {
	snap := fam.GetSnapshot()
	defer snap.Close()
	inVersion := map[table.FileNumber]bool{}
	for _, fm := range snap.GetCurrent().GetAllFiles() {
		inVersion[fm.GetFileNumber()] = true
	}
	for _, fn := range m.ledger.numbers() {
		pend, done, _ := m.ledger.pending(fn)
		if len(pend) == 0 {
			continue
		}
		path := filepath.Join(m.famDir, version.Table(fn))
		if _, err := os.Stat(path); err != nil {
			m.violate("C02/table-of-unfinished-rollup-missing", "%s: table %d (rollup completed for %v, pending for %v) is gone: %v", stage, fn, ivNames(done), ivNames(pend), err)
			continue
		}
		if !inVersion[fn] {
			m.count("rollup.pending_tables_outside_the_current_version_found_on_disk", 1)
		}
		rd, err := snap.GetReader(fn)
		if err != nil {
			m.violate("C02/table-of-unfinished-rollup-unreadable", "%s: table %d (pending for %v): GetReader: %v", stage, fn, ivNames(pend), err)
			continue
		}
		for key, want := range m.ledger.tokens(fn) {
			v, err := rd.Get(key)
			var got []uint32
			if err == nil {
				got, err = kvtok.Decode(v)
			}
			if err != nil || fmt.Sprint(got) != fmt.Sprint(want) {
				m.violate("C02/table-of-unfinished-rollup-unreadable", "%s: table %d key %d: read %v (err %v), flushed %v", stage, fn, key, got, err, want)
			}
		}
		m.count("rollup.pending_tables_read_by_file_number", 1)
	}
}

// ---- schedule control (never a verdict) ----

// quiesce waits for the family's background jobs and for their running flags to drop.
func quiesce(fam kv.Family) bool {
	deadline := time.Now().Add(30 * time.Second)
	for {
		kv.VerifFamilyWait(fam)
		if !kv.VerifFamilyBusy(fam) {
			return true
		}
		if time.Now().After(deadline) {
			return false
		}
		time.Sleep(50 * time.Microsecond)
	}
}

type rollupCase struct {
	Order        []string // configuration order of the target intervals
	DoneFirst    string   // the interval whose rollup completes in the partial job
	Cause        string   // why the other one stays pending: "target-store-absent" | "rollup-work-fails"
	FilesBefore  int
	KeysPerFile  int
	FlushesAfter int
	Levels       int
	TTLms        int
	MaxFileSize  uint32
	RollupBy     string // "force" | "family" | "tick"
	CompactBy    string // "compact" | "job" | "tick"
	Warmup       bool   // a rollup job in which no interval can complete comes first
	SecondJob    bool   // a second partial job after the later flushes (the new tables get partly rolled up too)
	Reopen       bool   // all stores are closed and opened again between the partial job and the compaction
	Reader       bool   // a reader opens and closes snapshots while the compaction and the clean-ups run
	SecondRound  bool   // flush + compaction + clean-up once more before the pending rollup completes
	Date         familyDate
}

// runDirectedRollup: flush, partial rollup job, flushes, level-0 compaction, clean-ups with no snapshot open, then the
// pending rollup completes and must still find the tables.
func runDirectedRollup(k int, dir string, seed int64) {
	rnd := rand.New(rand.NewSource(int64(mix64(uint64(seed)*48271 + uint64(k)*1009 + 17))))
	shape := (k + k/8) % 8 // 8 shapes; the shift keeps a shape from always landing on the -race half of the runs
	order := []timeutil.Interval{fiveMinutes, oneHour}
	if shape%2 == 1 {
		order = []timeutil.Interval{oneHour, fiveMinutes}
	}
	// which interval completes first: the later-listed one (k/2 even) or the earlier-listed one
	doneFirst, pendingFirst := order[1], order[0]
	if (shape/2)%2 == 1 {
		doneFirst, pendingFirst = order[0], order[1]
	}
	rc := rollupCase{
		Order: ivNames(order), DoneFirst: doneFirst.String(),
		Cause:       []string{"target-store-absent", "rollup-work-fails"}[(shape/4)%2],
		FilesBefore: 1 + rnd.Intn(3), KeysPerFile: 1 + rnd.Intn(3), FlushesAfter: 1 + rnd.Intn(3),
		Levels: 2 + rnd.Intn(2), TTLms: []int{0, 1, 3600_000}[rnd.Intn(3)], MaxFileSize: []uint32{0, 60, 300}[rnd.Intn(3)],
		RollupBy: []string{"force", "family", "tick"}[rnd.Intn(3)], CompactBy: []string{"compact", "job", "tick"}[rnd.Intn(3)],
		Warmup: rnd.Intn(3) == 0, SecondJob: rnd.Intn(2) == 0, Reopen: rnd.Intn(4) == 0, Reader: rnd.Intn(3) == 0,
		SecondRound: rnd.Intn(3) == 0, Date: familyDates[rnd.Intn(len(familyDates))],
	}
	res := &runResult{Run: rollupBase + k, Config: fmt.Sprintf("directed-partial-rollup%+v", rc), Counters: map[string]int{}}
	world := newRollupWorld(dir, rc.Date, rc.Levels, time.Duration(rc.TTLms)*time.Millisecond)
	ledger := newRollupLedger(order, world.targets)
	mon := &monitor{snapFiles: map[int]map[string]bool{}, readerHeld: map[string]int{}, counters: map[string]int{}, ledger: ledger}
	mon.famDir = world.srcFamDir
	seam.NoFsync = true
	seam.InstallKV(seam.Direct{}, &seam.Observer{
		BeforeRemoveDir: func(p string) { mon.beforeRemoveDir(p) },
		BeforeUnmap:     func(p string) { mon.beforeUnmap(p) },
	})

	srcOpt := kv.DefaultStoreOption()
	srcOpt.Levels = rc.Levels
	srcOpt.TTL = ltoml.Duration(time.Duration(rc.TTLms) * time.Millisecond)
	srcOpt.Source = srcInterval
	srcOpt.Rollup = order
	famOpt := kv.FamilyOption{Merger: failableName, CompactThreshold: 2, MaxFileSize: rc.MaxFileSize}
	if rc.RollupBy == "tick" {
		famOpt.RollupThreshold = 1
	} else {
		famOpt.RollupThreshold = 1 << 30 // the store tick never starts a rollup job by itself
	}
	var store kv.Store
	var fam kv.Family
	openSource := func() {
		var err error
		store, err = kv.GetStoreManager().CreateStore(world.srcName, srcOpt)
		if err != nil {
			fatal(dir, res, "create source store: %v", err)
		}
		fam, err = store.CreateFamily(world.srcFamName, famOpt)
		if err != nil {
			fatal(dir, res, "create source family: %v", err)
		}
		mon.mu.Lock()
		mon.family = fam
		mon.mu.Unlock()
	}
	openSource()
	// which targets are available for the partial job
	absent := rc.Cause == "target-store-absent"
	if err := world.targets[doneFirst].open(); err != nil {
		fatal(dir, res, "create target store: %v", err)
	}
	if !absent {
		if err := world.targets[pendingFirst].open(); err != nil {
			fatal(dir, res, "create target store: %v", err)
		}
		setRollupFails(pendingFirst, true)
	}

	keys := []uint32{1, 7, 300, 65535, 65536}
	tok := uint32(0)
	committed := map[uint32]uint32{} // token -> key
	level0 := func() map[table.FileNumber]bool {
		snap := fam.GetSnapshot()
		defer snap.Close()
		out := map[table.FileNumber]bool{}
		for _, fm := range snap.GetCurrent().GetFiles(0) {
			out[fm.GetFileNumber()] = true
		}
		return out
	}
	flushFile := func() {
		before := level0()
		toks := map[uint32][]uint32{}
		fl := fam.NewFlusher()
		var err error
		start := rnd.Intn(len(keys))
		var ks []uint32
		for i := 0; i < rc.KeysPerFile; i++ {
			ks = append(ks, keys[(start+i)%len(keys)])
		}
		sort.Slice(ks, func(i, j int) bool { return ks[i] < ks[j] })
		for _, key := range ks {
			tok++
			toks[key] = []uint32{tok}
			committed[tok] = key
			if err = fl.Add(key, kvtok.Encode([]uint32{tok}, int(tok%3)*16)); err != nil {
				break
			}
		}
		if err == nil {
			err = fl.Commit()
		}
		fl.Release()
		if err != nil {
			mon.violate("C02/flush-fails", "partial rollup: flush failed: %v", err)
			return
		}
		var created []table.FileNumber
		for fn := range level0() {
			if !before[fn] {
				created = append(created, fn)
			}
		}
		if len(created) != 1 {
			mon.count("rollup.flushes_whose_table_could_not_be_identified", 1)
			return
		}
		ledger.register(created[0], toks)
		mon.count("rollup.flushed_tables_in_the_ledger", 1)
	}
	startRollup := func(by string) {
		switch by {
		case "force":
			store.ForceRollup()
		case "family":
			kv.VerifFamilyRollup(fam)
		default:
			kv.VerifStoreCompact(store) // needRollup: the family's rollup threshold is 1
		}
		if !quiesce(fam) {
			fatal(dir, res, "rollup job never finished")
		}
		mon.count("rollup.jobs_run_to_quiescence", 1)
	}
	// classify counts, per ledger table, how far its rollups got
	classify := func() (partial int) {
		for _, fn := range ledger.numbers() {
			pend, done, _ := ledger.pending(fn)
			if len(pend) == 0 || len(done) == 0 {
				continue
			}
			partial++
			// position of the completed interval relative to a pending one in the configuration order
			for _, p := range pend {
				for _, d := range done {
					pi, di := 0, 0
					for i, iv := range order {
						if iv == p {
							pi = i
						}
						if iv == d {
							di = i
						}
					}
					if di > pi {
						mon.count("rollup.partly_rolled_tables.later_listed_interval_done_earlier_listed_pending", 1)
					} else {
						mon.count("rollup.partly_rolled_tables.earlier_listed_interval_done_later_listed_pending", 1)
					}
				}
			}
			mon.count("rollup.partly_rolled_tables.because_"+rc.Cause, 1)
		}
		return partial
	}

	for i := 0; i < rc.FilesBefore; i++ {
		flushFile()
	}
	mon.crossCheckMarks(fam, "after the first flushes")
	if rc.Warmup {
		// a job in which nothing can complete: the completing target is taken away for one job
		if absent {
			world.targets[doneFirst].close()
		} else {
			setRollupFails(doneFirst, true)
		}
		startRollup(rc.RollupBy)
		mon.crossCheckMarks(fam, "after a rollup job in which no interval could complete")
		if absent {
			if err := world.targets[doneFirst].open(); err != nil {
				fatal(dir, res, "reopen target store: %v", err)
			}
		} else {
			setRollupFails(doneFirst, false)
		}
	}
	// the partial job
	startRollup(rc.RollupBy)
	partial := classify()
	mon.count("rollup.partial_jobs", 1)
	mon.crossCheckMarks(fam, "after the partial rollup job")
	mon.checkPendingTablesReadable(fam, "after the partial rollup job")

	if rc.Reopen {
		mon.mu.Lock()
		mon.family = nil
		mon.mu.Unlock()
		_ = kv.GetStoreManager().CloseStore(world.srcName)
		var open []timeutil.Interval
		for iv, t := range world.targets {
			if t.get() != nil {
				open = append(open, iv)
				t.close()
			}
		}
		for _, iv := range open {
			if err := world.targets[iv].open(); err != nil {
				fatal(dir, res, "reopen target store: %v", err)
			}
		}
		openSource() // runs the start-up clean-up on the recovered marks
		mon.count("rollup.reopens_with_a_partly_rolled_table", 1)
		mon.crossCheckMarks(fam, "after reopening the stores")
	}

	for i := 0; i < rc.FlushesAfter; i++ {
		flushFile()
	}
	if rc.SecondJob {
		startRollup(rc.RollupBy)
		classify()
		mon.count("rollup.partial_jobs", 1)
		mon.crossCheckMarks(fam, "after the second partial rollup job")
	}

	// a reader that comes and goes while the compaction and the clean-ups run; every snapshot is closed before the
	// last clean-ups
	stopReader := make(chan struct{})
	readerDone := make(chan struct{})
	if rc.Reader {
		go func() {
			defer close(readerDone)
			id := 0
			for {
				select {
				case <-stopReader:
					return
				default:
				}
				id++
				snap := fam.GetSnapshot()
				files := map[string]bool{}
				for _, fm := range snap.GetCurrent().GetAllFiles() {
					files[version.Table(fm.GetFileNumber())] = true
				}
				mon.mu.Lock()
				mon.snapFiles[id] = files
				mon.mu.Unlock()
				for _, key := range keys {
					if err := snap.Load(key, func(v []byte) error { _, err := kvtok.Decode(v); return err }); err != nil {
						mon.violate("C02/snapshot-read-error", "partial rollup: reader snapshot %d Load(%d): %v", id, key, err)
					}
				}
				mon.mu.Lock()
				delete(mon.snapFiles, id)
				mon.mu.Unlock()
				snap.Close()
				mon.count("snapshots", 1)
			}
		}()
	} else {
		close(readerDone)
	}

	compactAndClean := func(stage string) {
		pendingBefore := map[table.FileNumber]bool{}
		for _, fn := range ledger.numbers() {
			if pend, _, _ := ledger.pending(fn); len(pend) > 0 {
				pendingBefore[fn] = true
			}
		}
		switch rc.CompactBy {
		case "compact":
			fam.Compact()
		case "job":
			kv.VerifFamilyCompact(fam)
		default:
			kv.VerifStoreCompact(store)
		}
		if !quiesce(fam) {
			fatal(dir, res, "compaction job never finished")
		}
		snap := fam.GetSnapshot()
		inVersion := map[table.FileNumber]bool{}
		for _, fm := range snap.GetCurrent().GetAllFiles() {
			inVersion[fm.GetFileNumber()] = true
		}
		snap.Close()
		for fn := range pendingBefore {
			if !inVersion[fn] {
				mon.count("rollup.pending_tables_taken_out_of_the_version_by_a_compaction", 1)
			}
		}
	}
	cleanups := func(stage string) {
		kv.VerifFamilyDeleteObsoleteFiles(fam)
		kv.VerifStoreCompact(store) // reader cache clean-up (and, if the thresholds say so, further jobs)
		if !quiesce(fam) {
			fatal(dir, res, "background job never finished")
		}
		kv.VerifFamilyDeleteObsoleteFiles(fam)
		mon.count("rollup.cleanups_after_a_compaction", 2)
		// how many tables that pending rollups need are outside every version now (only the marks keep them)
		snap := fam.GetSnapshot()
		inVersion := map[table.FileNumber]bool{}
		for _, fm := range snap.GetCurrent().GetFamilyVersion().GetAllActiveFiles() {
			inVersion[fm.GetFileNumber()] = true
		}
		snap.Close()
		for _, fn := range ledger.numbers() {
			if pend, done, _ := ledger.pending(fn); len(pend) > 0 && !inVersion[fn] {
				mon.count("rollup.cleanups_survived_by_a_pending_table_outside_every_version", 1)
				if len(done) > 0 {
					mon.count("rollup.cleanups_survived_by_a_partly_rolled_table_outside_every_version", 1)
				}
			}
		}
		mon.crossCheckMarks(fam, stage)
		mon.checkPendingTablesReadable(fam, stage)
	}

	compactAndClean("after the level-0 compaction")
	if rc.Reader {
		close(stopReader)
	}
	<-readerDone
	cleanups("after the level-0 compaction and the clean-ups")
	if rc.SecondRound {
		flushFile()
		flushFile()
		compactAndClean("after the second compaction")
		cleanups("after the second compaction and the clean-ups")
	}

	// the pending rollup completes now
	if absent {
		if err := world.targets[pendingFirst].open(); err != nil {
			fatal(dir, res, "create the pending target store: %v", err)
		}
	} else {
		setRollupFails(pendingFirst, false)
	}
	for round := 0; round < 2; round++ {
		store.ForceRollup()
		if !quiesce(fam) {
			fatal(dir, res, "rollup job never finished")
		}
	}
	for _, fn := range ledger.numbers() {
		pend, done, _ := ledger.pending(fn)
		if len(pend) > 0 {
			mon.violate("C02/pending-rollup-completes-without-the-table", "table %d: after every target store is open and two more rollup jobs ran, the target families of %v still lack its tokens %v (completed: %v)",
				fn, ivNames(pend), ledger.tokens(fn), ivNames(done))
		} else {
			mon.count("rollup.tables_rolled_up_to_every_interval_at_the_end", 1)
		}
	}
	kv.VerifFamilyDeleteObsoleteFiles(fam)
	// the source family still shows every token
	final := fam.GetSnapshot()
	got := map[uint32]bool{}
	for _, key := range keys {
		err := final.Load(key, func(v []byte) error {
			ts, err := kvtok.Decode(v)
			for _, t := range ts {
				got[t] = true
				if committed[t] != key {
					mon.violate("C02/token-under-wrong-key", "partial rollup: token %d found under key %d, flushed under %d", t, key, committed[t])
				}
			}
			return err
		})
		if err != nil {
			mon.violate("C02/snapshot-read-error", "partial rollup: final snapshot Load(%d): %v", key, err)
		}
	}
	for t := range committed {
		if !got[t] {
			mon.violate("C02/committed-token-missing-at-end", "partial rollup: token %d committed but not visible in the final snapshot", t)
		}
	}
	final.Close()
	mon.mu.Lock()
	mon.family = nil
	mon.mu.Unlock()
	_ = kv.GetStoreManager().CloseStore(world.srcName)
	for _, t := range world.targets {
		t.close()
	}
	seam.Restore()
	mon.count("rollup.merges_failed_on_purpose", failedMerges())
	res.Counters = mon.counters
	res.Violations = mon.violations
	res.Porcupine = "n/a"
	res.Nontrivial = partial > 0 && mon.counters["rollup.pending_tables_taken_out_of_the_version_by_a_compaction"] > 0 &&
		mon.counters["rollup.cleanups_after_a_compaction"] > 0
	if res.Nontrivial {
		res.Counters["rollup.directed_runs_with_partial_job_then_compaction_then_cleanup"]++
	}
	res.Sample = map[string]interface{}{"run": res.Run, "config": res.Config, "counters": mon.counters}
	writeResult(dir, res)
}
