package main

import (
	"fmt"
	"math/rand"
	"os"
	"path/filepath"
	"runtime/debug"
	"sort"
	"strings"
	"sync/atomic"
	"time"

	"github.com/lindb/common/pkg/ltoml"
	"github.com/lindb/lindb/kv"
	"github.com/lindb/lindb/kv/table"
	"github.com/lindb/lindb/kv/version"
	"github.com/lindb/lindb/pkg/timeutil"

	"github.com/lindb/lindb/verif/internal/kvtok"
	"github.com/lindb/lindb/verif/internal/seam"
)

// directedBase marks run indices of directed schedules.
const directedBase = 100000

// runDirected drives one deterministic schedule around the release of a snapshot:
//
//	S1 = snapshot of the current version V; S1.Close() is parked after the reference count dropped to zero and
//	before V is removed from the active versions; S2 = snapshot (V is still current, so S2 retains V);
//	flushes and a compaction install newer versions that no longer name V's tables; the parked release resumes;
//	the obsolete file cleanup runs. S2 must keep reading exactly what it read first and none of V's tables may be
//	deleted before S2 is closed.
func runDirected(k int, dir string, seed int64) {
	if k%3 == 2 {
		runDirectedLateRetain(k, dir, seed)
		return
	}
	if k%3 == 1 {
		runDirectedReaderAccounting(k, dir, seed)
		return
	}
	rnd := rand.New(rand.NewSource(seed*92821 + int64(k)*577 + 11))
	tables := 2 + rnd.Intn(4)      // tables of V
	moreFlushes := 1 + rnd.Intn(3) // flushes between S2 and the compaction
	rollup := rnd.Intn(6) == 0
	closers := 1 + k%3 // snapshots of V whose Close is parked (the last one to decrement reaches the gate)
	res := &runResult{Run: directedBase + k, Config: fmt.Sprintf("directed{tables:%d flushes:%d rollup:%v closers:%d}", tables, moreFlushes, rollup, closers), Counters: map[string]int{}}
	mon := &monitor{snapFiles: map[int]map[string]bool{}, readerHeld: map[string]int{}, counters: map[string]int{}, rollupOn: false}
	storeDir := filepath.Join(dir, "store")
	mon.famDir = filepath.Join(storeDir, "f")
	seam.NoFsync = true
	seam.InstallKV(seam.Direct{}, &seam.Observer{
		BeforeRemoveDir: func(p string) { mon.beforeRemoveDir(p) },
		BeforeUnmap:     func(p string) { mon.beforeUnmap(p) },
	})
	opt := kv.DefaultStoreOption()
	opt.Levels = 2
	opt.TTL = ltoml.Duration(0)
	opt.Source = timeutil.Interval(10_000)
	if rollup {
		opt.Rollup = []timeutil.Interval{timeutil.Interval(300_000)}
	}
	store, err := kv.GetStoreManager().CreateStore(storeDir, opt)
	if err != nil {
		fatal(dir, res, "create store: %v", err)
	}
	fam, err := store.CreateFamily("f", kv.FamilyOption{Merger: kvtok.MergerName, CompactThreshold: 2})
	if err != nil {
		fatal(dir, res, "create family: %v", err)
	}
	mon.family = fam

	var armed bool
	var target int64
	parked := make(chan struct{})
	resume := make(chan struct{})
	{
		snap0 := fam.GetSnapshot()
		version.VerifGateRemoveVersion(snap0.GetCurrent().GetFamilyVersion(), func(v version.Version) {
			if armed && v.ID() == target {
				armed = false // only the goroutine that dropped the count to zero passes here, once
				close(parked)
				<-resume
			}
		})
		snap0.Close()
	}
	keys := []uint32{1, 7, 65535, 65536}
	tok := uint32(0)
	flush := func() {
		tok++
		fl := fam.NewFlusher()
		err := fl.Add(keys[int(tok)%len(keys)], kvtok.Encode([]uint32{tok}, int(tok%3)*16))
		if err == nil {
			err = fl.Commit()
		}
		fl.Release()
		if err != nil {
			mon.violate("C02/flush-fails", "flush of token %d failed: %v", tok, err)
		}
	}
	readAll := func(snap version.Snapshot) (string, error) {
		var all []int
		for _, key := range keys {
			err := snap.Load(key, func(value []byte) error {
				ts, err := kvtok.Decode(value)
				for _, t := range ts {
					all = append(all, int(t))
				}
				return err
			})
			if err != nil {
				return "", fmt.Errorf("Load(%d): %w", key, err)
			}
		}
		sort.Ints(all)
		return fmt.Sprint(all), nil
	}
	for i := 0; i < tables; i++ {
		flush()
	}
	// snapshots of V that are going to be closed; the last Close reaches the gate
	var early []version.Snapshot
	for i := 0; i < closers; i++ {
		early = append(early, fam.GetSnapshot())
	}
	target = early[0].GetCurrent().ID()
	armed = true
	closed := make(chan struct{})
	go func() {
		for _, s := range early {
			s.Close()
		}
		close(closed)
	}()
	select {
	case <-parked:
		mon.count("directed.release_parked_before_removal", 1)
	case <-closed:
		// the current version is not removed through this path in this tree: nothing to decide
		mon.count("directed.release_never_reached_the_gate", 1)
	case <-time.After(20 * time.Second):
		fatal(dir, res, "the parked release was never reached")
	}
	s2 := fam.GetSnapshot()
	id := 1
	files := map[string]bool{}
	for _, fm := range s2.GetCurrent().GetAllFiles() {
		files[version.Table(fm.GetFileNumber())] = true
	}
	sameVersion := s2.GetCurrent().ID() == target
	mon.mu.Lock()
	mon.snapFiles[id] = files
	mon.mu.Unlock()
	first, err := readAll(s2)
	if err != nil {
		mon.violate("C02/snapshot-read-error", "directed: first read of the held snapshot: %v", err)
	}
	for i := 0; i < moreFlushes; i++ {
		flush()
	}
	kv.VerifFamilyCompact(fam)
	kv.VerifFamilyWait(fam)
	now := fam.GetSnapshot()
	replaced := false
	nowFiles := map[string]bool{}
	for _, fm := range now.GetCurrent().GetAllFiles() {
		nowFiles[version.Table(fm.GetFileNumber())] = true
	}
	for f := range files {
		if !nowFiles[f] {
			replaced = true
		}
	}
	now.Close()
	kv.VerifFamilyDeleteObsoleteFiles(fam)
	select {
	case <-closed:
	default:
		close(resume)
		select {
		case <-closed:
		case <-time.After(20 * time.Second):
			fatal(dir, res, "the parked release never finished")
		}
	}
	// the release has finished: the held snapshot still names V's tables
	kv.VerifFamilyDeleteObsoleteFiles(fam)
	kv.VerifStoreCompact(store)
	kv.VerifFamilyWait(fam)
	kv.VerifFamilyDeleteObsoleteFiles(fam)
	for f := range files {
		if _, err := os.Stat(filepath.Join(mon.famDir, f)); err != nil {
			mon.violate("C02/table-of-open-snapshot-missing", "directed: table %s named by the held snapshot is gone: %v", f, err)
		}
	}
	second, err := readAll(s2)
	if err != nil {
		mon.violate("C02/snapshot-read-error", "directed: second read of the held snapshot (files %v): %v", keysOf(files), err)
	} else if first != second {
		mon.violate("C02/snapshot-content-changed", "directed: held snapshot read %s first and %s later", first, second)
	}
	for _, key := range keys {
		if _, err := s2.FindReaders(key); err != nil {
			mon.violate("C02/snapshot-read-error", "directed: FindReaders(%d) of the held snapshot: %v", key, err)
		}
	}
	mon.mu.Lock()
	delete(mon.snapFiles, id)
	mon.mu.Unlock()
	s2.Close()
	// now V is unreferenced: its tables must go away (no leak) and the newest snapshot sees every token
	kv.VerifFamilyDeleteObsoleteFiles(fam)
	final := fam.GetSnapshot()
	all, err := readAll(final)
	if err != nil {
		mon.violate("C02/snapshot-read-error", "directed: final snapshot: %v", err)
	} else {
		var want []int
		for t := 1; t <= int(tok); t++ {
			want = append(want, t)
		}
		if all != fmt.Sprint(want) {
			mon.violate("C02/committed-token-missing-at-end", "directed: final snapshot shows %s, committed %v", all, want)
		}
	}
	final.Close()
	if replaced && !rollup {
		left := 0
		for f := range files {
			if _, err := os.Stat(filepath.Join(mon.famDir, f)); err == nil && !nowFiles[f] {
				left++
			}
		}
		mon.count("directed.replaced_tables_still_on_disk_after_last_close", left)
	}
	_ = kv.GetStoreManager().CloseStore(storeDir)
	seam.Restore()
	res.Counters = mon.counters
	res.Violations = mon.violations
	res.Porcupine = "n/a"
	res.Nontrivial = mon.counters["directed.release_parked_before_removal"] > 0 && sameVersion && replaced && mon.counters["table_deletes_attempted"] > 0
	if sameVersion {
		res.Counters["directed.snapshot_retained_the_version_being_released"]++
	}
	if replaced {
		res.Counters["directed.compaction_replaced_the_held_tables"]++
	}
	res.Sample = map[string]interface{}{"run": res.Run, "config": res.Config, "counters": mon.counters}
	writeResult(dir, res)
}

// runDirectedLateRetain parks a reader inside GetSnapshot, at the point where the family version asks for the table
// cache (between reading the current version and retaining it), and lets a flush commit run meanwhile. On a tree
// that reads and retains the version in one step under the family version's lock the commit has to wait for the
// reader (the harness gives the reader up after a bounded wait - schedule control, not a verdict); on a tree that
// retains late, the commit completes first, the version the reader is about to retain leaves the active versions and
// a later compaction deletes tables the reader's snapshot names.
func runDirectedLateRetain(k int, dir string, seed int64) {
	rnd := rand.New(rand.NewSource(seed*7151 + int64(k)*313 + 29))
	tables := 2 + rnd.Intn(3)
	res := &runResult{Run: directedBase + k, Config: fmt.Sprintf("directed-late-retain{tables:%d}", tables), Counters: map[string]int{}}
	mon := &monitor{snapFiles: map[int]map[string]bool{}, readerHeld: map[string]int{}, counters: map[string]int{}}
	storeDir := filepath.Join(dir, "store")
	mon.famDir = filepath.Join(storeDir, "f")
	seam.NoFsync = true
	seam.InstallKV(seam.Direct{}, &seam.Observer{
		BeforeRemoveDir: func(p string) { mon.beforeRemoveDir(p) },
		BeforeUnmap:     func(p string) { mon.beforeUnmap(p) },
	})
	opt := kv.DefaultStoreOption()
	opt.Levels = 2
	opt.TTL = ltoml.Duration(0)
	opt.Source = timeutil.Interval(10_000)
	store, err := kv.GetStoreManager().CreateStore(storeDir, opt)
	if err != nil {
		fatal(dir, res, "create store: %v", err)
	}
	fam, err := store.CreateFamily("f", kv.FamilyOption{Merger: kvtok.MergerName, CompactThreshold: 2})
	if err != nil {
		fatal(dir, res, "create family: %v", err)
	}
	mon.family = fam
	var armed atomic.Bool
	parked := make(chan struct{}, 1)
	resume := make(chan struct{})
	{
		snap0 := fam.GetSnapshot()
		version.VerifGateGetCache(snap0.GetCurrent().GetFamilyVersion(), func() {
			if armed.CompareAndSwap(true, false) {
				parked <- struct{}{}
				<-resume
			}
		})
		snap0.Close()
	}
	keys := []uint32{1, 7, 65535, 65536}
	tok := uint32(0)
	flush := func() {
		tok++
		fl := fam.NewFlusher()
		err := fl.Add(keys[int(tok)%len(keys)], kvtok.Encode([]uint32{tok}, int(tok%3)*16))
		if err == nil {
			err = fl.Commit()
		}
		fl.Release()
		if err != nil {
			mon.violate("C02/flush-fails", "flush of token %d failed: %v", tok, err)
		}
	}
	readAll := func(snap version.Snapshot) (string, error) {
		var all []int
		for _, key := range keys {
			err := snap.Load(key, func(value []byte) error {
				ts, err := kvtok.Decode(value)
				for _, t := range ts {
					all = append(all, int(t))
				}
				return err
			})
			if err != nil {
				return "", fmt.Errorf("Load(%d): %w", key, err)
			}
		}
		sort.Ints(all)
		return fmt.Sprint(all), nil
	}
	for i := 0; i < tables; i++ {
		flush()
	}
	// the reader
	var snap version.Snapshot
	got := make(chan struct{})
	armed.Store(true)
	go func() {
		snap = fam.GetSnapshot()
		close(got)
	}()
	select {
	case <-parked:
		mon.count("directed.reader_parked_inside_get_snapshot", 1)
	case <-time.After(20 * time.Second):
		fatal(dir, res, "the reader never reached the gate inside GetSnapshot")
	}
	// a commit while the reader is parked
	commitDone := make(chan struct{})
	go func() {
		flush()
		close(commitDone)
	}()
	select {
	case <-commitDone:
		// only possible when GetSnapshot does not hold the family version's lock while it is parked
		mon.count("directed.commit_completed_while_the_reader_was_between_read_and_retain", 1)
	case <-time.After(200 * time.Millisecond):
		mon.count("directed.commit_waited_for_the_reader", 1)
	}
	close(resume)
	<-commitDone
	<-got
	files := map[string]bool{}
	for _, fm := range snap.GetCurrent().GetAllFiles() {
		files[version.Table(fm.GetFileNumber())] = true
	}
	mon.mu.Lock()
	mon.snapFiles[1] = files
	mon.mu.Unlock()
	first, err := readAll(snap)
	if err != nil {
		mon.violate("C02/snapshot-read-error", "directed late retain: first read: %v", err)
	}
	flush()
	kv.VerifFamilyCompact(fam)
	kv.VerifFamilyWait(fam)
	kv.VerifFamilyDeleteObsoleteFiles(fam)
	kv.VerifStoreCompact(store)
	kv.VerifFamilyWait(fam)
	kv.VerifFamilyDeleteObsoleteFiles(fam)
	for f := range files {
		if _, err := os.Stat(filepath.Join(mon.famDir, f)); err != nil {
			mon.violate("C02/table-of-open-snapshot-missing", "directed late retain: table %s named by the open snapshot is gone: %v", f, err)
		}
	}
	second, err := readAll(snap)
	if err != nil {
		mon.violate("C02/snapshot-read-error", "directed late retain: second read (files %v): %v", keysOf(files), err)
	} else if first != second {
		mon.violate("C02/snapshot-content-changed", "directed late retain: %s first and %s later", first, second)
	}
	mon.mu.Lock()
	delete(mon.snapFiles, 1)
	mon.mu.Unlock()
	snap.Close()
	_ = kv.GetStoreManager().CloseStore(storeDir)
	seam.Restore()
	res.Counters = mon.counters
	res.Violations = mon.violations
	res.Porcupine = "n/a"
	res.Nontrivial = mon.counters["directed.reader_parked_inside_get_snapshot"] > 0 && mon.counters["table_deletes_attempted"] > 0
	res.Sample = map[string]interface{}{"run": res.Run, "config": res.Config, "counters": mon.counters}
	writeResult(dir, res)
}

// runDirectedReaderAccounting: the reader cache counts references per table; earlier snapshots that found readers and
// closed must leave the count where it was, so that a later snapshot that holds a reader keeps the table mapped
// through any number of cache cleanup rounds after the cache TTL expired.
func runDirectedReaderAccounting(k int, dir string, seed int64) {
	rnd := rand.New(rand.NewSource(seed*5741 + int64(k)*97 + 3))
	// one earlier snapshot is the sharpest case: a count that goes down twice per close is back at zero exactly
	// when the next snapshot holds its reader (with more earlier snapshots it goes negative and nothing is evicted)
	earlier := 1
	if rnd.Intn(4) == 0 {
		earlier = 2 + rnd.Intn(2)
	}
	overlapping := rnd.Intn(2) == 0
	res := &runResult{Run: directedBase + k, Config: fmt.Sprintf("directed-reader-accounting{earlier:%d overlapping:%v}", earlier, overlapping), Counters: map[string]int{}}
	mon := &monitor{snapFiles: map[int]map[string]bool{}, readerHeld: map[string]int{}, counters: map[string]int{}}
	storeDir := filepath.Join(dir, "store")
	mon.famDir = filepath.Join(storeDir, "f")
	seam.NoFsync = true
	seam.InstallKV(seam.Direct{}, &seam.Observer{
		BeforeRemoveDir: func(p string) { mon.beforeRemoveDir(p) },
		BeforeUnmap:     func(p string) { mon.beforeUnmap(p) },
	})
	opt := kv.DefaultStoreOption()
	opt.Levels = 2
	opt.TTL = ltoml.Duration(time.Millisecond)
	opt.Source = timeutil.Interval(10_000)
	store, err := kv.GetStoreManager().CreateStore(storeDir, opt)
	if err != nil {
		fatal(dir, res, "create store: %v", err)
	}
	fam, err := store.CreateFamily("f", kv.FamilyOption{Merger: kvtok.MergerName, CompactThreshold: 1 << 30})
	if err != nil {
		fatal(dir, res, "create family: %v", err)
	}
	mon.family = fam
	keys := []uint32{3, 65536}
	for i, key := range keys {
		fl := fam.NewFlusher()
		err := fl.Add(key, kvtok.Encode([]uint32{uint32(i + 1)}, 8))
		if err == nil {
			err = fl.Commit()
		}
		fl.Release()
		if err != nil {
			fatal(dir, res, "flush: %v", err)
		}
	}
	find := func(snap version.Snapshot) {
		for _, key := range keys {
			if _, err := snap.FindReaders(key); err != nil {
				mon.violate("C02/snapshot-read-error", "directed reader accounting: FindReaders(%d): %v", key, err)
			}
		}
	}
	// the snapshot that is going to hold its readers
	var held version.Snapshot
	if overlapping {
		held = fam.GetSnapshot()
	}
	for i := 0; i < earlier; i++ {
		s := fam.GetSnapshot()
		find(s)
		s.Close()
	}
	if !overlapping {
		held = fam.GetSnapshot()
	}
	type heldReader struct {
		key uint32
		rd  table.Reader
	}
	var hs []heldReader
	for _, key := range keys {
		readers, err := held.FindReaders(key)
		if err != nil {
			mon.violate("C02/snapshot-read-error", "directed reader accounting: FindReaders(%d) of the held snapshot: %v", key, err)
			continue
		}
		for _, rd := range readers {
			mon.mu.Lock()
			mon.readerHeld[rd.FileName()]++
			mon.mu.Unlock()
			hs = append(hs, heldReader{key, rd})
		}
	}
	mon.mu.Lock()
	mon.snapFiles[1] = map[string]bool{}
	mon.mu.Unlock()
	read := func() string {
		var out []string
		for _, h := range hs {
			v, err := h.rd.Get(h.key)
			if err != nil {
				out = append(out, fmt.Sprintf("%d:err(%v)", h.key, err))
				continue
			}
			ts, err := kvtok.Decode(v)
			out = append(out, fmt.Sprintf("%d:%v/%v", h.key, ts, err))
		}
		return strings.Join(out, " ")
	}
	first := read()
	for round := 0; round < 4; round++ {
		time.Sleep(5 * time.Millisecond) // longer than the cache TTL (1ms): only decides whether cleanup may evict
		kv.VerifStoreCompact(store)      // runs the reader cache cleanup
		mon.count("directed.cleanup_rounds_with_a_reader_held", 1)
	}
	func() {
		defer func() {
			if p := recover(); p != nil {
				mon.violate("C02/reader-faults", "directed reader accounting: reading through a held reader after cache cleanup: %v", p)
			}
		}()
		debug.SetPanicOnFault(true)
		if second := read(); second != first {
			mon.violate("C02/held-reader-content-changed", "directed reader accounting: %s then %s", first, second)
		}
	}()
	mon.mu.Lock()
	for _, h := range hs {
		mon.readerHeld[h.rd.FileName()]--
	}
	delete(mon.snapFiles, 1)
	mon.mu.Unlock()
	held.Close()
	_ = kv.GetStoreManager().CloseStore(storeDir)
	seam.Restore()
	res.Counters = mon.counters
	res.Violations = mon.violations
	res.Porcupine = "n/a"
	res.Nontrivial = len(hs) > 0 && mon.counters["directed.cleanup_rounds_with_a_reader_held"] > 0
	res.Sample = map[string]interface{}{"run": res.Run, "config": res.Config, "counters": mon.counters}
	writeResult(dir, res)
}
