package main

import (
	"errors"
	"fmt"
	"math/rand"
	"os"
	"path/filepath"
	"runtime/debug"
	"sort"
	"strings"
	"sync"
	"syscall"
	"time"

	"github.com/lindb/common/pkg/ltoml"
	"github.com/lindb/lindb/kv"
	"github.com/lindb/lindb/kv/table"
	"github.com/lindb/lindb/kv/version"
	"github.com/lindb/lindb/pkg/timeutil"

	"github.com/lindb/lindb/verif/internal/kvtok"
	"github.com/lindb/lindb/verif/internal/seam"
)

// faultBase marks run indices of the directed open-failure schedules (this file).
const faultBase = 300000

// faultPhase is appended to the classes of the seam monitors in these runs.
const faultPhase = "after-failed-reader-lookup"

// mapFault fails the mapping of chosen table files (the kv/table map seam) a bounded number of times: what a reader
// lookup sees when the process is short of address space / file descriptors for a moment.
type mapFault struct {
	mu       sync.Mutex
	target   string // base name of the table whose mapping fails ("" = none)
	left     int    // failures left
	err      error
	injected int
	mapped   map[string]int // successful mappings per table
}

func (f *mapFault) arm(target string, times int, err error) {
	f.mu.Lock()
	f.target, f.left, f.err = target, times, err
	f.mu.Unlock()
}

func (f *mapFault) disarm() {
	f.mu.Lock()
	f.target, f.left = "", 0
	f.mu.Unlock()
}

func (f *mapFault) injectedCount() int {
	f.mu.Lock()
	defer f.mu.Unlock()
	return f.injected
}

// install wraps the map seam that is installed at this moment (call after seam.InstallKV; seam.Restore undoes it).
func (f *mapFault) install() {
	cur := table.VerifGetSeams()
	f.mapped = map[string]int{}
	table.VerifSetSeams(table.VerifSeams{Map: func(file *os.File) ([]byte, error) {
		name := filepath.Base(file.Name())
		f.mu.Lock()
		if f.left > 0 && name == f.target {
			f.left--
			f.injected++
			err := f.err
			f.mu.Unlock()
			return nil, err
		}
		f.mu.Unlock()
		data, err := cur.Map(file)
		if err == nil {
			f.mu.Lock()
			f.mapped[name]++
			f.mu.Unlock()
		}
		return data, err
	}})
}

type faultCfg struct {
	Tables        int    // tables whose key range covers the common key (lookup order = oldest first)
	FailPos       int    // position (lookup order) of the table whose open fails
	Op            string // lookup that meets the failure: find-readers | load | get-reader
	Holders       string // older-version | same-version | later
	HeldPositions []int  // positions of the tables whose readers the earlier holders keep
	Before, After int    // snapshots that hold readers: taken before / after the failed lookups
	FailedLookups int    // snapshots whose lookup fails and which are closed afterwards
	Retry         bool   // the failed snapshot repeats the lookup (fault gone) before it closes
	TTLms         int
	Errno         string
}

// runDirectedMapFault: transient failures of opening (mapping) a table inside a reader lookup while other snapshots
// hold readers of tables of the same lookup, then reader-cache clean-ups after the cache TTL.
//
//	tables T0..Tn-1 all cover key K (each holds one token under K); holders keep readers of some of them
//	(a snapshot of an older version that looked K up, a snapshot of the same version that opened single tables, or
//	a snapshot that looks K up after the failures); F snapshots look K up while the mapping of T[FailPos] fails:
//	the lookup must either fail or be complete; they are closed (normal error handling); the cache TTL passes and
//	the store's periodic tick runs the reader cache clean-up four times.
//
// Oracle: no table is unmapped while a reader of a still-open snapshot is outstanding (unmap seam), the held readers
// and the holders' snapshots keep returning what they returned first, a lookup that meets the failure returns an
// error or the complete content, and lookups after the fault is gone return every committed token.
func runDirectedMapFault(k int, dir string, seed int64) {
	rnd := rand.New(rand.NewSource(int64(mix64(uint64(seed)*40503 + uint64(k)*2654435761 + 17))))
	fc := faultCfg{
		Tables: 2 + rnd.Intn(3),
		Op:     []string{"find-readers", "find-readers", "load", "get-reader"}[k%4],
		// every lookup kind meets every kind of holder within 12 consecutive runs
		Holders: []string{"older-version", "same-version", "later"}[(k/4)%3],
		TTLms:   rnd.Intn(2),
		Retry:   rnd.Intn(3) == 0,
		Errno:   []string{"ENOMEM", "EMFILE", "EAGAIN"}[rnd.Intn(3)],
	}
	errno := map[string]syscall.Errno{"ENOMEM": syscall.ENOMEM, "EMFILE": syscall.EMFILE, "EAGAIN": syscall.EAGAIN}[fc.Errno]
	older := 0 // tables that exist when the older-version holders take their snapshot
	switch fc.Holders {
	case "older-version":
		older = 1 + rnd.Intn(fc.Tables-1)
		fc.FailPos = older + rnd.Intn(fc.Tables-older) // a table nobody has opened yet
		for i := 0; i < older; i++ {
			fc.HeldPositions = append(fc.HeldPositions, i)
		}
		fc.Before, fc.After = 1+rnd.Intn(2), rnd.Intn(2)
	case "same-version":
		fc.FailPos = rnd.Intn(fc.Tables)
		if rnd.Intn(4) != 0 && fc.FailPos == 0 {
			fc.FailPos = 1 + rnd.Intn(fc.Tables-1)
		}
		if fc.FailPos > 0 && rnd.Intn(2) == 0 {
			// the tables the failing lookup passes before it fails
			q := 1 + rnd.Intn(fc.FailPos)
			for i := 0; i < q; i++ {
				fc.HeldPositions = append(fc.HeldPositions, i)
			}
		} else {
			for i := 0; i < fc.Tables; i++ {
				if i != fc.FailPos && rnd.Intn(2) == 0 {
					fc.HeldPositions = append(fc.HeldPositions, i)
				}
			}
			if len(fc.HeldPositions) == 0 {
				fc.HeldPositions = []int{(fc.FailPos + 1) % fc.Tables}
			}
		}
		fc.Before, fc.After = 1+rnd.Intn(2), rnd.Intn(2)
	default:
		fc.FailPos = rnd.Intn(fc.Tables)
		if rnd.Intn(4) != 0 && fc.FailPos == 0 {
			fc.FailPos = 1 + rnd.Intn(fc.Tables-1)
		}
		fc.Before, fc.After = 0, 1+rnd.Intn(2)
	}
	// as many failed lookups as holders is the sharpest case for the reader accounting (an error of one reference per
	// failed lookup brings the count of a held table to zero exactly then); the first pass over the shapes always
	// draws it, later passes also draw other numbers
	fc.FailedLookups = fc.Before + fc.After
	if k >= 12 && rnd.Intn(3) == 0 {
		fc.FailedLookups = 1 + rnd.Intn(3)
	}

	res := &runResult{Run: faultBase + k, Config: fmt.Sprintf("directed-open-failure%+v", fc), Counters: map[string]int{}}
	mon := &monitor{snapFiles: map[int]map[string]bool{}, readerHeld: map[string]int{}, counters: map[string]int{}, phase: faultPhase}
	storeDir := filepath.Join(dir, "store")
	mon.famDir = filepath.Join(storeDir, "f")
	seam.NoFsync = true
	seam.InstallKV(seam.Direct{}, &seam.Observer{
		BeforeRemoveDir: func(p string) { mon.beforeRemoveDir(p) },
		BeforeUnmap:     func(p string) { mon.beforeUnmap(p) },
	})
	fault := &mapFault{}
	fault.install()
	opt := kv.DefaultStoreOption()
	opt.Levels = 2
	opt.TTL = ltoml.Duration(time.Duration(fc.TTLms) * time.Millisecond)
	opt.Source = timeutil.Interval(10_000)
	store, err := kv.GetStoreManager().CreateStore(storeDir, opt)
	if err != nil {
		fatal(dir, res, "create store: %v", err)
	}
	fam, err := store.CreateFamily("f", kv.FamilyOption{Merger: kvtok.MergerName, CompactThreshold: 1 << 30})
	if err != nil {
		fatal(dir, res, "create family: %v", err)
	}
	mon.family = fam
	const K = uint32(100)
	flushed := 0
	flush := func() {
		flushed++
		fl := fam.NewFlusher()
		err := fl.Add(K, kvtok.Encode([]uint32{uint32(flushed)}, 8*(flushed%3)))
		if err == nil {
			err = fl.Add(uint32(1000+flushed), kvtok.Encode([]uint32{uint32(1000 + flushed)}, 0))
		}
		if err == nil {
			err = fl.Commit()
		}
		fl.Release()
		if err != nil {
			fatal(dir, res, "flush: %v", err)
		}
	}
	want := func(n int) string {
		var s []int
		for t := 1; t <= n; t++ {
			s = append(s, t)
		}
		return fmt.Sprint(s)
	}
	// lookup reads key K through one snapshot with the given operation; returns the tokens (sorted), the readers it was
	// handed and the number of tables the version lists for K
	lookup := func(snap version.Snapshot, op string) (toks []int, readers []table.Reader, listed int, err error) {
		files := snap.GetCurrent().FindFiles(K)
		listed = len(files)
		add := func(v []byte) error {
			ts, err := kvtok.Decode(v)
			for _, t := range ts {
				toks = append(toks, int(t))
			}
			return err
		}
		switch op {
		case "load":
			err = snap.Load(K, add)
			readers = nil
		case "get-reader":
			for _, fm := range files {
				var rd table.Reader
				if rd, err = snap.GetReader(fm.GetFileNumber()); err != nil {
					break
				}
				readers = append(readers, rd)
			}
		default:
			readers, err = snap.FindReaders(K)
		}
		if err == nil && op != "load" {
			for _, rd := range readers {
				v, e := rd.Get(K)
				if e != nil {
					return toks, readers, listed, fmt.Errorf("Get(%d) on %s: %w", K, rd.FileName(), e)
				}
				if e := add(v); e != nil {
					return toks, readers, listed, e
				}
			}
		}
		sort.Ints(toks)
		return toks, readers, listed, err
	}

	type heldReader struct {
		rd    table.Reader
		first string
	}
	type holder struct {
		id     int
		snap   version.Snapshot
		tables int // tokens its version shows under K
		held   []*heldReader
	}
	var holders []*holder
	heldNames := map[string]bool{}
	getTok := func(rd table.Reader) string {
		v, err := rd.Get(K)
		if err != nil {
			return fmt.Sprintf("err(%v)", err)
		}
		ts, err := kvtok.Decode(v)
		return fmt.Sprintf("%v/%v", ts, err)
	}
	hold := func(h *holder, rd table.Reader) {
		mon.mu.Lock()
		mon.readerHeld[rd.FileName()]++
		mon.mu.Unlock()
		heldNames[rd.FileName()] = true
		h.held = append(h.held, &heldReader{rd: rd, first: getTok(rd)})
	}
	newHolder := func(how string) {
		h := &holder{id: len(holders) + 1, snap: fam.GetSnapshot(), tables: flushed}
		files := map[string]bool{}
		for _, fm := range h.snap.GetCurrent().GetAllFiles() {
			files[version.Table(fm.GetFileNumber())] = true
		}
		mon.mu.Lock()
		mon.snapFiles[h.id] = files
		mon.mu.Unlock()
		holders = append(holders, h)
		if how == "single-tables" {
			listed := h.snap.GetCurrent().FindFiles(K)
			for _, pos := range fc.HeldPositions {
				rd, err := h.snap.GetReader(listed[pos].GetFileNumber())
				if err != nil || rd == nil {
					mon.violate("C02/snapshot-read-error", "open-failure schedule: GetReader(%v) of a holder without any fault: %v", listed[pos].GetFileNumber(), err)
					continue
				}
				hold(h, rd)
			}
			return
		}
		toks, readers, _, err := lookup(h.snap, "find-readers")
		if err != nil {
			mon.violate("C02/snapshot-read-error/"+faultPhase, "holder %d (%s): FindReaders(%d) without any fault armed: %v", h.id, how, K, err)
			return
		}
		if fmt.Sprint(toks) != want(h.tables) {
			mon.violate("C02/lookup-after-transient-open-failure-wrong", "holder %d (%s) reads %v under key %d, committed before it started: %s (failed lookups so far: %d)",
				h.id, how, toks, K, want(h.tables), fault.injectedCount())
		}
		for _, rd := range readers {
			hold(h, rd)
		}
	}

	// ---- tables and the earlier holders ----
	switch fc.Holders {
	case "older-version":
		for i := 0; i < older; i++ {
			flush()
		}
		for i := 0; i < fc.Before; i++ {
			newHolder("older-version")
		}
		for flushed < fc.Tables {
			flush()
		}
	case "same-version":
		for flushed < fc.Tables {
			flush()
		}
		for i := 0; i < fc.Before; i++ {
			newHolder("single-tables")
		}
	default:
		for flushed < fc.Tables {
			flush()
		}
	}
	// the table whose open fails, by its position in the real version's lookup order
	var order []string
	{
		s := fam.GetSnapshot()
		for _, fm := range s.GetCurrent().FindFiles(K) {
			order = append(order, version.Table(fm.GetFileNumber()))
		}
		s.Close()
	}
	if len(order) != fc.Tables {
		fatal(dir, res, "the current version lists %d tables for key %d, flushed %d", len(order), K, fc.Tables)
	}
	target := order[fc.FailPos]
	failedWithError := 0

	// ---- the lookups that meet the failure ----
	for n := 0; n < fc.FailedLookups; n++ {
		before := fault.injectedCount()
		fault.arm(target, 1, fmt.Errorf("injected: mmap %s: %w", target, errno))
		q := fam.GetSnapshot()
		toks, readers, listed, err := lookup(q, fc.Op)
		fault.disarm()
		met := fault.injectedCount() > before
		switch {
		case !met:
			mon.count("fault.lookups_that_never_reached_the_armed_open_failure", 1)
		case err != nil:
			mon.count("fault.lookups_failed_by_an_injected_open_failure", 1)
			mon.count("fault.lookups_failed."+fc.Op, 1)
			if !errors.Is(err, errno) && !strings.Contains(err.Error(), "injected") {
				mon.count("fault.lookups_failed_with_another_error_than_the_injected_one", 1)
			}
			if fc.FailPos > 0 {
				mon.count("fault.failed_lookups_that_had_passed_earlier_tables", 1)
			}
			failedWithError++
		default:
			// the lookup absorbed the failure: then it must be complete
			mon.count("fault.lookups_that_absorbed_the_open_failure", 1)
			if fmt.Sprint(toks) != want(fc.Tables) || (fc.Op != "load" && len(readers) != listed) {
				mon.violate("C02/failed-table-open-swallowed-by-lookup", "%s of key %d met a failing open of table %s (position %d of %d), returned no error, %d readers and tokens %v; committed: %s",
					fc.Op, K, target, fc.FailPos, listed, len(readers), toks, want(fc.Tables))
			}
		}
		if fc.Retry && n == fc.FailedLookups-1 {
			// (only the last one: the repeated lookup leaves the table in the reader cache, a later armed lookup would not open it)
			toks, _, _, err := lookup(q, fc.Op)
			if err != nil {
				mon.violate("C02/lookup-after-transient-open-failure-fails", "%s of key %d on the same snapshot after the open failure of %s is gone: %v", fc.Op, K, target, err)
			} else if fmt.Sprint(toks) != want(fc.Tables) {
				mon.violate("C02/lookup-after-transient-open-failure-wrong", "%s of key %d on the same snapshot after the open failure of %s is gone reads %v, committed %s", fc.Op, K, target, toks, want(fc.Tables))
			}
			mon.count("fault.lookups_repeated_on_the_same_snapshot_after_the_failure", 1)
		}
		q.Close()
	}

	// ---- holders that start after the failures ----
	for i := 0; i < fc.After; i++ {
		newHolder("later")
	}
	nHeld := 0
	for _, h := range holders {
		nHeld += len(h.held)
	}
	// tables the failing lookups passed before the failure and of which a holder (earlier or later) keeps a reader
	shared := 0
	for i := 0; i < fc.FailPos; i++ {
		if heldNames[order[i]] {
			shared++
		}
	}
	if shared > 0 {
		mon.count("fault.failed_lookups_that_had_passed_a_table_another_snapshot_holds", failedWithError)
	}

	// ---- cache TTL passes, the store's periodic tick cleans the reader cache ----
	for round := 0; round < 4; round++ {
		time.Sleep(5 * time.Millisecond) // longer than the cache TTL (<= 1ms): only decides whether the clean-up may evict
		kv.VerifStoreCompact(store)
		if nHeld > 0 {
			mon.count("fault.cleanup_rounds_with_readers_held_after_a_failed_lookup", 1)
		}
	}
	func() {
		defer func() {
			if p := recover(); p != nil {
				mon.violate("C02/reader-faults/"+faultPhase, "reading through a held reader after failed lookups of other snapshots and cache clean-ups: %v", p)
			}
		}()
		debug.SetPanicOnFault(true)
		for _, h := range holders {
			for _, hr := range h.held {
				if now := getTok(hr.rd); now != hr.first {
					mon.violate("C02/held-reader-content-changed/"+faultPhase, "holder %d, table %s: %s first, %s after failed lookups of other snapshots and cache clean-ups", h.id, hr.rd.FileName(), hr.first, now)
				}
			}
			// the holder's snapshot still shows exactly the tokens of its version
			for _, op := range []string{"find-readers", "load"} {
				toks, _, _, err := lookup(h.snap, op)
				if err != nil {
					mon.violate("C02/snapshot-read-error/"+faultPhase, "holder %d: %s(%d) after failed lookups of other snapshots and cache clean-ups: %v", h.id, op, K, err)
				} else if fmt.Sprint(toks) != want(h.tables) {
					mon.violate("C02/snapshot-content-changed/"+faultPhase, "holder %d: %s(%d) shows %v, its version holds %s", h.id, op, K, toks, want(h.tables))
				}
			}
		}
	}()
	for _, h := range holders {
		mon.mu.Lock()
		for _, hr := range h.held {
			mon.readerHeld[hr.rd.FileName()]--
		}
		delete(mon.snapFiles, h.id)
		mon.mu.Unlock()
		h.snap.Close()
	}
	// a reader that starts now sees every commit, through every kind of lookup
	for _, op := range []string{"find-readers", "get-reader", "load"} {
		s := fam.GetSnapshot()
		toks, _, _, err := lookup(s, op)
		if err != nil {
			mon.violate("C02/lookup-after-transient-open-failure-fails", "final %s of key %d (no fault armed): %v", op, K, err)
		} else if fmt.Sprint(toks) != want(fc.Tables) {
			mon.violate("C02/lookup-after-transient-open-failure-wrong", "final %s of key %d reads %v, committed %s", op, K, toks, want(fc.Tables))
		}
		s.Close()
	}
	_ = kv.GetStoreManager().CloseStore(storeDir)
	seam.Restore()
	mon.count("fault.open_failures_injected", fault.injectedCount())
	mon.count("fault.readers_held_over_the_cleanups", nHeld)
	mon.count("fault.runs."+fc.Op+"."+fc.Holders, 1)
	res.Counters = mon.counters
	res.Violations = mon.violations
	res.Porcupine = "n/a"
	res.Nontrivial = mon.counters["fault.lookups_failed_by_an_injected_open_failure"] > 0 && nHeld > 0 &&
		mon.counters["fault.cleanup_rounds_with_readers_held_after_a_failed_lookup"] > 0
	res.Sample = map[string]interface{}{"run": res.Run, "config": res.Config, "counters": mon.counters}
	writeResult(dir, res)
}
