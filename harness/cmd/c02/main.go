// C02 — KV store: snapshot reads are stable and their files stay alive under concurrency.
//
// Each run is a child process: one real kv.Store/family, concurrent readers (snapshot, load, find readers,
// iterate, re-read, close), flushers with unique tokens, a compactor (Family.Compact, store compact tick incl.
// reader-cache cleanup, obsolete file cleanup). Monitors: a registry of held snapshots/readers consulted inside
// the delete/unmap seams, per-snapshot stability, real-time visibility + chain order of snapshot contents,
// porcupine linearizability of the commit/acquire history, fault capture, and the race detector.
// rollup.go: stores with two rollup target intervals and partly completed rollup jobs; the engine's own ledger of
// unfinished (table, interval) rollups is consulted in the delete seam and cross-checked against lindb's marks.
package main

import (
	"encoding/json"
	"fmt"
	"os"
	"path/filepath"
	"strconv"
	"strings"
	"time"

	"github.com/lindb/lindb/verif/internal/core"
	"github.com/lindb/lindb/verif/internal/racefilter"
)

type runResult struct {
	Run        int              `json:"run"`
	Config     string           `json:"config"`
	Counters   map[string]int   `json:"counters"`
	Violations []core.Violation `json:"violations"`
	Nontrivial bool             `json:"nontrivial"`
	Sample     interface{}      `json:"sample"`
	Porcupine  string           `json:"porcupine"`
}

func main() {
	if len(os.Args) > 1 && os.Args[1] == "run" {
		runChild()
		return
	}
	c := core.New("C02", "exploration")
	c.SetRule("one case = one concurrent run (child process) of readers/flushers/compactor on one family with seeded shapes and " +
		"seeded micro-delays at the list/remove/unmap seams; non-trivial = run in which at least one snapshot was still open " +
		"when the family's current version changed through a compaction AND a table delete was attempted while a snapshot was open; " +
		"distinct by run index (each run has its own seed-derived configuration and schedule); a third of the concurrent runs has two rollup " +
		"target intervals with real rollup jobs running, one interval held back (target store absent / rollup merge failing) until half of the flushes are committed; " +
		"directed partial-rollup runs (8 shapes = configuration order x which interval completes first x cause, seeded sizes/triggers/reopen/reader) are " +
		"non-trivial when a table was rolled up for a strict subset of the intervals, a compaction took it out of the version and clean-ups ran afterwards; " +
		"directed open-failure runs (faults.go: lookup kind x kind of holder by run index; seeded number of tables, failing position, held tables, holders, failed lookups, errno, TTL) are " +
		"non-trivial when a lookup was failed by the injected mapping failure and readers of other open snapshots were held over a cache clean-up afterwards")
	c.Assume("a rollup of (table, interval) counts as completed only when the target family of that interval shows every token flushed into the table; " +
		"the target family installs its output before the source family deletes the mark, so the ledger never calls a table pending that lindb may delete")
	c.Assume("a table open fails only through the kv/table map seam (mmap error: ENOMEM/EMFILE/EAGAIN), once per armed lookup, and only inside reader lookups (FindReaders/Load/GetReader), never inside flush/compaction")
	c.Assume("schedules are sampled, not enumerated; goroutine interleavings differ from run to run")
	c.Assume("a table may be unmapped by the reader cache while a snapshot merely names it (it is re-mapped on the next read); only an unmap while a reader obtained from a still-open snapshot is outstanding, or a delete of a file named by an open snapshot / pending rollup, is a violation")
	nRuns := c.Pick(24, 400)
	raceBin := os.Getenv("VERIF_RACE_BIN")
	scratch := c.Scratch()
	results := make([]*runResult, nRuns)
	raceOut := make([]string, nRuns)
	nStress := nRuns
	nRuns += c.Pick(6, 60) // directed schedules (release parked before the removal from the active versions)
	nDirected := nRuns
	nRuns += c.Pick(16, 160) // directed partial-rollup schedules (rollup.go): 8 shapes (order x which interval completes x cause) each
	nRollup := nRuns
	nRuns += c.Pick(12, 120) // directed open-failure schedules (faults.go): 4 lookup slots x 3 kinds of holders per pass
	results = make([]*runResult, nRuns)
	raceOut = make([]string, nRuns)
	core.Parallel(nRuns, 6, func(i int) {
		runIdx := i
		if i >= nRollup {
			runIdx = faultBase + (i - nRollup)
		} else if i >= nDirected {
			runIdx = rollupBase + (i - nDirected)
		} else if i >= nStress {
			runIdx = directedBase + (i - nStress)
		}
		dir := filepath.Join(scratch, fmt.Sprintf("r%04d", i))
		_ = os.MkdirAll(dir, 0o755)
		bin := ""
		env := []string{"VERIF_SEED=" + strconv.FormatInt(c.Seed, 10)}
		useRace := raceBin != "" && i%2 == 1
		if useRace {
			bin = raceBin
			env = append(env, "GORACE=halt_on_error=0 exitcode=0 log_path="+filepath.Join(dir, "race"))
		}
		res := core.RunChild(bin, []string{"run", strconv.Itoa(runIdx), dir, c.Tier}, env, 5*time.Minute, filepath.Join(dir, "child.log"))
		r := &runResult{Run: runIdx}
		data, err := os.ReadFile(filepath.Join(dir, "result.json"))
		if err == nil {
			err = json.Unmarshal(data, r)
		}
		if useRace {
			raceOut[i] = racefilter.ReadLogs(filepath.Join(dir, "race"), filepath.Join(dir, "child.log"))
		}
		if res.TimedOut {
			r.Config = "watchdog"
		} else if err != nil || res.ExitCode != 0 {
			r.Config = "died"
			r.Violations = append(r.Violations, core.Violation{Class: "C02/process-died",
				Message: fmt.Sprintf("exit=%d err=%v tail: %s", res.ExitCode, err, tailStr(res.Output, 4000))})
		}
		results[i] = r
		_ = os.RemoveAll(dir)
	})
	raceRuns := 0
	for i, r := range results {
		if r.Config == "watchdog" {
			c.Inconclusive("run %d: watchdog fired", i)
			continue
		}
		if r.Config == "died" {
			out := r.Violations[0].Message
			if strings.Contains(out, "lindb/kv") || strings.Contains(out, TreeKV()) || strings.Contains(out, "unexpected fault address") || strings.Contains(out, "SIGSEGV") || strings.Contains(out, "SIGBUS") {
				c.Violation("C02/process-died-in-kv", fmt.Sprintf("run %d: %s", i, out), nil)
			} else {
				c.Inconclusive("run %d: child failed outside kv: %s", i, tailStr(out, 500))
			}
			continue
		}
		c.Eval(1)
		for k, v := range r.Counters {
			c.Count(k, v)
		}
		if r.Nontrivial {
			c.Nontrivial(fmt.Sprintf("run%d", i))
		}
		if r.Sample != nil {
			c.Sample(r.Sample)
		}
		c.Count("porcupine."+r.Porcupine, 1)
		for _, v := range r.Violations {
			c.Violation(v.Class, fmt.Sprintf("run %d (%s): %s", i, r.Config, v.Message), v.Witness)
		}
		if raceOut[i] != "" || (raceBin != "" && i%2 == 1) {
			raceRuns++
			reports := racefilter.Parse(raceOut[i])
			c.Count("race_reports_total", len(reports))
			for _, rep := range racefilter.Attributed(reports, []string{"kv/"}) {
				c.Count("race_reports_attributed_to_kv", 1)
				c.Violation("C02/data-race/"+shortKey(rep), fmt.Sprintf("run %d: data race with top frames %v", i, rep.TopFrames), rep.Text)
			}
		}
	}
	c.Count("runs_under_race_detector", raceRuns)
	// the partial-rollup schedules must have been reached: both positions of the completed interval, both causes, and
	// at least one table that only its pending rollup kept on disk through a clean-up
	for _, need := range []string{
		"rollup.partly_rolled_tables.later_listed_interval_done_earlier_listed_pending",
		"rollup.partly_rolled_tables.earlier_listed_interval_done_later_listed_pending",
		"rollup.partly_rolled_tables.because_target-store-absent",
		"rollup.partly_rolled_tables.because_rollup-work-fails",
		"rollup.cleanups_survived_by_a_partly_rolled_table_outside_every_version",
		"rollup.tables_rolled_up_to_every_interval_at_the_end",
	} {
		if c.Counter(need) == 0 {
			c.Inconclusive("partial-rollup schedules: %s was never observed", need)
		}
	}
	// the open-failure schedules must have been reached: a lookup failed by the injected failure after it had passed a
	// table whose reader another open snapshot kept over the cache clean-ups, for every kind of lookup
	for _, need := range []string{
		"fault.lookups_failed.find-readers",
		"fault.lookups_failed.load",
		"fault.lookups_failed.get-reader",
		"fault.failed_lookups_that_had_passed_a_table_another_snapshot_holds",
		"fault.cleanup_rounds_with_readers_held_after_a_failed_lookup",
	} {
		if c.Counter(need) == 0 {
			c.Inconclusive("open-failure schedules: %s was never observed", need)
		}
	}
	if raceBin == "" {
		c.Assume("no -race variant available in this invocation")
	}
	c.Finish()
}

// TreeKV returns the kv directory of the tree the harness was built against.
func TreeKV() string { return strings.TrimRight(racefilter.TreeRoot(), "/") + "/kv/" }

func shortKey(r racefilter.Report) string {
	k := strings.Join(r.TopFrames, "+")
	if len(k) > 120 {
		k = k[:120]
	}
	return k
}

func tailStr(s string, n int) string {
	if len(s) > n {
		return s[len(s)-n:]
	}
	return s
}
