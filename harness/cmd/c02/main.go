// C02 — KV store: snapshot reads are stable and their files stay alive under concurrency.
//
// Each run is a child process: one real kv.Store/family, concurrent readers (snapshot, load, find readers,
// iterate, re-read, close), flushers with unique tokens, a compactor (Family.Compact, store compact tick incl.
// reader-cache cleanup, obsolete file cleanup). Monitors: a registry of held snapshots/readers consulted inside
// the delete/unmap seams, per-snapshot stability, real-time visibility + chain order of snapshot contents,
// porcupine linearizability of the commit/acquire history, fault capture, and the race detector.
package main

import (
	"encoding/json"
	"fmt"
	"os"
	"path/filepath"
	"strconv"
	"strings"
	"time"

	"github.com/lindb/lindb/verif/internal/core"
	"github.com/lindb/lindb/verif/internal/racefilter"
)

type runResult struct {
	Run        int              `json:"run"`
	Config     string           `json:"config"`
	Counters   map[string]int   `json:"counters"`
	Violations []core.Violation `json:"violations"`
	Nontrivial bool             `json:"nontrivial"`
	Sample     interface{}      `json:"sample"`
	Porcupine  string           `json:"porcupine"`
}

func main() {
	if len(os.Args) > 1 && os.Args[1] == "run" {
		runChild()
		return
	}
	c := core.New("C02", "exploration")
	c.SetRule("one case = one concurrent run (child process) of readers/flushers/compactor on one family with seeded shapes and " +
		"seeded micro-delays at the list/remove/unmap seams; non-trivial = run in which at least one snapshot was still open " +
		"when the family's current version changed through a compaction AND a table delete was attempted while a snapshot was open; " +
		"distinct by run index (each run has its own seed-derived configuration and schedule)")
	c.Assume("schedules are sampled, not enumerated; goroutine interleavings differ from run to run")
	c.Assume("a table may be unmapped by the reader cache while a snapshot merely names it (it is re-mapped on the next read); only an unmap while a reader obtained from a still-open snapshot is outstanding, or a delete of a file named by an open snapshot / pending rollup, is a violation")
	nRuns := c.Pick(24, 400)
	raceBin := os.Getenv("VERIF_RACE_BIN")
	scratch := c.Scratch()
	results := make([]*runResult, nRuns)
	raceOut := make([]string, nRuns)
	nStress := nRuns
	nRuns += c.Pick(6, 60) // directed schedules (release parked before the removal from the active versions)
	results = make([]*runResult, nRuns)
	raceOut = make([]string, nRuns)
	core.Parallel(nRuns, 6, func(i int) {
		runIdx := i
		if i >= nStress {
			runIdx = directedBase + (i - nStress)
		}
		dir := filepath.Join(scratch, fmt.Sprintf("r%04d", i))
		_ = os.MkdirAll(dir, 0o755)
		bin := ""
		env := []string{"VERIF_SEED=" + strconv.FormatInt(c.Seed, 10)}
		useRace := raceBin != "" && i%2 == 1
		if useRace {
			bin = raceBin
			env = append(env, "GORACE=halt_on_error=0 exitcode=0 log_path="+filepath.Join(dir, "race"))
		}
		res := core.RunChild(bin, []string{"run", strconv.Itoa(runIdx), dir, c.Tier}, env, 5*time.Minute, filepath.Join(dir, "child.log"))
		r := &runResult{Run: runIdx}
		data, err := os.ReadFile(filepath.Join(dir, "result.json"))
		if err == nil {
			err = json.Unmarshal(data, r)
		}
		if useRace {
			raceOut[i] = racefilter.ReadLogs(filepath.Join(dir, "race"), filepath.Join(dir, "child.log"))
		}
		if res.TimedOut {
			r.Config = "watchdog"
		} else if err != nil || res.ExitCode != 0 {
			r.Config = "died"
			r.Violations = append(r.Violations, core.Violation{Class: "C02/process-died",
				Message: fmt.Sprintf("exit=%d err=%v tail: %s", res.ExitCode, err, tailStr(res.Output, 4000))})
		}
		results[i] = r
		_ = os.RemoveAll(dir)
	})
	raceRuns := 0
	for i, r := range results {
		if r.Config == "watchdog" {
			c.Inconclusive("run %d: watchdog fired", i)
			continue
		}
		if r.Config == "died" {
			out := r.Violations[0].Message
			if strings.Contains(out, "lindb/kv") || strings.Contains(out, TreeKV()) || strings.Contains(out, "unexpected fault address") || strings.Contains(out, "SIGSEGV") || strings.Contains(out, "SIGBUS") {
				c.Violation("C02/process-died-in-kv", fmt.Sprintf("run %d: %s", i, out), nil)
			} else {
				c.Inconclusive("run %d: child failed outside kv: %s", i, tailStr(out, 500))
			}
			continue
		}
		c.Eval(1)
		for k, v := range r.Counters {
			c.Count(k, v)
		}
		if r.Nontrivial {
			c.Nontrivial(fmt.Sprintf("run%d", i))
		}
		if r.Sample != nil {
			c.Sample(r.Sample)
		}
		c.Count("porcupine."+r.Porcupine, 1)
		for _, v := range r.Violations {
			c.Violation(v.Class, fmt.Sprintf("run %d (%s): %s", i, r.Config, v.Message), v.Witness)
		}
		if raceOut[i] != "" || (raceBin != "" && i%2 == 1) {
			raceRuns++
			reports := racefilter.Parse(raceOut[i])
			c.Count("race_reports_total", len(reports))
			for _, rep := range racefilter.Attributed(reports, []string{"kv/"}) {
				c.Count("race_reports_attributed_to_kv", 1)
				c.Violation("C02/data-race/"+shortKey(rep), fmt.Sprintf("run %d: data race with top frames %v", i, rep.TopFrames), rep.Text)
			}
		}
	}
	c.Count("runs_under_race_detector", raceRuns)
	if raceBin == "" {
		c.Assume("no -race variant available in this invocation")
	}
	c.Finish()
}

// TreeKV returns the kv directory of the tree the harness was built against.
func TreeKV() string { return strings.TrimRight(racefilter.TreeRoot(), "/") + "/kv/" }

func shortKey(r racefilter.Report) string {
	k := strings.Join(r.TopFrames, "+")
	if len(k) > 120 {
		k = k[:120]
	}
	return k
}

func tailStr(s string, n int) string {
	if len(s) > n {
		return s[len(s)-n:]
	}
	return s
}
