package main

import (
	"encoding/json"
	"fmt"
	"math/rand"
	"os"
	"path/filepath"
	"runtime/debug"
	"sort"
	"strconv"
	"strings"
	"sync"
	"sync/atomic"
	"time"

	"github.com/anishathalye/porcupine"
	"github.com/lindb/common/pkg/ltoml"

	"github.com/lindb/lindb/kv"
	"github.com/lindb/lindb/kv/table"
	"github.com/lindb/lindb/kv/version"
	"github.com/lindb/lindb/pkg/timeutil"
	"github.com/lindb/lindb/verif/internal/core"
	"github.com/lindb/lindb/verif/internal/kvtok"
	"github.com/lindb/lindb/verif/internal/seam"
)

// ---- monitor state (thread-safe; updated by the goroutine that owns the shadowed object) ----

type monitor struct {
	mu         sync.Mutex
	clock      int64                   // logical clock for call/return stamps
	snapFiles  map[int]map[string]bool // open snapshot id -> table file names its version names
	readerHeld map[string]int          // table file name -> number of outstanding readers obtained from open snapshots
	violations []core.Violation
	counters   map[string]int
	family     kv.Family
	rollupOn   bool
	famDir     string
	ledger     *rollupLedger // the engine's own account of (table, interval) rollups that have not completed (nil: none)
	phase      string        // non-empty: appended to the classes of the unmap monitor (names the schedule family)
}

func (m *monitor) tick() int64 { return atomic.AddInt64(&m.clock, 1) }

func (m *monitor) count(name string, n int) {
	m.mu.Lock()
	m.counters[name] += n
	m.mu.Unlock()
}

func (m *monitor) violate(class, format string, args ...interface{}) {
	m.mu.Lock()
	defer m.mu.Unlock()
	m.counters["violations."+class]++
	for _, v := range m.violations {
		if v.Class == class {
			return
		}
	}
	m.violations = append(m.violations, core.Violation{Class: class, Message: fmt.Sprintf(format, args...)})
}

func fileOf(path string) string { return filepath.Base(path) }

// beforeRemoveDir is called by the kv.removeDirFunc seam: a table file is about to be deleted.
func (m *monitor) beforeRemoveDir(path string) {
	name := fileOf(path)
	if !strings.HasSuffix(name, ".sst") || filepath.Dir(path) != m.famDir {
		return
	}
	m.mu.Lock()
	open := len(m.snapFiles)
	var holders []int
	for id, files := range m.snapFiles {
		if files[name] {
			holders = append(holders, id)
		}
	}
	held := m.readerHeld[name]
	m.counters["table_deletes_attempted"]++
	if open > 0 {
		m.counters["table_deletes_while_a_snapshot_is_open"]++
	}
	m.mu.Unlock()
	if len(holders) > 0 {
		m.violate("C02/table-deleted-while-open-snapshot-names-it", "table %s is being deleted while open snapshots %v name it", name, holders)
	}
	if held > 0 {
		m.violate("C02/table-deleted-while-reader-outstanding", "table %s is being deleted while %d readers from open snapshots are outstanding", name, held)
	}
	if m.family != nil {
		// a table of the family's current version (e.g. committed a moment ago by a writer whose pending mark was
		// just removed) must never be deleted
		snap := m.family.GetSnapshot()
		for _, fm := range snap.GetCurrent().GetAllFiles() {
			if version.Table(fm.GetFileNumber()) == name {
				m.violate("C02/table-deleted-while-current-version-names-it", "table %s is being deleted although the family's current version names it", name)
			}
		}
		snap.Close()
	}
	if m.rollupOn && m.family != nil {
		// no rollup job runs in this workload, so every rollup mark is still pending
		snap := m.family.GetSnapshot()
		marks := snap.GetCurrent().GetRollupFiles()
		snap.Close()
		for fn := range marks {
			if version.Table(fn) == name {
				m.violate("C02/table-deleted-while-pending-rollup-needs-it", "table %s is being deleted although it is still marked for rollup", name)
			}
		}
	}
	if m.ledger != nil {
		m.ledgerBeforeRemove(name)
	}
}

func (m *monitor) beforeUnmap(path string) {
	name := fileOf(path)
	m.mu.Lock()
	held := m.readerHeld[name]
	m.counters["table_unmaps"]++
	if len(m.snapFiles) > 0 {
		m.counters["table_unmaps_while_a_snapshot_is_open"]++
	}
	m.mu.Unlock()
	if held > 0 {
		class := "C02/table-unmapped-while-reader-outstanding"
		if m.phase != "" {
			class += "/" + m.phase
		}
		m.violate(class, "table %s is being unmapped while %d readers obtained from still-open snapshots are outstanding", name, held)
	}
}

// ---- history for the linearizability check ----

type histOp struct {
	Client int    `json:"client"`
	Commit bool   `json:"commit"`
	Token  uint32 `json:"token,omitempty"`
	Set    []int  `json:"set,omitempty"`
	Call   int64  `json:"call"`
	Ret    int64  `json:"ret"`
}

type cfg struct {
	Readers, Flushers int
	Levels            int
	TTLms             int
	Rollup            bool
	Threshold         int
	MaxFileSize       uint32
	Flushes           int // per flusher
	DelayUs           int
	Keys              int
	Preload           int // tables flushed before the concurrent phase (big family: wide cleanup windows)
	Cleaners          int // extra goroutines running the obsolete file cleanup
	// Rollup runs: real rollup jobs run concurrently; one target interval completes from the start, the other one stays
	// pending (its target store is not open, or its rollup merges fail) until half of the flushes are committed
	RollupOrder     []string
	RollupDoneFirst string
	RollupCause     string
	RollupThreshold int
}

func runChild() {
	idx, _ := strconv.Atoi(os.Args[2])
	dir := os.Args[3]
	seed, _ := strconv.ParseInt(os.Getenv("VERIF_SEED"), 10, 64)
	if idx >= faultBase {
		runDirectedMapFault(idx-faultBase, dir, seed)
		return
	}
	if idx >= rollupBase {
		runDirectedRollup(idx-rollupBase, dir, seed)
		return
	}
	if idx >= directedBase {
		runDirected(idx-directedBase, dir, seed)
		return
	}
	rnd := rand.New(rand.NewSource(seed*6151 + int64(idx)*7907 + 3))
	c := cfg{
		Readers: 4 + rnd.Intn(5), Flushers: 1 + rnd.Intn(3), Levels: 2 + rnd.Intn(2),
		TTLms: []int{0, 1, 3600_000}[rnd.Intn(3)], Rollup: rnd.Intn(3) == 0, Threshold: 2 + rnd.Intn(3),
		MaxFileSize: []uint32{0, 60, 300}[rnd.Intn(3)], Flushes: 6 + rnd.Intn(8), DelayUs: []int{0, 50, 300, 1500}[rnd.Intn(4)],
		Keys: 6 + rnd.Intn(12),
	}
	if idx%6 == 5 {
		// big family: many tables and no compaction, several cleanup goroutines racing with flush commits
		c.Preload, c.Cleaners, c.Threshold, c.Rollup = 1200, 4, 1<<30, false
		c.Flushers, c.Flushes, c.Readers = 3, 60, 4
	}
	famName, mergerName := "f", kvtok.MergerName
	storeDir := filepath.Join(dir, "store")
	var world *rollupWorld
	var ledger *rollupLedger
	var rollupOrder []timeutil.Interval
	var doneFirst, pendingFirst timeutil.Interval
	if c.Rollup {
		rr := rand.New(rand.NewSource(int64(mix64(uint64(seed)*2741 + uint64(idx)*131 + 5))))
		rollupOrder = []timeutil.Interval{fiveMinutes, oneHour}
		if rr.Intn(2) == 1 {
			rollupOrder = []timeutil.Interval{oneHour, fiveMinutes}
		}
		doneFirst, pendingFirst = rollupOrder[1], rollupOrder[0]
		if rr.Intn(3) == 0 {
			doneFirst, pendingFirst = rollupOrder[0], rollupOrder[1]
		}
		c.RollupOrder, c.RollupDoneFirst = ivNames(rollupOrder), doneFirst.String()
		c.RollupCause = []string{"target-store-absent", "rollup-work-fails"}[rr.Intn(2)]
		c.RollupThreshold = []int{1, 2, 3}[rr.Intn(3)]
		world = newRollupWorld(dir, familyDates[rr.Intn(len(familyDates))], c.Levels, time.Duration(c.TTLms)*time.Millisecond)
		ledger = newRollupLedger(rollupOrder, world.targets)
		storeDir, famName, mergerName = world.srcName, world.srcFamName, failableName
	}
	res := &runResult{Run: idx, Config: fmt.Sprintf("%+v", c), Counters: map[string]int{}}
	mon := &monitor{snapFiles: map[int]map[string]bool{}, readerHeld: map[string]int{}, counters: map[string]int{}, rollupOn: c.Rollup, ledger: ledger}
	mon.famDir = filepath.Join(storeDir, famName)
	var delayMu sync.Mutex
	delayRnd := rand.New(rand.NewSource(seed*31 + int64(idx)))
	delay := func() {
		if c.DelayUs == 0 {
			return
		}
		delayMu.Lock()
		d := delayRnd.Intn(c.DelayUs + 1)
		delayMu.Unlock()
		time.Sleep(time.Duration(d) * time.Microsecond)
	}
	seam.NoFsync = true // the fsync(2) of manifest/table writers is irrelevant here and dominates big-family runs
	seam.InstallKV(seam.Direct{}, &seam.Observer{
		AfterListDir:    func(string, []string) { delay() }, // between listing and live-set collection
		BeforeRemoveDir: func(p string) { mon.beforeRemoveDir(p); delay() },
		BeforeUnmap:     func(p string) { mon.beforeUnmap(p); delay() },
	})

	opt := kv.DefaultStoreOption()
	opt.Levels = c.Levels
	opt.TTL = ltoml.Duration(time.Duration(c.TTLms) * time.Millisecond)
	opt.Source = timeutil.Interval(10_000)
	if c.Rollup {
		opt.Rollup = rollupOrder
	}
	store, err := kv.GetStoreManager().CreateStore(storeDir, opt)
	if err != nil {
		fatal(dir, res, "create store: %v", err)
	}
	fam, err := store.CreateFamily(famName, kv.FamilyOption{Merger: mergerName, CompactThreshold: c.Threshold, RollupThreshold: c.RollupThreshold, MaxFileSize: c.MaxFileSize})
	if err != nil {
		fatal(dir, res, "create family: %v", err)
	}
	mon.family = fam
	// releasePending makes the rollup of the interval that was held back possible (once)
	var releaseOnce sync.Once
	releasePending := func() {
		releaseOnce.Do(func() {
			if c.RollupCause == "target-store-absent" {
				if err := world.targets[pendingFirst].open(); err != nil {
					mon.violate("C02/setup-failed", "create the pending target store: %v", err)
				}
			} else {
				setRollupFails(pendingFirst, false)
			}
			mon.count("rollup.stress.pending_interval_released_while_jobs_run", 1)
		})
	}
	if c.Rollup {
		if err := world.targets[doneFirst].open(); err != nil {
			fatal(dir, res, "create target store: %v", err)
		}
		if c.RollupCause != "target-store-absent" {
			if err := world.targets[pendingFirst].open(); err != nil {
				fatal(dir, res, "create target store: %v", err)
			}
			setRollupFails(pendingFirst, true)
		}
	}
	// identify finds the level-0 table a flush created (level 0 only ever holds flush outputs, each with the one token of
	// its flush) and puts it into the ledger of unfinished rollups
	identify := func(key, tok uint32) {
		snap := fam.GetSnapshot()
		defer snap.Close()
		for _, fm := range snap.GetCurrent().GetFiles(0) {
			fn := fm.GetFileNumber()
			if _, _, known := ledger.pending(fn); known {
				continue
			}
			rd, err := snap.GetReader(fn)
			if err != nil {
				continue
			}
			v, err := rd.Get(key)
			if err != nil {
				continue
			}
			if ts, err := kvtok.Decode(v); err == nil && len(ts) == 1 && ts[0] == tok {
				ledger.register(fn, map[uint32][]uint32{key: {tok}})
				mon.count("rollup.flushed_tables_in_the_ledger", 1)
				return
			}
		}
		mon.count("rollup.flushes_whose_table_could_not_be_identified", 1)
	}
	var commitCount int64
	totalFlushes := int64(c.Flushers * c.Flushes)
	// a seeded delay between version.Release's decrement and the removal from the active versions
	{
		snap0 := fam.GetSnapshot()
		version.VerifGateRemoveVersion(snap0.GetCurrent().GetFamilyVersion(), func(version.Version) {
			mon.count("remove_version_gate_passes", 1)
			delay()
		})
		// ... and inside GetSnapshot, where the current version is read and retained (under the family version's
		// read lock on the unchanged tree: the delay then only slows the commit down)
		version.VerifGateGetCache(snap0.GetCurrent().GetFamilyVersion(), func() {
			mon.count("get_snapshot_gate_passes", 1)
			delay()
		})
		snap0.Close()
	}

	keys := make([]uint32, c.Keys)
	for i := range keys {
		keys[i] = uint32(i * 3)
	}
	if c.Keys > 8 {
		keys[c.Keys-1] = 65536
		keys[c.Keys-2] = 65535
	}

	var hist []histOp
	var histMu sync.Mutex
	record := func(op histOp) { histMu.Lock(); hist = append(hist, op); histMu.Unlock() }

	var nextTok uint32
	var snapID int64
	var stop atomic.Bool
	var wg, flushWG sync.WaitGroup

	// readAll reads the token set of every key through one snapshot (Load = the lookup path of queries)
	readAll := func(snap version.Snapshot) (map[uint32][]uint32, error) {
		out := map[uint32][]uint32{}
		for _, k := range keys {
			var toks []uint32
			err := snap.Load(k, func(value []byte) error {
				ts, err := kvtok.Decode(value)
				if err != nil {
					return err
				}
				toks = append(toks, ts...)
				return nil
			})
			if err != nil {
				return nil, fmt.Errorf("Load(%d): %w", k, err)
			}
			sort.Slice(toks, func(i, j int) bool { return toks[i] < toks[j] })
			if len(toks) > 0 {
				out[k] = toks
			}
		}
		return out, nil
	}
	flat := func(m map[uint32][]uint32) []int {
		var s []int
		for _, ts := range m {
			for _, t := range ts {
				s = append(s, int(t))
			}
		}
		sort.Ints(s)
		return s
	}

	// flushers
	committed := map[uint32]uint32{} // token -> key
	var commMu sync.Mutex
	var preloadToks []int // committed before the history starts: part of every snapshot, not part of the history
	for i := 0; i < c.Preload; i++ {
		key := keys[i%len(keys)]
		tok := atomic.AddUint32(&nextTok, 1)
		fl := fam.NewFlusher()
		err := fl.Add(key, kvtok.Encode([]uint32{tok}, 0))
		if err == nil {
			err = fl.Commit()
		}
		fl.Release()
		if err != nil {
			fatal(dir, res, "preload flush: %v", err)
		}
		committed[tok] = key
		preloadToks = append(preloadToks, int(tok))
	}
	for ci := 0; ci < c.Cleaners; ci++ {
		wg.Add(1)
		go func() {
			defer wg.Done()
			for !stop.Load() {
				kv.VerifFamilyDeleteObsoleteFiles(fam)
				mon.count("cleaner_rounds", 1)
			}
		}()
	}
	for fi := 0; fi < c.Flushers; fi++ {
		flushWG.Add(1)
		wg.Add(1)
		go func(fi int) {
			defer wg.Done()
			defer flushWG.Done()
			r := rand.New(rand.NewSource(seed + int64(idx)*100 + int64(fi)))
			for n := 0; n < c.Flushes; n++ {
				key := keys[r.Intn(len(keys))]
				tok := atomic.AddUint32(&nextTok, 1)
				call := mon.tick()
				fl := fam.NewFlusher()
				err := fl.Add(key, kvtok.Encode([]uint32{tok}, int(tok%4)*20))
				if err == nil {
					fl.Sequence(int32(fi+1), int64(n+1))
					err = fl.Commit()
				}
				fl.Release()
				ret := mon.tick()
				if err != nil {
					mon.violate("C02/flush-fails", "flush of token %d failed: %v", tok, err)
					return
				}
				commMu.Lock()
				committed[tok] = key
				commMu.Unlock()
				record(histOp{Client: 100 + fi, Commit: true, Token: tok, Call: call, Ret: ret})
				mon.count("commits", 1)
				if c.Rollup {
					identify(key, tok)
					if atomic.AddInt64(&commitCount, 1) == totalFlushes/2 {
						releasePending()
					}
				}
				time.Sleep(time.Duration(r.Intn(400)) * time.Microsecond)
			}
		}(fi)
	}

	// compactor: what the store's background timer and compaction jobs do
	wg.Add(1)
	go func() {
		defer wg.Done()
		r := rand.New(rand.NewSource(seed + int64(idx)*100 + 77))
		for !stop.Load() {
			action := r.Intn(4)
			if c.Rollup && r.Intn(3) == 0 {
				action = 4 + r.Intn(3)
			}
			switch action {
			case 0:
				fam.Compact()
			case 1:
				kv.VerifStoreCompact(store) // compaction check + rollup check + reader cache cleanup
			case 2:
				kv.VerifFamilyDeleteObsoleteFiles(fam)
			case 3:
				kv.VerifFamilyCompact(fam)
			case 4:
				store.ForceRollup()
				mon.count("rollup.stress.rollup_jobs_requested", 1)
			case 5:
				kv.VerifFamilyRollup(fam)
				mon.count("rollup.stress.rollup_jobs_requested", 1)
			default:
				mon.crossCheckMarks(fam, "while jobs run")
			}
			mon.count("compactor_ticks", 1)
			time.Sleep(time.Duration(r.Intn(300)) * time.Microsecond)
		}
	}()

	// readers
	for ri := 0; ri < c.Readers; ri++ {
		wg.Add(1)
		go func(ri int) {
			defer wg.Done()
			debug.SetPanicOnFault(true)
			r := rand.New(rand.NewSource(seed + int64(idx)*100 + 1000 + int64(ri)))
			for !stop.Load() {
				func() {
					id := int(atomic.AddInt64(&snapID, 1))
					defer func() {
						if p := recover(); p != nil {
							mon.violate("C02/reader-faults", "reader %d snapshot %d: %v", ri, id, p)
							mon.mu.Lock()
							delete(mon.snapFiles, id)
							mon.mu.Unlock()
						}
					}()
					call := mon.tick()
					snap := fam.GetSnapshot()
					ret := mon.tick()
					cur := snap.GetCurrent()
					verID := cur.ID()
					files := map[string]bool{}
					for _, fm := range cur.GetAllFiles() {
						files[version.Table(fm.GetFileNumber())] = true
					}
					mon.mu.Lock()
					mon.snapFiles[id] = files
					mon.mu.Unlock()
					var heldNames []string
					release := func() {
						mon.mu.Lock()
						delete(mon.snapFiles, id)
						for _, n := range heldNames {
							mon.readerHeld[n]--
						}
						mon.mu.Unlock()
						snap.Close()
					}
					first, err := readAll(snap)
					if err != nil {
						mon.violate("C02/snapshot-read-error", "snapshot %d (version %d files %v): %v", id, verID, keysOf(files), err)
						release()
						return
					}
					set := flat(first)
					if len(preloadToks) > 0 {
						// every snapshot must contain all preloaded tokens; the history itself is about the later commits
						if len(set) < len(preloadToks) || set[len(preloadToks)-1] != preloadToks[len(preloadToks)-1] {
							mon.violate("C02/preloaded-token-missing-in-snapshot", "snapshot %d shows %d tokens, the %d preloaded ones are not all there", id, len(set), len(preloadToks))
						} else {
							set = set[len(preloadToks):]
						}
					}
					record(histOp{Client: ri, Set: set, Call: call, Ret: ret})
					mon.count("snapshots", 1)
					// hold readers for some keys (what a query does between filtering and loading)
					type held struct {
						key    uint32
						reader table.Reader
					}
					var hs []held
					for i := 0; i < 3; i++ {
						k := keys[r.Intn(len(keys))]
						readers, err := snap.FindReaders(k)
						if err != nil {
							mon.violate("C02/snapshot-read-error", "snapshot %d FindReaders(%d): %v", id, k, err)
							release()
							return
						}
						for _, rd := range readers {
							mon.mu.Lock()
							mon.readerHeld[rd.FileName()]++
							mon.mu.Unlock()
							heldNames = append(heldNames, rd.FileName())
							hs = append(hs, held{k, rd})
						}
					}
					readHeld := func() (map[uint32][]uint32, error) {
						out := map[uint32][]uint32{}
						for _, h := range hs {
							v, err := h.reader.Get(h.key)
							if err == table.ErrKeyNotExist {
								continue
							}
							if err != nil {
								return nil, err
							}
							ts, err := kvtok.Decode(v)
							if err != nil {
								return nil, err
							}
							out[h.key] = append(out[h.key], ts...)
							// iterate the whole table: every byte of the mapping is touched
							it := h.reader.Iterator()
							for it.HasNext() {
								itKey := it.Key() // Key() advances the iterator, Value() reads the entry it moved to
								if _, err := kvtok.Decode(it.Value()); err != nil {
									return nil, fmt.Errorf("table %s key %d: %w", h.reader.FileName(), itKey, err)
								}
							}
						}
						return out, nil
					}
					h1, err := readHeld()
					if err != nil {
						mon.violate("C02/held-reader-read-error", "snapshot %d: %v", id, err)
						release()
						return
					}
					// stay open for a while (some readers close late on purpose)
					hold := r.Intn(600)
					if r.Intn(6) == 0 {
						hold = 3000 + r.Intn(6000)
					}
					time.Sleep(time.Duration(hold) * time.Microsecond)
					second, err := readAll(snap)
					if err != nil {
						mon.violate("C02/snapshot-read-error", "snapshot %d second read (version %d files %v): %v", id, verID, keysOf(files), err)
						release()
						return
					}
					if fmt.Sprint(first) != fmt.Sprint(second) {
						mon.violate("C02/snapshot-content-changed", "snapshot %d: first read %v, later read %v", id, first, second)
					}
					h2, err := readHeld()
					if err != nil {
						mon.violate("C02/held-reader-read-error", "snapshot %d second read: %v", id, err)
					} else if fmt.Sprint(h1) != fmt.Sprint(h2) {
						mon.violate("C02/held-reader-content-changed", "snapshot %d: %v then %v", id, h1, h2)
					}
					// did the family move on while this snapshot was open?
					now := fam.GetSnapshot()
					nowFiles := map[string]bool{}
					for _, fm := range now.GetCurrent().GetAllFiles() {
						nowFiles[version.Table(fm.GetFileNumber())] = true
					}
					changed := now.GetCurrent().ID() != verID
					now.Close()
					if changed {
						mon.count("snapshots_open_across_a_version_change", 1)
						for f := range files {
							if !nowFiles[f] {
								mon.count("snapshots_open_across_a_compaction_install", 1)
								break
							}
						}
					}
					release()
				}()
				time.Sleep(time.Duration(r.Intn(200)) * time.Microsecond)
			}
		}(ri)
	}

	flushWG.Wait()
	// a few more compactor/reader rounds after the last commit
	time.Sleep(20 * time.Millisecond)
	stop.Store(true)
	wg.Wait()
	kv.VerifFamilyWait(fam)
	if c.Rollup {
		// quiescent: how far did the rollups get, are the tables the unfinished ones need still there, and do the
		// unfinished ones complete once nothing holds them back
		if !quiesce(fam) {
			fatal(dir, res, "background jobs never finished")
		}
		for _, fn := range ledger.numbers() {
			pend, done, _ := ledger.pending(fn)
			if len(pend) > 0 && len(done) > 0 {
				mon.count("rollup.stress.partly_rolled_tables_at_the_end_of_the_concurrent_phase", 1)
			}
			if len(pend) > 0 {
				mon.count("rollup.stress.tables_with_a_pending_rollup_at_the_end_of_the_concurrent_phase", 1)
			}
		}
		mon.crossCheckMarks(fam, "at the end of the concurrent phase")
		mon.checkPendingTablesReadable(fam, "at the end of the concurrent phase")
		releasePending()
		for round := 0; round < 2; round++ {
			store.ForceRollup()
			if !quiesce(fam) {
				fatal(dir, res, "rollup job never finished")
			}
		}
		for _, fn := range ledger.numbers() {
			pend, done, _ := ledger.pending(fn)
			if len(pend) > 0 {
				mon.violate("C02/pending-rollup-completes-without-the-table", "table %d: after every target store is open and two more rollup jobs ran, the target families of %v still lack its tokens %v (completed: %v)",
					fn, ivNames(pend), ledger.tokens(fn), ivNames(done))
			} else {
				mon.count("rollup.tables_rolled_up_to_every_interval_at_the_end", 1)
			}
		}
		mon.count("rollup.merges_failed_on_purpose", failedMerges())
	}

	// quiescent checks
	final := fam.GetSnapshot()
	all, err := readAll(final)
	if err != nil {
		mon.violate("C02/snapshot-read-error", "final snapshot: %v", err)
	} else {
		got := map[uint32]bool{}
		for k, ts := range all {
			for _, t := range ts {
				got[t] = true
				if committed[t] != k {
					mon.violate("C02/token-under-wrong-key", "token %d found under key %d, flushed under %d", t, k, committed[t])
				}
			}
		}
		for t := range committed {
			if !got[t] {
				mon.violate("C02/committed-token-missing-at-end", "token %d committed but not visible in the final snapshot %v", t, all)
			}
		}
	}
	if c.Rollup {
		for fn := range final.GetCurrent().GetRollupFiles() {
			if _, err := os.Stat(filepath.Join(mon.famDir, version.Table(fn))); err != nil {
				mon.violate("C02/pending-rollup-table-missing", "table %d is marked for rollup but gone: %v", fn, err)
			}
		}
	}
	final.Close()
	_ = kv.GetStoreManager().CloseStore(storeDir)
	if world != nil {
		for _, t := range world.targets {
			t.close()
		}
	}
	seam.Restore()

	checkHistory(mon, res, hist)

	res.Counters = mon.counters
	res.Violations = mon.violations
	res.Nontrivial = mon.counters["snapshots_open_across_a_compaction_install"] > 0 && mon.counters["table_deletes_while_a_snapshot_is_open"] > 0
	n := len(hist)
	if n > 6 {
		n = 6
	}
	res.Sample = map[string]interface{}{"run": idx, "config": res.Config, "history_len": len(hist), "first_ops": hist[:n], "counters": mon.counters}
	writeResult(dir, res)
}

// mix64 (splitmix64 finaliser) decorrelates the streams of neighbouring run indices.
func mix64(x uint64) uint64 {
	x += 0x9e3779b97f4a7c15
	x = (x ^ (x >> 30)) * 0xbf58476d1ce4e5b9
	x = (x ^ (x >> 27)) * 0x94d049bb133111eb
	return (x ^ (x >> 31)) >> 1
}

func keysOf(m map[string]bool) []string {
	var s []string
	for k := range m {
		s = append(s, k)
	}
	sort.Strings(s)
	return s
}

func fatal(dir string, res *runResult, format string, args ...interface{}) {
	res.Violations = append(res.Violations, core.Violation{Class: "C02/setup-failed", Message: fmt.Sprintf(format, args...)})
	writeResult(dir, res)
	os.Exit(0)
}

func writeResult(dir string, res *runResult) {
	data, _ := json.Marshal(res)
	if err := os.WriteFile(filepath.Join(dir, "result.json"), data, 0o644); err != nil {
		fmt.Println(err)
		os.Exit(3)
	}
}

// checkHistory decides visibility/ordering on the recorded commit/acquire history.
func checkHistory(mon *monitor, res *runResult, hist []histOp) {
	var commits, acquires []histOp
	commitOf := map[int]histOp{}
	for _, op := range hist {
		if op.Commit {
			commits = append(commits, op)
			commitOf[int(op.Token)] = op
		} else {
			acquires = append(acquires, op)
		}
	}
	inSet := func(set []int, t int) bool {
		i := sort.SearchInts(set, t)
		return i < len(set) && set[i] == t
	}
	for _, a := range acquires {
		// a reader that starts later sees every commit that completed before it started
		for _, cm := range commits {
			if cm.Ret < a.Call && !inSet(a.Set, int(cm.Token)) {
				mon.violate("C02/completed-commit-invisible-to-later-snapshot", "commit of token %d returned at %d, snapshot acquired at [%d,%d] does not contain it: %v", cm.Token, cm.Ret, a.Call, a.Ret, a.Set)
			}
		}
		for _, t := range a.Set {
			cm, ok := commitOf[t]
			if !ok {
				// commit still in flight when the history ended is impossible here (all flushers joined)
				mon.violate("C02/snapshot-shows-unknown-token", "snapshot [%d,%d] shows token %d that no flusher committed", a.Call, a.Ret, t)
			} else if cm.Call > a.Ret {
				mon.violate("C02/snapshot-shows-future-commit", "snapshot returned at %d shows token %d whose commit started at %d", a.Ret, t, cm.Call)
			}
		}
	}
	// versions are linear: the contents of any two snapshots are ordered by inclusion
	sort.Slice(acquires, func(i, j int) bool { return len(acquires[i].Set) < len(acquires[j].Set) })
	for i := 1; i < len(acquires); i++ {
		small, big := acquires[i-1].Set, acquires[i].Set
		for _, t := range small {
			if !inSet(big, t) {
				mon.violate("C02/snapshots-not-prefix-ordered", "snapshot contents %v and %v are not ordered by inclusion", small, big)
				break
			}
		}
	}
	mon.count("history_ops", len(hist))
	// porcupine: linearizability against the sequential model (state = sorted token set)
	var ops []porcupine.Operation
	// all commits plus at most 40 evenly spaced acquires keep the search small; the direct checks above cover every acquire
	stride := len(acquires)/40 + 1
	var sub []histOp
	sub = append(sub, commits...)
	for i := 0; i < len(acquires); i += stride {
		sub = append(sub, acquires[i])
	}
	mon.count("porcupine_ops", len(sub))
	for _, op := range sub {
		op := op
		ops = append(ops, porcupine.Operation{ClientId: op.Client, Input: op, Call: op.Call, Output: op.Set, Return: op.Ret})
	}
	model := porcupine.Model{
		Init: func() interface{} { return "" },
		Step: func(state, input, output interface{}) (bool, interface{}) {
			in := input.(histOp)
			st := state.(string)
			if in.Commit {
				return true, addTok(st, int(in.Token))
			}
			return st == fmtSet(in.Set), st
		},
		Equal: func(a, b interface{}) bool { return a.(string) == b.(string) },
	}
	// client ids must be small consecutive ints for porcupine's visualisation only; the checker accepts any
	result := porcupine.CheckOperationsTimeout(model, ops, 20*time.Second)
	switch result {
	case porcupine.Ok:
		res.Porcupine = "ok"
	case porcupine.Illegal:
		res.Porcupine = "illegal"
		mon.violate("C02/history-not-linearizable", "commit/acquire history of %d operations is not linearizable w.r.t. the set model", len(hist))
	default:
		res.Porcupine = "unknown"
	}
}

func fmtSet(s []int) string {
	var sb strings.Builder
	for _, t := range s {
		sb.WriteString(strconv.Itoa(t))
		sb.WriteByte(',')
	}
	return sb.String()
}

func addTok(st string, t int) string {
	var s []int
	for _, p := range strings.Split(st, ",") {
		if p == "" {
			continue
		}
		v, _ := strconv.Atoi(p)
		s = append(s, v)
	}
	s = append(s, t)
	sort.Ints(s)
	return fmtSet(s)
}
