package main

import (
	"bytes"
	"fmt"
	"os"
	"time"

	"github.com/lindb/lindb/config"
	"github.com/lindb/lindb/kv"
	"github.com/lindb/lindb/models"
	"github.com/lindb/lindb/pkg/option"
	"github.com/lindb/lindb/pkg/timeutil"
	protoMetricsV1 "github.com/lindb/common/proto/gen/v1/linmetrics"
	"github.com/lindb/lindb/series/metric"
	"github.com/lindb/lindb/tsdb"
	"github.com/lindb/lindb/verif/internal/blocks"
)

func rows(ts int64, from, to int, val float64) []*metric.StorageRow {
	ml := protoMetricsV1.MetricList{}
	for i := from; i < to; i++ {
		ml.Metrics = append(ml.Metrics, &protoMetricsV1.Metric{
			Name: "m", Namespace: "default-ns", Timestamp: ts,
			Tags:         []*protoMetricsV1.KeyValue{{Key: "pod", Value: fmt.Sprintf("p%07d", i)}},
			SimpleFields: []*protoMetricsV1.SimpleField{{Name: "f", Value: val, Type: protoMetricsV1.SimpleFieldType_DELTA_SUM}},
		})
	}
	var buf bytes.Buffer
	converter := metric.NewProtoConverter(models.NewDefaultLimits())
	_, _ = converter.MarshalProtoMetricListV1To(ml, &buf)
	var br metric.StorageBatchRows
	br.UnmarshalRows(buf.Bytes())
	return br.Rows()
}

func e2e() {
	dir, _ := os.MkdirTemp("", "c03e2e")
	defer os.RemoveAll(dir)
	config.SetGlobalStorageConfig(&config.StorageBase{TSDB: config.TSDB{Dir: dir}})
	eng, err := tsdb.NewEngine()
	if err != nil {
		panic(err)
	}
	opt := &option.DatabaseOption{AutoCreateNS: true, Intervals: option.Intervals{{Interval: timeutil.Interval(10_000), Retention: timeutil.Interval(200 * 365 * 86400_000)}}}
	if err := eng.CreateShards("db", opt, models.ShardID(1)); err != nil {
		panic(err)
	}
	shard, _ := eng.GetShard("db", models.ShardID(1))
	db, _ := eng.GetDatabase("db")
	h0 := time.Now().Add(-3*time.Hour).Truncate(time.Hour).UnixMilli()
	h1 := h0 + 3600_000
	n := 131_200
	f0, err := shard.GetOrCrateDataFamily(h0 + 60_000)
	if err != nil {
		panic(err)
	}
	// hour H0: 131200 pods report (series ids of metric m span three roaring buckets)
	for i := 0; i < n; i += 10_000 {
		to := i + 10_000
		if to > n {
			to = n
		}
		if err := f0.WriteRows(rows(h0+60_000, i, to, 1)); err != nil {
			panic(err)
		}
	}
	if err := f0.Flush(); err != nil {
		panic(err)
	}
	_ = db.FlushMeta()
	_ = shard.FlushIndex()
	// hour H1: only the oldest 10 pods and the newest 10 pods report; two flushes, then a compaction
	f1, err := shard.GetOrCrateDataFamily(h1 + 60_000)
	if err != nil {
		panic(err)
	}
	for round := 0; round < 2; round++ {
		ts := h1 + 60_000 + int64(round)*600_000
		if err := f1.WriteRows(rows(ts, 0, 10, float64(10+round))); err != nil {
			panic(err)
		}
		if err := f1.WriteRows(rows(ts, n-10, n, float64(10+round))); err != nil {
			panic(err)
		}
		if err := f1.Flush(); err != nil {
			panic(err)
		}
	}
	show := func(tag string) {
		snap := f1.Family().GetSnapshot()
		defer snap.Close()
		v, err := blocks.ReadFamily(snap, blocks.Options{}, nil)
		if err != nil {
			fmt.Println("read error", err)
			return
		}
		for _, f := range v.Files {
			fmt.Printf("%s: table %d L%d keys=%v\n", tag, f.Number, f.Level, f.Keys)
		}
		for m, bvs := range v.Blocks {
			for _, bv := range bvs {
				perBucket := map[uint32]int{}
				for k := range bv.Cells {
					perBucket[k.Series>>16]++
				}
				fmt.Printf("%s: metric %d table %d fields=%d range=%v names %d series, cells per series bucket=%v\n", tag, m, bv.File, len(bv.Fields), bv.Range, len(bv.Series), perBucket)
			}
		}
	}
	show("H1 before compaction")
	f1.Family().Compact()
	kv.VerifFamilyWait(f1.Family())
	show("H1 after compaction")
	_ = eng
}
