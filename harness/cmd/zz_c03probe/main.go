package main

import (
	"fmt"
	"os"

	"github.com/lindb/lindb/kv"
	"github.com/lindb/lindb/pkg/timeutil"
	"github.com/lindb/lindb/series/field"
	"github.com/lindb/lindb/verif/internal/blocks"
)

var _ = blk

func blk(r timeutil.SlotRange, ids []uint32, seq int) *blocks.Block {
	b := &blocks.Block{Metric: 12, Fields: field.Metas{{ID: 5, Type: field.SumField}}, Range: r}
	for _, s := range ids {
		b.Series = append(b.Series, blocks.Series{ID: s, Fields: []blocks.FieldData{{r.Start: float64(1000*seq + int(s%100))}}})
	}
	return b
}

func dump(fam kv.Family) {
	snap := fam.GetSnapshot()
	defer snap.Close()
	v, err := blocks.ReadFamily(snap, blocks.Options{}, nil)
	if err != nil {
		fmt.Println("ERR", err)
		return
	}
	for _, f := range v.Files {
		fmt.Printf("file %d L%d keys=%v\n", f.Number, f.Level, f.Keys)
	}
	for m, bvs := range v.Blocks {
		for _, bv := range bvs {
			fmt.Printf(" metric %d file %d range=%v series=%v cells=%v\n", m, bv.File, bv.Range, bv.Series, bv.Cells)
		}
	}
}

func main() {
	if len(os.Args) > 1 && os.Args[1] == "e2e" {
		e2e()
		return
	}
	dir, _ := os.MkdirTemp("", "c03probe")
	defer os.RemoveAll(dir)
	store, err := kv.GetStoreManager().CreateStore(dir+"/s", kv.DefaultStoreOption())
	if err != nil {
		panic(err)
	}
	fam, err := store.CreateFamily("data", kv.FamilyOption{Merger: blocks.MergerName})
	if err != nil {
		panic(err)
	}
	mk := func(r timeutil.SlotRange, seq int, silent uint32) *blocks.Block {
		b := &blocks.Block{Metric: 12, Fields: field.Metas{{ID: 5, Type: field.SumField}}, Range: r}
		for _, sid := range []uint32{65534, 65535, 65537, 131073} {
			se := blocks.Series{ID: sid, Fields: make([]blocks.FieldData, 1)}
			if sid>>16 != silent {
				se.Fields[0] = blocks.FieldData{r.Start: float64(1000*seq + int(sid%100))}
			}
			b.Series = append(b.Series, se)
		}
		return b
	}
	silent := uint32(1)
	if len(os.Args) > 1 {
		silent = 0
	}
	if err := blocks.FlushFile(fam, []*blocks.Block{mk(timeutil.SlotRange{Start: 612, End: 612}, 1, silent)}); err != nil {
		panic(err)
	}
	if err := blocks.FlushFile(fam, []*blocks.Block{mk(timeutil.SlotRange{Start: 601, End: 601}, 2, 99)}); err != nil {
		panic(err)
	}
	dump(fam)
	fam.Compact()
	kv.VerifFamilyWait(fam)
	fmt.Println("--- after compaction")
	dump(fam)
}
