package main

import (
	"fmt"
	"os"
	"sort"

	"github.com/lindb/lindb/models"
	"github.com/lindb/lindb/verif/internal/node"
)

// inspectChild: c07 inspect <ledger.json> <node dir copy>  — opens the engine on a directory and prints what the
// dictionaries and the shard index resolve for every series of the ledger (debugging aid).
func inspectChild() {
	L, err := loadLedger(os.Args[2])
	if err != nil {
		fmt.Println(err)
		os.Exit(3)
	}
	setupVerifyProcess()
	n, err := node.Open(node.Options{Dir: os.Args[3], Database: dbName, ShardIDs: shardIDs(L.Shards)})
	if err != nil {
		fmt.Println("open:", err)
		os.Exit(3)
	}
	seen := map[string]bool{}
	var lines []string
	for i := range L.Entries {
		for j := range L.Entries[i].Rows {
			row := &L.Entries[i].Rows[j]
			k := row.Metric + "/" + row.UID
			if seen[k] {
				continue
			}
			seen[k] = true
			ids := lookupIDs(n, row)
			var old *rowIDs
			if j < len(L.Entries[i].IDs) {
				old = &L.Entries[i].IDs[j]
			}
			lines = append(lines, fmt.Sprintf("%-10s shard %d now %+v | driven %+v", k, row.Shard, ids, old))
		}
	}
	sort.Strings(lines)
	for _, l := range lines {
		fmt.Println(l)
	}
	for s := 0; s < L.Shards; s++ {
		shard, _ := n.DB.GetShard(models.ShardID(s))
		for mid := 0; mid < 6; mid++ {
			bm, err := shard.IndexDB().GetSeriesIDsForMetric(metricID(mid))
			if err == nil && bm != nil && !bm.IsEmpty() {
				fmt.Printf("shard %d metric id %d: series %v\n", s, mid, bm.ToArray())
			}
		}
	}
	if len(os.Args) > 4 {
		// repeat one query: is the answer repeatable?
		c := node.NewCluster(n, node.Layout{})
		counts := map[string]int{}
		for i := 0; i < 30; i++ {
			got, err := queryCells(c, L, os.Args[4], "f")
			var uids []string
			for u, slots := range got {
				uids = append(uids, fmt.Sprintf("%s:%d", u, len(slots)))
			}
			sort.Strings(uids)
			counts[fmt.Sprintf("err=%v n=%d %v", err, len(uids), uids)]++
		}
		for k, v := range counts {
			fmt.Printf("%d x %s\n", v, k)
		}
		c.Close()
	}
	os.Exit(0)
}
