package main

import (
	"fmt"
	"sort"

	"github.com/lindb/roaring"

	"github.com/lindb/lindb/models"
	"github.com/lindb/lindb/series/field"
	"github.com/lindb/lindb/series/metric"
	"github.com/lindb/lindb/series/tag"
	"github.com/lindb/lindb/sql/stmt"
	"github.com/lindb/lindb/verif/internal/node"
)

// rowIDs are the numeric ids lindb's dictionaries and the shard index gave to the names of a row. They are read
// through the lookup functions the query path uses (never created by the lookup).
type rowIDs struct {
	Metric    int64            `json:"metric"` // -1 unknown
	Fields    map[string]int64 `json:"fields,omitempty"`
	TagKeys   map[string]int64 `json:"tag_keys,omitempty"`
	TagValues map[string]int64 `json:"tag_values,omitempty"` // "key=value" -> id
	Series    []int64          `json:"series,omitempty"`     // series ids listed for the row's uid value
}

func lookupIDs(n *node.Node, row *rowRec) rowIDs {
	ids := rowIDs{Metric: -1, Fields: map[string]int64{}, TagKeys: map[string]int64{}, TagValues: map[string]int64{}}
	meta := n.DB.MetaDB()
	mid, err := meta.GetMetricID(node.DefaultNamespace, row.Metric)
	if err != nil {
		return ids
	}
	ids.Metric = int64(mid)
	schema, err := meta.GetSchema(mid)
	if err != nil || schema == nil {
		return ids
	}
	for _, f := range row.Fields {
		if fm, ok := schema.Fields.Find(field.Name(f)); ok {
			ids.Fields[f] = int64(fm.ID)
		}
	}
	tags := map[string]string{"uid": row.UID, "host": row.Host}
	for k, v := range row.Extra {
		tags[k] = v
	}
	var uidKey tag.KeyID
	uidVal := int64(-1)
	for k, v := range tags {
		tm, ok := schema.TagKeys.Find(k)
		if !ok {
			continue
		}
		ids.TagKeys[k] = int64(tm.ID)
		bm, err := meta.FindTagValueDsByExpr(tm.ID, &stmt.EqualsExpr{Key: k, Value: v})
		if err != nil || bm == nil || bm.IsEmpty() {
			continue
		}
		ids.TagValues[k+"="+v] = int64(bm.Minimum())
		if k == "uid" {
			uidKey, uidVal = tm.ID, int64(bm.Minimum())
		}
	}
	if uidVal >= 0 {
		if shard, ok := n.DB.GetShard(models.ShardID(row.Shard)); ok {
			if bm, err := shard.IndexDB().GetSeriesIDsByTagValueIDs(uidKey, roaring.BitmapOf(uint32(uidVal))); err == nil && bm != nil {
				for _, s := range bm.ToArray() {
					ids.Series = append(ids.Series, int64(s))
				}
			}
		}
	}
	return ids
}

// idSet collects the ids (by kind) that may still be referenced by durable index entries / data although their
// dictionary entries are gone: the driven-run ids of the names of rows in the flush protocol window.
type idSet map[string]string // "kind:id[/scope]" -> name that owned the id in the crashed run

func rowNames(row *rowRec, ids *rowIDs) map[string]string {
	out := map[string]string{}
	if ids == nil {
		return out
	}
	if ids.Metric >= 0 {
		out[fmt.Sprintf("metric:%d", ids.Metric)] = "metric " + row.Metric
	}
	for k, id := range ids.TagKeys {
		out[fmt.Sprintf("tagkey:%d", id)] = "tag key " + row.Metric + "/" + k
	}
	for kv, id := range ids.TagValues {
		out[fmt.Sprintf("tagvalue:%d", id)] = "tag value " + row.Metric + "/" + kv
	}
	for _, id := range ids.Series {
		out[fmt.Sprintf("series:%d/%d/%d", row.Shard, ids.Metric, id)] = fmt.Sprintf("series %d/%s/%s", row.Shard, row.Metric, row.UID)
	}
	return out
}

func (s idSet) addRow(row *rowRec, ids *rowIDs) {
	for k, name := range rowNames(row, ids) {
		s[k] = name
	}
}

// collision reports a name of the row whose id (now) is an id that belonged to another name in the crashed run.
func (s idSet) collision(row *rowRec, now *rowIDs) string {
	var hits []string
	for k, name := range rowNames(row, now) {
		if owner, ok := s[k]; ok && owner != name {
			hits = append(hits, fmt.Sprintf("[%s] now has id %s, which the crashed run had given to [%s]", name, k, owner))
		}
	}
	sort.Strings(hits)
	if len(hits) == 0 {
		return ""
	}
	return hits[0]
}

func metricID(i int) metric.ID { return metric.ID(i) }
