package main

import (
	"fmt"
	"os"
	"path/filepath"

	"github.com/lindb/lindb/index"
)

func main() {
	dir := os.Args[1]
	os.RemoveAll(dir)
	meta, err := index.NewMetricMetaDatabase("db", dir)
	if err != nil {
		panic(err)
	}
	mid, _ := meta.GenMetricID([]byte("ns"), []byte("m"))
	meta.PrepareFlush()
	fmt.Println("flush1", meta.Flush())
	meta.PrepareFlush()
	fmt.Println("idle flush", meta.Flush())
	mid2, _ := meta.GenMetricID([]byte("ns"), []byte("m2"))
	meta.PrepareFlush()
	fmt.Println("flush3", meta.Flush())
	m, _ := filepath.Glob(filepath.Join(dir, "kv", "*", "*"))
	fmt.Println(mid, mid2, m)
	meta.Close()
	meta, err = index.NewMetricMetaDatabase("db", dir)
	if err != nil {
		panic(err)
	}
	id, err := meta.GetMetricID("ns", "m")
	fmt.Println("m", id, err)
	id, err = meta.GetMetricID("ns", "m2")
	fmt.Println("m2", id, err)
}
