package main

import (
	"fmt"

	"github.com/lindb/lindb/sql"
)

func main() {
	for _, q := range []string{"select f + 1h from cpu", "select (1h) from cpu", "select * + f from cpu", "select f+1 from cpu", "select sum(f)/count(f) as a from cpu where host='a' group by host having a>1 order by a desc",
		"select f from cpu group by time(18446744073709552m)", "select f + 9" + fmt.Sprintf("%0400d", 0) + " from cpu", "select f from cpu group by time(10s)", "select * from cpu"} {
		_, err := sql.Parse(q)
		if len(q) > 60 {
			q = q[:60] + "..."
		}
		fmt.Println(q, "=>", err)
	}
}
