#!/bin/bash
# Build every registered engine once (offline) so later checks only pay for incremental builds.
set -u
ROOT="$(cd "$(dirname "$0")" && pwd)"
mkdir -p "$ROOT/bin" "$ROOT/evidence" "$ROOT/replays"
ids=$(jq -r '.checks[].property_id' "$ROOT/MANIFEST.json")
[ -n "$ids" ] || exit 0
# shellcheck disable=SC2086
exec "$ROOT/run" build $ids
