#!/bin/bash
# Build every engine once (offline) so later checks only pay for incremental builds.
set -u
ROOT="$(cd "$(dirname "$0")" && pwd)"
mkdir -p "$ROOT/bin" "$ROOT/evidence" "$ROOT/replays"
exec "$ROOT/run" build
