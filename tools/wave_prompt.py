#!/usr/bin/env python3
"""wave_prompt.py <Cxx> <worktree>: the seeding prompt (tools/seed_prompt.py) plus the list of triggers earlier
testers already used for this property (taken from seeded/*/meta.json 'needs_to_manifest' only), so that a new
wave explores other mechanisms.  Nothing about the checks themselves is revealed."""
import json, os, subprocess, sys
pid, wt = sys.argv[1], sys.argv[2]
sd = "/verif/seeded"
tried = []
for name in sorted(os.listdir(sd)):
    mp = os.path.join(sd, name, "meta.json")
    if os.path.exists(mp):
        m = json.load(open(mp))
        if m["property"] == pid:
            tried.append("- " + m["needs_to_manifest"].strip())
variant = ("Earlier testers already used the following triggers for this property; choose a clearly DIFFERENT mechanism "
           "(another function or file among the anchored code, another kind of trigger, another clause of the statement):\n"
           + "\n".join(tried) + "\n")
sys.stdout.write(subprocess.check_output([sys.executable, os.path.join(os.path.dirname(__file__), "seed_prompt.py"), pid, wt, variant]).decode())
