#!/usr/bin/env python3
"""Regenerates the generated tables of DESIGN.md (fix commits, open findings, seeded changes) between markers."""
import json, os, re, subprocess
root = os.path.dirname(os.path.dirname(os.path.abspath(__file__)))
kf = json.load(open(os.path.join(root, "known_findings.json")))["findings"]
log = subprocess.check_output(["git", "-C", "/repo", "log", "--format=%h\t%s"]).decode().splitlines()
fixes = [l.split("\t", 1) for l in log if l.split("\t", 1)[1].startswith("fix:")][::-1]
by_commit = {}
for f in kf:
    if f["status"] == "fixed":
        by_commit.setdefault(f.get("commit", ""), []).append(f)
rows = ["| commit | property (check that reports it if it returns) | what failed |", "|---|---|---|"]
for sha, subj in fixes:
    ents = [e for c, es in by_commit.items() for e in es if c and (c.startswith(sha) or sha.startswith(c))]
    props = sorted({e["property"] for e in ents})
    classes = sorted({e["class"] for e in ents})
    what = subj[len("fix:"):].strip()
    rows.append(f"| {sha} | {', '.join(props) or '—'} {('(`' + '`, `'.join(classes[:3]) + ('`, …' if len(classes) > 3 else '`') + ')') if classes else ''} | {what} |")
fix_tbl = "\n".join(rows)
rows = ["| property | class | what fails |", "|---|---|---|"]
for f in kf:
    if f["status"] == "open":
        rows.append(f"| {f['property']} | `{f['class']}` | {f['what'][:600].replace('|', '/')} |")
open_tbl = "\n".join(rows)
rows = ["| seeded change | property | needs to manifest | caught | detected as |", "|---|---|---|---|---|"]
sd = os.path.join(root, "seeded")
for name in sorted(os.listdir(sd)) if os.path.isdir(sd) else []:
    mp = os.path.join(sd, name, "meta.json")
    if not os.path.exists(mp):
        continue
    m = json.load(open(mp))
    rows.append(f"| `{name}` | {m['property']} | {m['needs_to_manifest'].replace('|','/')} | {m['caught_by_check']} | {m['detected_as'].replace('|','/')} |")
seed_tbl = "\n".join(rows)
p = os.path.join(root, "DESIGN.md")
s = open(p).read()
for tag, tbl in (("FIXES", fix_tbl), ("OPEN", open_tbl), ("SEEDS", seed_tbl)):
    b, e = f"<!-- {tag}:BEGIN -->", f"<!-- {tag}:END -->"
    if b in s:
        s = re.sub(re.escape(b) + ".*?" + re.escape(e), lambda _m: b + "\n" + tbl + "\n" + e, s, flags=re.S)
open(p, "w").write(s)
print("fixes", len(fixes), "open", sum(1 for f in kf if f['status'] == 'open'))
