#!/bin/bash
# usage: tools/sweep.sh [seed] [tier]   runs every registered check once and prints one line per check
ROOT="$(cd "$(dirname "$0")/.." && pwd)"; cd "$ROOT"
seed="${1:-1}"; tier="${2:-quick}"
for id in $(jq -r '.checks[].property_id' MANIFEST.json); do
  s=$(date +%s)
  VERIF_SEED=$seed ./run "$id" "$tier" > "/tmp/sweep-$id-$seed.log" 2>&1; rc=$?
  e=$(( $(date +%s) - s ))
  known=$(grep -ac "^KNOWN-FINDING" "/tmp/sweep-$id-$seed.log")
  viol=$(grep -ac "^VIOLATION" "/tmp/sweep-$id-$seed.log")
  inc=$(grep -ac "^INCONCLUSIVE" "/tmp/sweep-$id-$seed.log")
  echo "$id seed=$seed rc=$rc wall=${e}s violations=$viol known=$known inconclusive=$inc"
done
