#!/usr/bin/env python3
"""Generates /verif/MANIFEST.json from tools/checks.json (one entry per claimed property)."""
import json, os, sys
root = os.path.dirname(os.path.dirname(os.path.abspath(__file__)))
spec = json.load(open(os.path.join(root, "tools", "checks.json")))
props = [json.loads(l)["id"] for l in open(os.path.join(root, "properties.jsonl"))]
checks, na = [], []
for pid in props:
    e = spec["checks"].get(pid)
    if e is None or e.get("not_applicable"):
        na.append({"property_id": pid, "reason": (e or {}).get("not_applicable", "engine not built yet (work in progress)")})
        continue
    checks.append({
        "property_id": pid,
        "quick_cmd": f"./run {pid} quick",
        "thorough_cmd": f"./run {pid} thorough",
        "evidence_file": f"/verif/evidence/{pid}.json",
        "replay_cmd_template": "cat {path}",
        "engine": f"harness/cmd/{pid.lower()}",
        "level_claimed": {"category": e["level"], "text": e["text"], "design_ref": f"DESIGN.md §3 {pid}"},
        "level_note": e["note"],
        "technique": e["technique"],
    })
m = {
    "version": 1,
    "setup_cmd": "./setup.sh",
    "hooks": {
        "guard": "verif (Go build tag)",
        "enable": "go build -tags verif (done by ./run for every check; harness module replaces github.com/lindb/lindb => /repo)",
        "baseline_off_cmd": spec["baseline_off_cmd"],
        "source_commits": spec["hook_commits"],
        "add_only": True,
    },
    "engines": [{"name": c["engine"], "path": "/verif/" + c["engine"], "serves_properties": [c["property_id"]],
                 "kind_free_text": c["technique"]} for c in checks],
    "checks": checks,
    "notes": spec.get("notes", ""),
    "not_applicable": na,
}
json.dump(m, open(os.path.join(root, "MANIFEST.json"), "w"), indent=1)
print("checks:", len(checks), "not_applicable:", len(na))
