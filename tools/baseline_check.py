#!/usr/bin/env python3
"""Runs lindb's baseline suite with the verif guard OFF and compares the passing tests with BASELINE.json."""
import json, subprocess, sys, os
env = dict(os.environ, GOFLAGS="-mod=mod", GOPROXY="off", GOSUMDB="off", GOTOOLCHAIN="local")
base = json.load(open("/root/.vp/BASELINE.json"))
want = set(base["stable_pass"])
p = subprocess.run(["go", "test", "-json", "-vet=off", "-count=1", "-timeout", "25m", "./..."], cwd="/repo", env=env,
                   stdout=subprocess.PIPE, stderr=subprocess.DEVNULL, text=True)
passed, failed = set(), set()
for line in p.stdout.splitlines():
    try:
        e = json.loads(line)
    except Exception:
        continue
    if e.get("Test") and e.get("Action") in ("pass", "fail"):
        name = e["Package"] + "::" + e["Test"]
        (passed if e["Action"] == "pass" else failed).add(name)
missing = sorted(want - passed)
print("baseline tests:", len(want), "passed now:", len(want & passed), "missing:", len(missing))
for m in missing[:40]:
    print("  MISSING", m, "(failed)" if m in failed else "(not run)")
sys.exit(1 if missing else 0)
