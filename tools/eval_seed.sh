#!/bin/bash
# usage: eval_seed.sh <CID> <worktree> "<demo test command (run inside the worktree)>"
# Confirms a seeded change (demo fails with it, passes without it, tree builds) and runs the check against it.
set -u
CID="$1"; WT="$2"; DEMO="$3"
export GOFLAGS=-mod=mod GOPROXY=off GOSUMDB=off GOTOOLCHAIN=local LOG_LEVEL=fatal
cd "$WT" || exit 9
echo "== build with change"; go build ./... || exit 9
echo "== demo WITH change (expect FAIL)"; ( eval "$DEMO" ) > /tmp/seed-demo-with.log 2>&1; w=$?; tail -3 /tmp/seed-demo-with.log | cut -c1-200
git apply -R SEED/patch.diff || exit 9
echo "== demo WITHOUT change (expect PASS)"; ( eval "$DEMO" ) > /tmp/seed-demo-without.log 2>&1; wo=$?; tail -2 /tmp/seed-demo-without.log | cut -c1-200
git apply SEED/patch.diff || exit 9
echo "demo exit with=$w without=$wo"
echo "== check against the change"
cd /verif && VERIF_TREE="$WT" VERIF_OUT="/tmp/verif-out-seed-$CID" ./run "$CID" quick > /tmp/seed-check-$CID.log 2>&1; rc=$?
grep -v "observed" /tmp/seed-check-$CID.log | cut -c1-300 | tail -6
echo "check exit=$rc"
