#!/usr/bin/env python3
"""keep_seed.py <name> <property> <worktree> <caught: yes|no|after-strengthening> "<needs>" "<ran>" "<detected_by>"
Copies <worktree>/SEED into /verif/seeded/<name>/ with a meta.json and removes the worktree."""
import json, os, shutil, subprocess, sys
name, prop, wt, caught, needs, ran, detected = sys.argv[1:8]
dst = f"/verif/seeded/{name}"
shutil.rmtree(dst, ignore_errors=True)
shutil.copytree(os.path.join(wt, "SEED"), dst)
meta = {"property": prop, "breaks": open(os.path.join(dst, "NOTES.md")).read()[:1500] if os.path.exists(os.path.join(dst, "NOTES.md")) else "",
        "needs_to_manifest": needs, "what_was_run": ran, "caught_by_check": caught, "detected_as": detected,
        "base_commit": subprocess.check_output(["git", "-C", "/repo", "log", "--format=%h", "-1"]).decode().strip()}
json.dump(meta, open(os.path.join(dst, "meta.json"), "w"), indent=1)
subprocess.call(["git", "-C", "/repo", "worktree", "remove", "--force", wt])
shutil.rmtree(f"/tmp/verif-out-seed-{prop}", ignore_errors=True)
print("kept", dst)
