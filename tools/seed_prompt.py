#!/usr/bin/env python3
"""Prints the prompt for a fresh seeding sub-agent: only the property text and a scratch worktree path."""
import json, sys
pid, wt = sys.argv[1], sys.argv[2]
variant = sys.argv[3] if len(sys.argv) > 3 else ""
for l in open('/verif/properties.jsonl'):
    p = json.loads(l)
    if p['id'] == pid:
        break
print(f"""You are testing how well an unknown verification suite detects subtle regressions. Work autonomously; your final message is a report.

Repository: lindb (distributed time-series database in Go). You have your own scratch git worktree of it at {wt} (create it first with: git -C /repo worktree add --detach {wt} HEAD). Work ONLY inside {wt}; never edit /repo itself, never look at or use anything under /verif, and do not run git commit/stash/checkout in /repo.
Environment for every shell call (no network exists): export GOFLAGS=-mod=mod GOPROXY=off GOSUMDB=off GOTOOLCHAIN=local LOG_LEVEL=fatal

The property that must hold for lindb:
  Title: {p['title']}
  Statement: {p['statement']}
  Quantified over: {p['quantifier']['text']}
  Code it is anchored in: {', '.join(p['anchors']['files'])}

Your task: make ONE small change to lindb's non-test source in {wt} that BREAKS this property while the code still compiles and the repository's existing unit tests that compile still pass (run at least: cd {wt} && go test -count=1 -vet=off ./<touched packages>/... ; packages whose tests do not compile because generated mocks are missing are pre-existing and can be ignored; also run go test for any package you touched whose tests do compile). The change must look like a plausible regression (an optimisation, a refactoring slip, a dropped check, a reordered step, an off-by-one), NOT an obvious sabotage, and it must need something specific to manifest — a particular interleaving, a crash or fault at a particular point, a multi-step sequence of operations, an unusual input, or two cooperating sites that each look fine alone — rather than breaking on ordinary first use. {variant}
Then write a demonstration: a Go test file (or small program) placed in {wt} that FAILS with your change and PASSES without it (verify both: run it with the change; then save the source change with `git -C {wt} diff -- . ':!SEED' > /tmp/seed-{pid}.diff`, remove it with `git -C {wt} apply -R /tmp/seed-{pid}.diff`, run the demonstration again to see it pass, and re-apply the diff with `git -C {wt} apply /tmp/seed-{pid}.diff`). The demonstration must exercise lindb's real code, be deterministic or retry internally until the failure shows (bounded), and finish within 2 minutes.
Deliver in {wt}/SEED/ : patch.diff (git diff of the source change only, without the demonstration file), the demonstration file(s), and NOTES.md (what the change is, why it breaks the property, what is needed for it to manifest, exact commands to run the demonstration with and without the change, which existing tests you ran). Leave the worktree in place (the coordinator removes it). Final message: a short summary of the same.""")
